// simrewrite is the typed source-to-source rewriter that puts galaxy's sources of nondeterminism behind the
// simulator's seams. It is applied to a scratch copy of /repo only.
//
//	simrewrite -dir <scratch copy of the galaxy module>
//
// Passes (all textual edits at token positions found through go/packages type information):
//
//	P1 imports      sync, time, wait, keymutex, klog (+ per-package os, io/ioutil, net, invoke ...) -> drop-ins
//	P3 map ranges   for k, v := range m  ->  iteration over simhook.Keys(m) (sorted, rotated by the choice stream)
//	P4 go stmts     go f(x)  ->  simhook.Go(...) with the arguments evaluated at the go statement
//	P5 selects      blocking select  ->  polling select whose default parks the task as a waiter
//	P2 calls        sets.X.UnsortedList() -> simhook.Rotate(x.List())
//
// It exits 2 on any construct it does not understand, so that a tree is never silently mis-transformed.
package main

import (
	"encoding/json"
	"flag"
	"fmt"
	"go/ast"
	"go/token"
	"go/types"
	"os"
	"path/filepath"
	"sort"
	"strings"

	"golang.org/x/tools/go/packages"
)

const (
	modPath  = "tkestack.io/galaxy"
	hookPath = modPath + "/verifsim/dropin/simhook"
	dropBase = modPath + "/verifsim/dropin/"
)

// global import substitutions (applied to every rewritten package)
var globalSubst = map[string]string{
	"sync":                               dropBase + "simsync",
	"time":                               dropBase + "simtime",
	"k8s.io/apimachinery/pkg/util/wait": dropBase + "simwait",
	"k8s.io/utils/keymutex":              dropBase + "simkeymutex",
	"k8s.io/klog":                        dropBase + "simlog",
	"k8s.io/klog/v2":                     dropBase + "simlog",
}

// per-package import substitutions (package path suffix after the module path)
var pkgSubst = map[string]map[string]string{
	"pkg/api/cniutil": {
		"os":        dropBase + "simos",
		"io/ioutil": dropBase + "simioutil",
		"github.com/containernetworking/cni/pkg/invoke": dropBase + "siminvoke",
		"github.com/containernetworking/cni/libcni":     dropBase + "simlibcni",
	},
	"pkg/api/docker": {
		"os": dropBase + "simos",
	},
	"pkg/api/k8s": {
		"os":        dropBase + "simos",
		"io/ioutil": dropBase + "simioutil",
	},
	"pkg/gc": {
		"os":                              dropBase + "simos",
		"io/ioutil":                       dropBase + "simioutil",
		"github.com/vishvananda/netlink": dropBase + "simnetlink",
	},
	"pkg/galaxy": {
		"os":        dropBase + "simos",
		"io/ioutil": dropBase + "simioutil",
	},
	"pkg/network/portmapping": {
		"net": dropBase + "simnet",
	},
}

// packages that are never rewritten
var skipPrefixes = []string{
	modPath + "/pkg/ipam/client/",
	modPath + "/pkg/ipam/apis/",
	modPath + "/verifsim/",
	modPath + "/pkg/ipam/cloudprovider/rpc",
	modPath + "/pkg/utils/ipset/testing",
	modPath + "/pkg/utils/iptables/testing",
	modPath + "/pkg/utils/test",
	modPath + "/pkg/ipam/schedulerplugin/testing",
}

type edit struct {
	start, end int
	text       string
}

type fileCtx struct {
	pkg      *packages.Package
	file     *ast.File
	fset     *token.FileSet
	src      []byte
	edits    []edit
	needHook bool
	path     string
	tmp      int
	errs     []string
}

type report struct {
	Files      int            `json:"files_rewritten"`
	Imports    map[string]int `json:"import_substitutions"`
	MapRanges  int            `json:"map_ranges"`
	GoStmts    int            `json:"go_statements"`
	Selects    int            `json:"selects"`
	CallSubst  int            `json:"call_substitutions"`
	Packages   int            `json:"packages"`
	MapSites   []string       `json:"map_range_sites"`
}

var rep = report{Imports: map[string]int{}}

func die(format string, a ...interface{}) {
	fmt.Fprintf(os.Stderr, "simrewrite: "+format+"\n", a...)
	os.Exit(2)
}

func main() {
	dir := flag.String("dir", "", "scratch copy of the galaxy module")
	tags := flag.String("tags", "verif", "build tags")
	reportPath := flag.String("report", "", "write a JSON report here")
	flag.Parse()
	if *dir == "" {
		die("-dir is required")
	}
	abs, err := filepath.Abs(*dir)
	if err != nil {
		die("%v", err)
	}
	cfg := &packages.Config{
		Mode: packages.NeedName | packages.NeedFiles | packages.NeedCompiledGoFiles | packages.NeedSyntax |
			packages.NeedTypes | packages.NeedTypesInfo | packages.NeedImports,
		Dir:        abs,
		BuildFlags: []string{"-tags=" + *tags},
		Env:        os.Environ(),
	}
	pkgs, err := packages.Load(cfg, "./pkg/...", "./cni/...")
	if err != nil {
		die("load: %v", err)
	}
	bad := false
	for _, p := range pkgs {
		for _, e := range p.Errors {
			// packages that do not build on this platform or need cgo are not part of any world; only
			// report errors of packages we rewrite
			if !skipped(p.PkgPath) {
				fmt.Fprintf(os.Stderr, "simrewrite: %s: %v\n", p.PkgPath, e)
				bad = true
			}
		}
	}
	if bad {
		die("type errors in the tree to be rewritten")
	}
	sort.Slice(pkgs, func(i, j int) bool { return pkgs[i].PkgPath < pkgs[j].PkgPath })
	for _, p := range pkgs {
		if skipped(p.PkgPath) {
			continue
		}
		rep.Packages++
		for i, f := range p.Syntax {
			path := p.CompiledGoFiles[i]
			if !strings.HasPrefix(path, abs+string(filepath.Separator)) {
				continue
			}
			if strings.HasSuffix(path, "_test.go") {
				continue
			}
			rewriteFile(p, f, path)
		}
	}
	if *reportPath != "" {
		b, _ := json.MarshalIndent(rep, "", " ")
		if err := os.WriteFile(*reportPath, b, 0o644); err != nil {
			die("%v", err)
		}
	}
}

func skipped(path string) bool {
	for _, s := range skipPrefixes {
		if strings.HasPrefix(path, s) || path+"/" == s {
			return true
		}
	}
	return false
}

func rewriteFile(p *packages.Package, f *ast.File, path string) {
	src, err := os.ReadFile(path)
	if err != nil {
		die("%v", err)
	}
	fc := &fileCtx{pkg: p, file: f, fset: p.Fset, src: src, path: path}
	fc.imports()
	ast.Inspect(f, func(n ast.Node) bool {
		switch x := n.(type) {
		case *ast.RangeStmt:
			fc.rangeStmt(x)
		case *ast.GoStmt:
			fc.goStmt(x)
		case *ast.SelectStmt:
			fc.selectStmt(x, f)
		case *ast.CallExpr:
			fc.callExpr(x)
		}
		return true
	})
	if len(fc.errs) > 0 {
		for _, e := range fc.errs {
			fmt.Fprintln(os.Stderr, "simrewrite:", e)
		}
		os.Exit(2)
	}
	if len(fc.edits) == 0 {
		return
	}
	if fc.needHook {
		fc.addHookImport()
	}
	out := fc.apply()
	if err := os.WriteFile(path, out, 0o644); err != nil {
		die("%v", err)
	}
	rep.Files++
}

func (fc *fileCtx) off(p token.Pos) int { return fc.fset.Position(p).Offset }

func (fc *fileCtx) text(n ast.Node) string { return string(fc.src[fc.off(n.Pos()):fc.off(n.End())]) }

func (fc *fileCtx) posStr(p token.Pos) string {
	pos := fc.fset.Position(p)
	return fmt.Sprintf("%s:%d", pos.Filename, pos.Line)
}

func (fc *fileCtx) refuse(p token.Pos, format string, a ...interface{}) {
	fc.errs = append(fc.errs, fc.posStr(p)+": "+fmt.Sprintf(format, a...))
}

func (fc *fileCtx) add(start, end int, text string) {
	fc.edits = append(fc.edits, edit{start, end, text})
}

func (fc *fileCtx) apply() []byte {
	sort.SliceStable(fc.edits, func(i, j int) bool {
		if fc.edits[i].start != fc.edits[j].start {
			return fc.edits[i].start < fc.edits[j].start
		}
		return fc.edits[i].end < fc.edits[j].end
	})
	var out []byte
	last := 0
	for _, e := range fc.edits {
		if e.start < last {
			die("%s: overlapping edits at offset %d", fc.path, e.start)
		}
		out = append(out, fc.src[last:e.start]...)
		out = append(out, e.text...)
		last = e.end
	}
	out = append(out, fc.src[last:]...)
	return out
}

// ---- P1 imports --------------------------------------------------------------------------------

func defaultName(path string) string {
	switch path {
	case "k8s.io/klog/v2":
		return "klog"
	}
	i := strings.LastIndex(path, "/")
	return path[i+1:]
}

func (fc *fileCtx) imports() {
	rel := strings.TrimPrefix(fc.pkg.PkgPath, modPath+"/")
	local := pkgSubst[rel]
	for _, is := range fc.file.Imports {
		path := strings.Trim(is.Path.Value, "\"`")
		to, ok := globalSubst[path]
		if l, ok2 := local[path]; ok2 {
			to, ok = l, true
		}
		if !ok {
			continue
		}
		name := defaultName(path)
		if is.Name != nil {
			if is.Name.Name == "_" || is.Name.Name == "." {
				fc.refuse(is.Pos(), "blank or dot import of a simulated package %s", path)
				continue
			}
			name = is.Name.Name
			fc.add(fc.off(is.Name.Pos()), fc.off(is.Path.End()), fmt.Sprintf("%s %q", name, to))
		} else {
			fc.add(fc.off(is.Path.Pos()), fc.off(is.Path.End()), fmt.Sprintf("%s %q", name, to))
		}
		rep.Imports[path]++
	}
}

func (fc *fileCtx) addHookImport() {
	for _, is := range fc.file.Imports {
		if strings.Trim(is.Path.Value, "\"") == hookPath {
			return
		}
	}
	// insert a separate import declaration right after the package clause
	end := fc.off(fc.file.Name.End())
	fc.add(end, end, fmt.Sprintf("\n\nimport simhook %q\n", hookPath))
}

// ---- P3 map ranges -----------------------------------------------------------------------------

func isMap(t types.Type) bool {
	if t == nil {
		return false
	}
	_, ok := t.Underlying().(*types.Map)
	return ok
}

func pureExpr(e ast.Expr) bool {
	switch x := e.(type) {
	case *ast.Ident:
		return true
	case *ast.SelectorExpr:
		return pureExpr(x.X)
	case *ast.ParenExpr:
		return pureExpr(x.X)
	case *ast.StarExpr:
		return pureExpr(x.X)
	case *ast.IndexExpr:
		return pureExpr(x.X) && pureExpr(x.Index)
	case *ast.BasicLit:
		return true
	}
	return false
}

func containsFuncLit(n ast.Node) bool {
	found := false
	ast.Inspect(n, func(x ast.Node) bool {
		if _, ok := x.(*ast.FuncLit); ok {
			found = true
		}
		return !found
	})
	return found
}

// capturedOrAddressed reports whether obj is used inside a function literal in body or has its address taken.
func (fc *fileCtx) capturedOrAddressed(body *ast.BlockStmt, obj types.Object) bool {
	if obj == nil {
		return false
	}
	bad := false
	var walk func(n ast.Node, inLit bool)
	walk = func(n ast.Node, inLit bool) {
		ast.Inspect(n, func(x ast.Node) bool {
			if bad {
				return false
			}
			switch y := x.(type) {
			case *ast.FuncLit:
				if !inLit {
					walk(y.Body, true)
					return false
				}
			case *ast.UnaryExpr:
				if y.Op == token.AND {
					if id, ok := y.X.(*ast.Ident); ok && fc.pkg.TypesInfo.Uses[id] == obj {
						bad = true
					}
				}
			case *ast.Ident:
				if inLit && fc.pkg.TypesInfo.Uses[y] == obj {
					bad = true
				}
			}
			return true
		})
	}
	walk(body, false)
	return bad
}

func (fc *fileCtx) fresh(prefix string) string {
	fc.tmp++
	return fmt.Sprintf("_sim%s%d", prefix, fc.tmp)
}

func (fc *fileCtx) rangeStmt(rs *ast.RangeStmt) {
	tv, ok := fc.pkg.TypesInfo.Types[rs.X]
	if !ok || !isMap(tv.Type) {
		return
	}
	rep.MapRanges++
	rep.MapSites = append(rep.MapSites, strings.TrimPrefix(fc.posStr(rs.Pos()), ""))
	fc.needHook = true
	if containsFuncLit(rs.X) {
		fc.refuse(rs.Pos(), "map range expression contains a function literal")
		return
	}
	keyName, valName := "", ""
	if id, ok := rs.Key.(*ast.Ident); rs.Key != nil && ok {
		keyName = id.Name
	} else if rs.Key != nil {
		fc.refuse(rs.Pos(), "map range key is not an identifier")
		return
	}
	if id, ok := rs.Value.(*ast.Ident); rs.Value != nil && ok {
		valName = id.Name
	} else if rs.Value != nil {
		fc.refuse(rs.Pos(), "map range value is not an identifier")
		return
	}
	if rs.Tok == token.DEFINE {
		// per-iteration vs per-loop variables would differ for captured / addressed loop variables
		for _, e := range []ast.Expr{rs.Key, rs.Value} {
			if id, ok := e.(*ast.Ident); ok && id.Name != "_" {
				if fc.capturedOrAddressed(rs.Body, fc.pkg.TypesInfo.Defs[id]) {
					fc.refuse(rs.Pos(), "map range variable %s is captured by a closure or has its address taken", id.Name)
					return
				}
			}
		}
	}
	x := fc.text(rs.X)
	start := fc.off(rs.For)
	end := fc.off(rs.Body.Lbrace) + 1
	useKey := keyName != "" && keyName != "_"
	useVal := valName != "" && valName != "_"
	var hdr string
	if pureExpr(rs.X) {
		k := keyName
		declare := rs.Tok == token.DEFINE
		if !useKey || !declare {
			k = fc.fresh("k")
		}
		okv := fc.fresh("ok")
		hdr = fmt.Sprintf("for _, %s := range simhook.Keys(%s) {", k, x)
		switch {
		case useVal && declare:
			hdr += fmt.Sprintf(" %s, %s := %s[%s]; if !%s { continue }; _ = %s;", valName, okv, x, k, okv, valName)
		case useVal && !declare:
			v := fc.fresh("v")
			hdr += fmt.Sprintf(" %s, %s := %s[%s]; if !%s { continue }; %s = %s;", v, okv, x, k, okv, valName, v)
		default:
			hdr += fmt.Sprintf(" if _, %s := %s[%s]; !%s { continue };", okv, x, k, okv)
		}
		if useKey && !declare {
			hdr += fmt.Sprintf(" %s = %s;", keyName, k)
		}
	} else {
		e := fc.fresh("e")
		hdr = fmt.Sprintf("for _, %s := range simhook.Entries(%s) {", e, x)
		op := ":="
		if rs.Tok != token.DEFINE {
			op = "="
		}
		if useKey {
			hdr += fmt.Sprintf(" %s %s %s.K;", keyName, op, e)
		}
		if useVal {
			hdr += fmt.Sprintf(" %s %s %s.V;", valName, op, e)
		}
		if !useKey && !useVal {
			hdr += fmt.Sprintf(" _ = %s;", e)
		}
	}
	fc.add(start, end, hdr)
}

// ---- P4 go statements --------------------------------------------------------------------------

func (fc *fileCtx) goStmt(gs *ast.GoStmt) {
	rep.GoStmts++
	fc.needHook = true
	call := gs.Call
	if call.Ellipsis.IsValid() {
		fc.refuse(gs.Pos(), "go statement with a variadic spread call")
		return
	}
	goStart := fc.off(gs.Go)
	if fl, ok := call.Fun.(*ast.FuncLit); ok && len(call.Args) == 0 {
		// go func(){...}()  ->  simhook.Go(func(){...})
		fc.add(goStart, goStart+2, "simhook.Go(")
		fc.add(fc.off(fl.End()), fc.off(call.Rparen)+1, ")")
		return
	}
	if id, ok := call.Fun.(*ast.Ident); ok {
		if _, isBuiltin := fc.pkg.TypesInfo.Uses[id].(*types.Builtin); isBuiltin {
			fc.refuse(gs.Pos(), "go statement calling a builtin")
			return
		}
	}
	// general form: evaluate the function value and the arguments now, run the call in the child
	fc.add(goStart, fc.off(call.Fun.Pos()), "simhook.Go(func() func() { _simf := ")
	var names []string
	if len(call.Args) == 0 {
		fc.add(fc.off(call.Fun.End()), fc.off(call.Rparen)+1, "; return func() { _simf() } }())")
		return
	}
	for i, a := range call.Args {
		n := fmt.Sprintf("_sima%d", i)
		names = append(names, n)
		var from int
		if i == 0 {
			from = fc.off(call.Fun.End())
		} else {
			from = fc.off(call.Args[i-1].End())
		}
		fc.add(from, fc.off(a.Pos()), fmt.Sprintf("; %s := ", n))
	}
	last := call.Args[len(call.Args)-1]
	fc.add(fc.off(last.End()), fc.off(call.Rparen)+1,
		fmt.Sprintf("; return func() { _simf(%s) } }())", strings.Join(names, ", ")))
}

// ---- P5 selects --------------------------------------------------------------------------------

func (fc *fileCtx) selectStmt(ss *ast.SelectStmt, file *ast.File) {
	for _, c := range ss.Body.List {
		cc := c.(*ast.CommClause)
		if cc.Comm == nil {
			return // has a default: never blocks
		}
	}
	rep.Selects++
	fc.needHook = true
	for _, c := range ss.Body.List {
		cc := c.(*ast.CommClause)
		if _, isSend := cc.Comm.(*ast.SendStmt); isSend {
			fc.refuse(cc.Pos(), "blocking select with a send case")
			return
		}
		// an unlabelled continue in a case body would bind to the polling loop we insert
		bad := false
		for _, st := range cc.Body {
			ast.Inspect(st, func(n ast.Node) bool {
				switch y := n.(type) {
				case *ast.FuncLit, *ast.ForStmt, *ast.RangeStmt:
					return false
				case *ast.BranchStmt:
					if y.Tok == token.CONTINUE && y.Label == nil {
						bad = true
					}
				}
				return true
			})
		}
		if bad {
			fc.refuse(cc.Pos(), "unlabelled continue inside a blocking select case")
			return
		}
	}
	// labelled select statements are not handled
	done := fc.fresh("done")
	start := fc.off(ss.Select)
	fc.add(start, start, fmt.Sprintf("for %s := false; !%s; { %s = true; ", done, done, done))
	rb := fc.off(ss.Body.Rbrace)
	fc.add(rb, rb+1, fmt.Sprintf("default: %s = false; simhook.ChanWait() } }", done))
}

// ---- P2 call substitutions ---------------------------------------------------------------------

func (fc *fileCtx) callExpr(ce *ast.CallExpr) {
	sel, ok := ce.Fun.(*ast.SelectorExpr)
	if !ok {
		return
	}
	if sel.Sel.Name == "WaitForCacheSync" {
		// cache.WaitForCacheSync(stop, fns...) polls on the real clock -> simhook.WaitForCacheSync (simulated clock)
		if fn, ok := fc.pkg.TypesInfo.Uses[sel.Sel].(*types.Func); ok && fn.Pkg() != nil && fn.Pkg().Path() == "k8s.io/client-go/tools/cache" {
			rep.CallSubst++
			fc.needHook = true
			// keep the import used: a blank reference is appended to the file
			fc.add(len(fc.src), len(fc.src), "\nvar _ = "+fc.text(sel.X)+".WaitForCacheSync\n")
			fc.add(fc.off(sel.Pos()), fc.off(sel.End()), "simhook.WaitForCacheSync")
		}
		return
	}
	if sel.Sel.Name != "UnsortedList" && sel.Sel.Name != "PopAny" {
		return
	}
	tv, ok := fc.pkg.TypesInfo.Types[sel.X]
	if !ok {
		return
	}
	named, ok := tv.Type.(*types.Named)
	if !ok || named.Obj().Pkg() == nil || named.Obj().Pkg().Path() != "k8s.io/apimachinery/pkg/util/sets" {
		return
	}
	if sel.Sel.Name == "PopAny" {
		fc.refuse(ce.Pos(), "sets.PopAny is not simulated")
		return
	}
	if !pureExpr(sel.X) {
		// evaluate once anyway: x.List() is evaluated once inside Rotate's argument
	}
	rep.CallSubst++
	fc.needHook = true
	// x.UnsortedList() -> simhook.Rotate(x.List())
	fc.add(fc.off(ce.Pos()), fc.off(ce.Pos()), "simhook.Rotate(")
	fc.add(fc.off(sel.Sel.Pos()), fc.off(sel.Sel.End()), "List")
	fc.add(fc.off(ce.Rparen)+1, fc.off(ce.Rparen)+1, ")")
}
