// vcheck is the driver of a check: it rebuilds the simulated world from /repo's working tree, fans out seeded
// worker processes, confirms every reported violation by replaying its minimised file in a fresh process,
// prints the verdict lines and writes the evidence file.
//
//	vcheck <property> [-tier quick|thorough] [-budget seconds] [-workers n]
//	vcheck -replay <file>
//
// Exit 0: property held on everything explored. Exit 1: VIOLATION (reproduced from its replay file).
// Exit 2: build / rewriter / determinism / watchdog trouble (never a verdict).
package main

import (
	"encoding/json"
	"flag"
	"fmt"
	"os"
	"os/exec"
	"path/filepath"
	"runtime"
	"sort"
	"strconv"
	"strings"
	"sync"
	"time"
)

type propSpec struct {
	World    string
	Race     bool
	More     []string // further worlds that also serve the property (same race flag); the budget is split
	Level    string
	Quick    float64 // per-worker wall budget, seconds
	Thorough float64
	Rule     string
	Assume   []string
	HangIsVerdict bool
}

var verifDir = func() string {
	if d := os.Getenv("VERIF_DIR"); d != "" {
		return d
	}
	exe, err := os.Executable()
	if err == nil {
		return filepath.Dir(filepath.Dir(exe))
	}
	return "/verif"
}()

type workerReport struct {
	Property     string            `json:"property"`
	World        string            `json:"world"`
	Worker       int               `json:"worker"`
	Runs         int               `json:"runs"`
	Nontrivial   int               `json:"nontrivial"`
	Sigs         []string          `json:"sigs"`
	Stats        map[string]int    `json:"stats"`
	Steps        int64             `json:"steps"`
	SimNanos     int64             `json:"sim_nanos"`
	WallS        float64           `json:"wall_s"`
	Violations   []string          `json:"violations"`
	Known        map[string]int    `json:"known"`
	KnownReplays map[string]string `json:"known_replays"`
	Infra        []string          `json:"infra"`
	Samples      []string          `json:"samples"`
	States       []string          `json:"states"`
	Inconclusive int               `json:"inconclusive"`
}

type knownFinding struct {
	Property string `json:"property"`
	Oracle   string `json:"oracle"`
	Key      string `json:"key"`
	Status   string `json:"status"`
	What     string `json:"what"`
}

func fatal2(format string, a ...interface{}) {
	fmt.Fprintf(os.Stderr, "vcheck: "+format+"\n", a...)
	os.Exit(2)
}

func goEnv() []string {
	env := os.Environ()
	env = append(env, "GOFLAGS=-mod=mod", "GOPROXY=off", "GOSUMDB=off", "GOTOOLCHAIN=local")
	return env
}

func build(world string, race bool) string {
	args := []string{world}
	if race {
		args = append(args, "race")
	}
	cmd := exec.Command(filepath.Join(verifDir, "scripts", "build.sh"), args...)
	cmd.Env = goEnv()
	cmd.Stderr = os.Stderr
	out, err := cmd.Output()
	if err != nil {
		fatal2("build of world %s failed: %v", world, err)
	}
	return strings.TrimSpace(string(out))
}

func main() {
	tier := flag.String("tier", "", "quick|thorough (default: $VERIF_TIER or quick)")
	budget := flag.Float64("budget", 0, "override per-worker budget in seconds")
	workers := flag.Int("workers", 0, "number of worker processes (default: all cores)")
	replay := flag.String("replay", "", "replay a file")
	flag.Usage = func() {
		fmt.Fprintln(os.Stderr, "usage: vcheck [-tier quick|thorough] <property> | vcheck -replay <file>")
	}
	// allow "vcheck C01 -tier quick" as well as "vcheck -tier quick C01"
	var prop string
	args := os.Args[1:]
	if len(args) > 0 && !strings.HasPrefix(args[0], "-") {
		prop = args[0]
		args = args[1:]
	}
	if err := flag.CommandLine.Parse(args); err != nil {
		os.Exit(2)
	}
	if prop == "" && flag.NArg() > 0 {
		prop = flag.Arg(0)
	}
	if *replay != "" {
		os.Exit(doReplay(*replay))
	}
	spec, ok := specs[prop]
	if !ok {
		fatal2("unknown property %q", prop)
	}
	if *tier == "" {
		*tier = os.Getenv("VERIF_TIER")
	}
	if *tier != "thorough" {
		*tier = "quick"
	}
	seed := uint64(1)
	if s := os.Getenv("VERIF_SEED"); s != "" {
		v, err := strconv.ParseUint(s, 10, 64)
		if err != nil {
			// accept negative / huge values by hashing the text
			for _, c := range s {
				v = v*1099511628211 ^ uint64(c)
			}
		}
		seed = v
	}
	n := *workers
	if n <= 0 {
		n = runtime.NumCPU()
	}
	b := spec.Quick
	if *tier == "thorough" {
		b = spec.Thorough
	}
	if *budget > 0 {
		b = *budget
	}
	start := time.Now()
	worlds := append([]string{spec.World}, spec.More...)
	tmp, err := os.MkdirTemp("/var/tmp", "vcheck.")
	if err != nil {
		fatal2("%v", err)
	}
	defer os.RemoveAll(tmp)
	replayDir := filepath.Join(verifDir, "replays", prop)
	_ = os.MkdirAll(replayDir, 0o755)
	known := filepath.Join(verifDir, "known_findings.json")

	bins := map[string]string{}
	for _, wname := range worlds {
		bins[wname] = build(wname, spec.Race)
	}
	buildS := time.Since(start).Seconds()
	// workers are split between the worlds that serve the property
	total0 := n
	var reports []*workerReport
	var exits []int
	var outputs []string
	var binOf []string
	var wg sync.WaitGroup
	var mu sync.Mutex
	for i := 0; i < total0; i++ {
		wname := worlds[i%len(worlds)]
		bin := bins[wname]
		idx := len(reports)
		reports = append(reports, nil)
		exits = append(exits, 0)
		outputs = append(outputs, "")
		binOf = append(binOf, bin)
		wg.Add(1)
		go func(i, idx int, bin string) {
			defer wg.Done()
			out := filepath.Join(tmp, fmt.Sprintf("w%d.json", i))
			cmd := exec.Command(bin, "-prop", prop, "-tier", *tier, "-seed", strconv.FormatUint(seed, 10), "-worker", strconv.Itoa(i),
				"-budget", fmt.Sprint(b), "-out", out, "-replaydir", replayDir, "-known", known)
			cmd.Env = append(os.Environ(), "GOMAXPROCS=2", "GORACE=halt_on_error=0 exitcode=0 log_path="+filepath.Join(tmp, fmt.Sprintf("race.w%d", i)))
			ob, err := cmd.CombinedOutput()
			mu.Lock()
			defer mu.Unlock()
			outputs[idx] = string(ob)
			if err != nil {
				if ee, ok := err.(*exec.ExitError); ok {
					exits[idx] = ee.ExitCode()
				} else {
					exits[idx] = 2
				}
			}
			if rb, err := os.ReadFile(out); err == nil {
				var r workerReport
				if json.Unmarshal(rb, &r) == nil {
					reports[idx] = &r
				}
			}
		}(i, idx, bin)
	}
	wg.Wait()
	bin := bins[spec.World]
	_ = bin

	// merge
	total := &workerReport{Stats: map[string]int{}, Known: map[string]int{}, KnownReplays: map[string]string{}}
	sigs := map[string]bool{}
	states := map[string]bool{}
	infra := []string{}
	hangs := []string{}
	for i, r := range reports {
		if exits[i] == 3 {
			// watchdog: a task never reached a scheduling point again
			for _, l := range strings.Split(outputs[i], "\n") {
				if strings.HasPrefix(l, "HANG ") {
					hangs = append(hangs, l)
				}
			}
			if len(hangs) == 0 {
				infra = append(infra, fmt.Sprintf("worker %d: watchdog fired without a replay file", i))
			}
			continue
		}
		if r == nil {
			infra = append(infra, fmt.Sprintf("worker %d: exit %d without a report: %s", i, exits[i], tail(outputs[i], 600)))
			continue
		}
		total.Runs += r.Runs
		total.Nontrivial += r.Nontrivial
		total.Steps += r.Steps
		total.SimNanos += r.SimNanos
		total.Inconclusive += r.Inconclusive
		for _, s := range r.Sigs {
			sigs[s] = true
		}
		for _, s := range r.States {
			states[s] = true
		}
		for k, v := range r.Stats {
			total.Stats[k] += v
		}
		for k, v := range r.Known {
			total.Known[k] += v
		}
		for k, v := range r.KnownReplays {
			if total.KnownReplays[k] == "" {
				total.KnownReplays[k] = v
			}
		}
		total.Violations = append(total.Violations, r.Violations...)
		if len(total.Samples) < 5 {
			total.Samples = append(total.Samples, r.Samples...)
		}
		infra = append(infra, r.Infra...)
	}
	wall := time.Since(start).Seconds()

	// confirm violations by replaying in a fresh process
	confirmed := []string{}
	for _, v := range total.Violations {
		code := runReplay(binForReplay(bins, v, bin), v)
		if code == 1 {
			confirmed = append(confirmed, v)
		} else {
			infra = append(infra, fmt.Sprintf("replay of %s did not reproduce the violation (exit %d): nondeterminism", v, code))
		}
	}
	if spec.HangIsVerdict {
		for _, h := range hangs {
			if i := strings.Index(h, "replay="); i >= 0 {
				confirmed = append(confirmed, strings.TrimSpace(h[i+len("replay="):]))
			}
		}
	} else {
		for _, h := range hangs {
			infra = append(infra, "watchdog: "+h)
		}
	}

	// known findings
	var kfs []knownFinding
	if kb, err := os.ReadFile(known); err == nil {
		_ = json.Unmarshal(kb, &kfs)
	}
	keys := make([]string, 0, len(total.Known))
	for k := range total.Known {
		keys = append(keys, k)
	}
	sort.Strings(keys)
	for _, k := range keys {
		what := k
		for _, kf := range kfs {
			if kf.Property == prop && kf.Key == k {
				what = kf.What
			}
		}
		fmt.Printf("KNOWN-FINDING: property=%s %s (seen %d times this run; replay=%s)\n", prop, what, total.Known[k], total.KnownReplays[k])
	}

	writeEvidence(prop, *tier, seed, spec, total, len(sigs), len(states), wall, buildS, n, len(confirmed), infra)

	fmt.Printf("vcheck %s tier=%s seed=%d world=%s workers=%d runs=%d nontrivial=%d distinct=%d steps=%d sim=%.0fs wall=%.1fs (build %.1fs)\n",
		prop, *tier, seed, spec.World, n, total.Runs, total.Nontrivial, len(sigs), total.Steps, float64(total.SimNanos)/1e9, wall, buildS)
	for _, v := range confirmed {
		fmt.Printf("VIOLATION property=%s replay=%s\n", prop, v)
	}
	os.RemoveAll(tmp) // deferred calls do not run on os.Exit
	if len(confirmed) > 0 {
		os.Exit(1)
	}
	if len(infra) > 0 {
		for i, l := range infra {
			if i >= 3 {
				fmt.Fprintf(os.Stderr, "vcheck: ... and %d more\n", len(infra)-3)
				break
			}
			fmt.Fprintln(os.Stderr, "vcheck: infrastructure trouble:", tail(l, 1500))
		}
		os.Exit(2)
	}
	if total.Runs == 0 {
		fatal2("no simulated run completed")
	}
}

func tail(s string, n int) string {
	if len(s) > n {
		return s[len(s)-n:]
	}
	return s
}

// binForReplay picks the world binary named in the replay file.
func binForReplay(bins map[string]string, file, def string) string {
	b, err := os.ReadFile(file)
	if err != nil {
		return def
	}
	var r struct {
		World string `json:"world"`
	}
	if json.Unmarshal(b, &r) == nil {
		if p, ok := bins[r.World]; ok {
			return p
		}
	}
	return def
}

func runReplay(bin, file string) int {
	cmd := exec.Command(bin, "-replay", file)
	rt, _ := os.MkdirTemp("/var/tmp", "vreplay.")
	defer os.RemoveAll(rt)
	cmd.Env = append(os.Environ(), "GORACE=halt_on_error=0 exitcode=0 log_path="+filepath.Join(rt, "race"))
	if err := cmd.Run(); err != nil {
		if ee, ok := err.(*exec.ExitError); ok {
			return ee.ExitCode()
		}
		return 2
	}
	return 0
}

func doReplay(file string) int {
	b, err := os.ReadFile(file)
	if err != nil {
		fatal2("%v", err)
	}
	var r struct {
		Property string `json:"property"`
		World    string `json:"world"`
	}
	if err := json.Unmarshal(b, &r); err != nil {
		fatal2("%v", err)
	}
	spec, ok := specs[r.Property]
	if !ok {
		fatal2("replay file names unknown property %q", r.Property)
	}
	wname := spec.World
	for _, m := range spec.More {
		if m == r.World {
			wname = m
		}
	}
	bin := build(wname, spec.Race)
	cmd := exec.Command(bin, "-replay", file)
	cmd.Stdout, cmd.Stderr = os.Stdout, os.Stderr
	rt, _ := os.MkdirTemp("/var/tmp", "vreplay.")
	defer os.RemoveAll(rt)
	cmd.Env = append(os.Environ(), "GORACE=halt_on_error=0 exitcode=0 log_path="+filepath.Join(rt, "race"))
	if err := cmd.Run(); err != nil {
		if ee, ok := err.(*exec.ExitError); ok {
			if ee.ExitCode() == 1 {
				fmt.Printf("VIOLATION property=%s replay=%s\n", r.Property, file)
			}
			return ee.ExitCode()
		}
		return 2
	}
	return 0
}

func writeEvidence(prop, tier string, seed uint64, spec propSpec, t *workerReport, distinct, states int, wall, buildS float64, workers, violations int, infra []string) {
	faults := map[string]int{}
	probes := map[string]int{}
	ops := map[string]int{}
	other := map[string]int{}
	for k, v := range t.Stats {
		switch {
		case strings.HasPrefix(k, "fault."):
			faults[strings.TrimPrefix(k, "fault.")] = v
		case strings.HasPrefix(k, "probe."):
			probes[strings.TrimPrefix(k, "probe.")] = v
		case strings.HasPrefix(k, "op."):
			ops[strings.TrimPrefix(k, "op.")] = v
		default:
			other[k] = v
		}
	}
	samples := []interface{}{}
	for _, s := range t.Samples {
		samples = append(samples, s)
	}
	if len(samples) == 0 {
		samples = append(samples, "no non-trivial run completed")
	}
	runsPerHour := 0.0
	if wall-buildS > 0 {
		runsPerHour = float64(t.Runs) / (wall - buildS) * 3600
	}
	cov := map[string]interface{}{
		"evaluations":              t.Runs,
		"distinct_nontrivial":      distinct,
		"rule":                     spec.Rule,
		"samples":                  samples,
		"nontrivial_runs":          t.Nontrivial,
		"scheduler_steps":          t.Steps,
		"simulated_seconds":        float64(t.SimNanos) / 1e9,
		"runs_per_hour":            runsPerHour,
		"seeds_per_hour":           runsPerHour,
		"workers":                  workers,
		"faults_fired":             faults,
		"rare_branch_probes":       probes,
		"workload_operations":      ops,
		"counters":                 other,
		"distinct_quiescent_states": states,
		"inconclusive":             t.Inconclusive,
		"known_findings_seen":      t.Known,
		"real_vs_stub":             realVsStubFor(spec),
		"build_seconds":            buildS,
		"infrastructure_trouble":   infra,
		"exhaustive":               false,
	}
	ev := map[string]interface{}{
		"property_id": prop,
		"tier":        tier,
		"seed":        seed & 0x7fffffffffffffff,
		"level":       spec.Level,
		"coverage":    cov,
		"assumptions": spec.Assume,
		"wall_s":      wall,
		"violations":  violations,
	}
	b, _ := json.MarshalIndent(ev, "", " ")
	dir := filepath.Join(verifDir, "evidence")
	if d := os.Getenv("VERIF_EVIDENCE_DIR"); d != "" {
		dir = d // runs against a deliberately changed scratch tree (scripts/mutrun.sh) must not overwrite the evidence of /repo
	}
	_ = os.MkdirAll(dir, 0o755)
	if err := os.WriteFile(filepath.Join(dir, prop+".json"), b, 0o644); err != nil {
		fatal2("%v", err)
	}
}

func realVsStubFor(spec propSpec) interface{} {
	if len(spec.More) == 0 {
		return realVsStub[spec.World]
	}
	out := map[string]interface{}{spec.World: realVsStub[spec.World]}
	for _, m := range spec.More {
		out[m] = realVsStub[m]
	}
	return out
}
