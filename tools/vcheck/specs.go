package main

const ruleW1 = "one evaluation = one seeded simulated run of galaxy-ipam (generated topology, workloads, 10-45 lifecycle operations, " +
	"seeded interleaving of every lock acquisition / API / lister / cloud call, seeded faults). A run is non-trivial if at least one pod " +
	"binding was applied AND (a scheduling decision with >=2 enabled tasks occurred OR a fault fired). distinct_nontrivial counts distinct " +
	"signatures = sha256 of the sequence of (task kind, parked-on kind) at contested decisions plus the sequence of fired faults."

const ruleEnum = "one evaluation = one simulated run. For every sampled history (a seeded fault-free baseline run whose recorded choices fix the " +
	"schedule) the run is re-executed once per injection point k and mode: C05: every API-server call of galaxy-ipam x {call k returns an error and is not " +
	"applied, process dies right before call k, right after call k}; C08: every FloatingIP object creation x {creation fails}. Enumeration is exhaustive over the " +
	"injection points of each sampled history (capped, see counters enum.truncated), histories are sampled. A sub-run is non-trivial by construction (its fault " +
	"fires); distinct_nontrivial counts distinct (baseline schedule signature, mode, k)."

const ruleRace = "one evaluation = one seeded simulated run of a -race build with every public entry point of the property text mixed on shared instances. " +
	"Non-trivial = at least one contested scheduling decision. distinct_nontrivial = distinct schedule signatures. A run fails when the Go race detector " +
	"reports a pair of accesses with at least one frame inside tkestack.io/galaxy/{pkg,cni}; the finding signature is the pair of innermost galaxy frames."

const ruleHostile = "one evaluation = one seeded simulated run in which hostile inputs (pod objects with arbitrary annotations / requested ranges / owner " +
	"references / names / phases, HTTP bodies and queries on every route, configuration texts; drawn from catalogues plus seeded combination) are mixed into an " +
	"ordinary workload. Verdicts: a task panics inside galaxy code, a task never reaches a scheduling point again (wall-clock watchdog), a task ends holding a " +
	"lock, or a follow-up ordinary operation can never complete. Non-trivial = at least one hostile input was delivered; distinct = distinct schedule+input signatures."

var assumeW1 = []string{
	"kube-apiserver/etcd, informers/listers, kube-scheduler, workload controllers and kubelet are simulated (simkube); galaxy-ipam code (floatingip, schedulerplugin, ipam/api) runs unmodified except at the rewritten seams (sync, time, wait, keymutex, klog, map iteration, go statements, the one select)",
	"the simulated API server is linearizable; listers read a lagging view fed by per-kind FIFO event queues; one handler per informer at a time",
	"a clean batch is evidence, not proof: interleavings and faults are sampled from a seeded stream",
}

var specs = map[string]propSpec{}

var realVsStub = map[string]interface{}{}

func init() {
	for _, p := range []string{"C01", "C02", "C03", "C04", "C06", "C07", "C09", "C10", "C11"} {
		specs[p] = propSpec{World: "ipam", Level: "exploration", Quick: 25, Thorough: 600, Rule: ruleW1, Assume: assumeW1}
	}
	// layer-1 linearizability check of the allocation core (DESIGN §2.8): a quarter of the workers
	for _, p := range []string{"C01", "C09"} {
		sp := specs[p]
		sp.More = []string{"ipam", "ipam", "ipaml1"}
		sp.Rule += " A quarter of the workers run the layer-1 world instead: 2-4 simulated clients drive the real crdIpam directly (allocate any/specific/with key, " +
			"reserve, update, release, reads, reload), the invoke/return history stamped with scheduler steps is checked with porcupine against a nondeterministic " +
			"sequential map model (counters l1.histories / l1.ok / l1.illegal / l1.unknown)."
		specs[p] = sp
	}
	realVsStub["ipaml1"] = map[string]string{"real": "pkg/ipam/floatingip (crdIpam, store_crd, pool configuration)", "stub": "FloatingIP API objects (simkube)", "not_run": "everything else"}
	for _, p := range []string{"C05", "C08"} {
		specs[p] = propSpec{World: "ipam", Level: "fault_enumeration", Quick: 25, Thorough: 600, Rule: ruleEnum, Assume: assumeW1}
	}
	specs["C18"] = propSpec{World: "ipam", Level: "exploration", Quick: 25, Thorough: 600, HangIsVerdict: true, Rule: ruleHostile, Assume: assumeW1}
	specs["C19"] = propSpec{World: "ipam", Race: true, Level: "exploration", Quick: 30, Thorough: 900, Rule: ruleRace, Assume: append([]string{
		"the scheduler's hand-offs are wrapped in runtime.RaceDisable/RaceEnable and all harness<->task data crosses as bytes copied by //go:norace code, so the race detector's happens-before graph contains only galaxy's own synchronisation (plus goroutine creation and the completion of process initialisation)",
		"klog is replaced by a lock-free logger (klog's global mutex would order every two tasks that log)",
		"a race is reported only when the two accesses are unordered in an explored schedule: sampling"}, assumeW1...)}
	realVsStub["ipam"] = map[string]string{
		"real": "pkg/ipam/floatingip (crdIpam, store, pool config), pkg/ipam/schedulerplugin (Filter, Bind, unbind, Release, resync, event loop, Run/Init periodic loops, policies, crdKey), pkg/ipam/crd crdcache.go (lazy per-resource informer start, first sync awaited under the lock), pkg/ipam/api (restful handlers on an in-process container), pkg/api/k8s/eventhandler, pkg/utils/{nets,page,httputil}, pkg/api/galaxy/constant",
		"stub": "kube-apiserver/etcd, informers and listers, kube-scheduler, workload controllers, kubelet (simkube + world); client-go's dynamic informer factory under the real crd cache (kubeclient.DynFactory); cloud provider behind cloudprovider.CloudProvider; klog -> simlog",
		"not_run": "pkg/ipam/server (flags, leader election, HTTP listeners, swagger, prometheus registry), cmd/*, gRPC cloud provider client",
	}
}
