package main

// Registry entries of world W3 (network policy): C15 and C16.

const ruleW3C15 = "one evaluation = one seeded simulated history of pkg/policy's PolicyManager on one node: a generated cluster (1-3 labelled namespaces, " +
	"2-8 labelled pods with addresses on this node and another, 0-5 NetworkPolicies built from pod selectors, namespace selectors, ipBlocks with " +
	"exceptions - in part of the runs written with host bits set, e.g. 10.244.1.3/16, as the API accepts them -, numeric TCP/UDP ports, ingress/egress/both), a generated prior kernel state (empty / as an earlier galaxy left it for the same " +
	"cluster / as it left it for a different cluster: other labels and specs, policies and pods that no longer exist, a pod under an old address, " +
	"unreferenced stale GLX chains and sets; plus foreign filter/nat chains, rules and ipsets), the ADDED notifications of the policies that exist at " +
	"start, then 0-12 operations (pod add/delete/relabel/address/re-create, policy add/update/delete, namespace relabel/add, periodic full sync, " +
	"CNI-triggered SyncPodChains+SyncPodIPInIPSet) whose informer events are delivered in per-kind order with lag between kinds, ONE handler at a " +
	"time (the goroutines a handler spawns - one SyncPodChains per pod - do interleave under the seeded scheduler), no faults; then everything is " +
	"delivered, one full synchronisation runs, the four clauses are checked, a second one runs and idempotence is checked. A run is non-trivial if the " +
	"final cluster has at least one policy AND galaxy had something to get right (at least one pod chain expected, or galaxy-owned prior state to " +
	"converge from). distinct_nontrivial counts distinct signatures = sha256 of (kind of prior state, sequence of operations and delivered event " +
	"kinds/types, contested scheduling decisions)."

const ruleW3C16 = "one evaluation = one simulated history as for C15 (same generator); after everything is delivered and one full synchronisation has run, and " +
	"unless the node failed to converge for a reason that C15 reports as a known finding (stale leftovers D8/S1/S3; counted under " +
	"c16.skipped-c15-known), every flow in {pod of this node} x {every other pod with an address, 5 fixed external addresses, one address inside every ipBlock " +
	"exception} x {to, from} x {tcp, udp} x {every port the generator uses, one unused port} is judged twice: by a packet walk over iptables-save + " +
	"ipset save of the simulated kernel (NEW connection through FORWARD into GLX-EGRESS / GLX-INGRESS in the order FORWARD jumps to them; hash:net " +
	"nomatch honoured) and by a reference evaluator of the NetworkPolicy API semantics; all verdicts must agree; if a second full synchronisation of the unchanged " +
	"state changes the kernel state, the flows are judged again on that state (coverage counter c16.flows = " +
	"number of flow judgements). A run is non-trivial if at least one flow was admitted and at least one refused by the installed rules. " +
	"distinct_nontrivial counts distinct signatures as for C15."

var assumeW3 = []string{
	"pkg/policy (policyResult, syncRules, syncIptables, writeChains, SyncPodChains, SyncPodIPInIPSet, deletePodChains, event handlers), pkg/api/k8s/eventhandler, pkg/utils/iptables/save_restore.go and pkg/utils/ipset (types, Entry.String, Validate) run unmodified except at the rewritten seams (sync, klog, map iteration order, go statements); the exec-backed runners of pkg/utils/iptables/iptables.go and pkg/utils/ipset/ipset.go are replaced at their Interface by stubs that build the same command lines, take the same mutex and interpret exit statuses the same way, executed by a simulated kernel",
	"strict simulated kernel, complete list of refusals (each a documented behaviour of the real tools): iptables-restore --noflush applies a table's lines to a private copy committed at COMMIT, any failing line aborts with nothing applied; a ':CHAIN' line creates a missing user chain and FLUSHES an existing user chain, built-in chains are not flushed; -A/-I fail if the chain or the jump-target chain is missing or a --match-set names a missing set; -X fails on a missing chain, on a chain still referenced by a rule (Too many links) and on a non-empty chain (Directory not empty); iptables -N on an existing chain = 'Chain already exists' (EnsureChain maps exit 1 to existed); -C/-D on a missing rule or chain = exit 1 as iptables.go interprets it; -F/-X/-S on a missing chain fail with 'No chain/target/match by that name'; ipset create/add with -exist are idempotent (create only for identical type/parameters), del of a missing member and destroy/list of a missing set fail, destroy of a set referenced by a rule fails (in use by a kernel component), hash:net cannot hold a zero prefix, a member re-added with -exist takes the new nomatch flag",
	"rule identity (for -C/-D and for the comparison with the model) is the parsed rule in iptables-save order, comments included for -C/-D and ignored by the model; only the option vocabulary galaxy and the generated foreign rules use is parsed, anything else ends the run as infrastructure trouble (exit 2), never as a verdict",
	"ownership: filter chains named GLX-*, built-in-chain rules that jump to GLX-INGRESS/GLX-EGRESS and ipsets named GLX-* are galaxy's; everything else (incl. the nat and mangle tables) is foreign; the generator gives no foreign object a GLX- name",
	"galaxy tasks run one at a time and no fault is injected: C15/C16 quantify over inputs and histories, not over interleavings or failures; informer views lag per kind; at the end every event is delivered before the synchronisation that is judged",
	"histories start the way galaxy starts: the existing policies arrive as ADDED notifications (lister showing either the notified prefix or the full list), optionally preceded by the first periodic Run; pods and namespaces are in the cache first (startPodInformerFactory waits for them). The stand-in pod informer (hook) has the real one's life cycle: when no NetworkPolicy exists at start it is not started, syncPods then lists this node's pods through the API client (field selector spec.nodeName honoured) - the branch a restarted daemon uses to remove stale pod chains when the last policy was deleted while it was down - until the policy lister first shows a policy; from then on, or when a policy exists at start, it is synced for good",
	"C15's expected state comes from the property/doc semantics; only galaxy's NAMING scheme is mirrored (needed to tell whose object is whose). It is compared modulo rule order inside a policy chain, port order/duplicates inside a multiport list and comment texts. Whether peers mean what the API says (deviation D6) is C16's clause: C15 accepts the compiled state under either reading",
	"C16: flows are judged on the FORWARD path only (host<->pod traffic through INPUT/OUTPUT is not judged); conntrack state is NEW; verdict DROP = refused, ACCEPT or leaving galaxy's chains = admitted; foreign FORWARD rules are ignored; enforcement is judged for pods of this node only (egress side if the source is local, ingress side if the destination is local)",
	"not generated (outside the property's quantifier or another property's subject): named ports, ports without a number, SCTP, endPort, hostNetwork pods, pod phases, rules of a direction that spec.policyTypes switches off (these make SyncPodIPInIPSet dereference nil - C18), the same CIDR as block and as exception inside one rule, foreign objects named GLX*",
	"known findings are encoded as named deviation switches of the reference model (D6, D11, D12, D13 for C16; D8, S1, S3 for C15): a failure reproduced exactly with listed switches on is reported as KNOWN-FINDING keyed by the switch names, any other failure is a VIOLATION. D8 (policy batch refused) explains only stale/missing/outdated policy chains, their sets, and the chains and dispatch rules of pods that must jump to a policy chain the refused batch would have created; it never excuses a leftover chain of a pod no policy selects",
	"a clean batch is evidence, not proof: inputs and histories are sampled from a seeded stream",
}

var assumePolicy = map[string]string{
	"C18": "world policy (pkg/policy PolicyManager): hostile but API-valid objects at its typed surfaces - NetworkPolicies with rules of a direction that spec.policyTypes switches off, nil/empty selectors and peer lists, every selector operator, ports without number and/or protocol, named ports, endPort, SCTP, more than 15 ports per protocol, ipBlocks with exceptions outside/equal to/duplicated in the block, host bits set, 0.0.0.0/0, IPv6 blocks, 10-30 rules per policy, 253-character dotted names, label values of every legal shape; pods without address, IPv6-only, dual-stack, hostNetwork, finished, unscheduled, terminating, sharing an address; namespaces without labels; deletes delivered as cache.DeletedFinalStateUnknown after a relist; update events with identical objects; direct SyncPodChains / SyncPodIPInIPSet(add,delete) / DeletePod calls with such pods; mixed with the ordinary C15 workload (prior kernel state, full synchronisations); handlers run one at a time, no injected fault. Oracles: panic with a galaxy frame (C18.panic, key panic@<innermost galaxy function>), task ending with a held lock (C18.lock-leak), tasks blocked forever / the ordinary follow-up full synchronisation at the end unable to complete (C18.wedged), harness watchdog for a task that never parks. Values the real tools refuse (non-IPv4 address, non-numeric port name, >15 multiport slots, comment >255 characters, zero prefix / IPv6 member in an inet hash set) are refused by the simulated kernel too (exit 2 / 1); they are galaxy's to survive, not verdicts",
	"C19": "world policy (pkg/policy PolicyManager, -race build): one shared instance; the pod informer and the NetworkPolicy informer each run one handler at a time but concurrently with each other, with the periodic Run (one pass at a time, first pass racing the initial ADDED notifications) and with up to 3 concurrent CNI-path calls (SyncPodChains + SyncPodIPInIPSet), while API objects keep changing; no fault. The world owns no lock; the task-side iptables stub holds exactly the mutex the real runner holds (check-then-append, restore), the ipset stub none (as the real runner), and mirrors the runners' writes into caller-owned structs (CreateSet fills defaults into the *ipset.IPSet it is given), so races on those are galaxy's",
}

func init() {
	// C18 and C19 are registered by specs.go (world ipam) and extended by specs_daemon.go; this world serves them too
	for _, id := range []string{"C18", "C19"} {
		if sp, ok := specs[id]; ok {
			sp.More = append(sp.More, "policy")
			sp.Assume = append(sp.Assume, assumePolicy[id])
			specs[id] = sp
		}
	}
	specs["C15"] = propSpec{World: "policy", Level: "exploration", Quick: 25, Thorough: 600, Rule: ruleW3C15, Assume: assumeW3}
	specs["C16"] = propSpec{World: "policy", Level: "exploration", Quick: 25, Thorough: 600, Rule: ruleW3C16, Assume: assumeW3}
	realVsStub["policy"] = map[string]string{
		"real": "pkg/policy (PolicyManager: policyResult, peerRule, syncRules, createIPSet, syncIptables, writeRules, writeChains, SyncPodChains, SyncPodIPInIPSet, deletePodChains, Run, Add/Update/Delete Pod/Policy handlers), pkg/api/k8s/eventhandler (pod and NetworkPolicy handlers), pkg/api/k8s.GetHostname, pkg/utils/iptables/save_restore.go (GetChainLines, MakeChainLine), pkg/utils/ipset types/Entry.String/Validate",
		"stub": "iptables / iptables-save / iptables-restore / ipset executables and the kernel behind them (sim/simkernel: strict netfilter tables + ipsets, text in / text out); the exec runners of pkg/utils/iptables/iptables.go and pkg/utils/ipset/ipset.go (replaced at their Interface by command-line-building stubs); kube-apiserver, informers and listers (simkube + kubeclient); the pod informer's HasSynced (always true); MY_NODE_NAME environment; klog -> simlog",
		"not_run": "policy.New / initInformers / startPodInformerFactory (client-go informer factories), the syncPods branch that lists pods through the API client, pkg/galaxy (CNI server; its calls into PolicyManager are replayed by the world), cmd/*",
	}
}
