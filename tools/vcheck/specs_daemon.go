package main

// Properties decided in world W2 (the per-node galaxy daemon), see sim/worlds/daemon.

const ruleW2 = "one evaluation = one seeded simulated run of the galaxy daemon on one node: generated network configurations (galaxy.json and conf-dir form), " +
	"default / ENI networks, 1-6 pods with generated network annotations (comma list and JSON, with and without interface names) and 0-4 host ports, " +
	"a kubelet model issuing ADD / DEL / DEL retries / duplicate DELs for successive sandboxes, daemon start with the real start-time synchronisation, seeded faults. "

var ruleC12 = ruleW2 + "C12: requests of several containers run concurrently (seeded interleaving at every lock / file / API / plugin call); plugin ADD/DEL failures are scripted per " +
	"(container, interface, attempt); pods have 1-3 containers (the ENI request on any of them) and 1-2 common args that every network must receive; network state files get damaged (truncated / garbage, by short writes and crashes too); fs.err, api.err and daemon crash/restart are injected in part of the runs (those requests are then judged by the per-invocation clauses only). " +
	"Every run without such unscripted faults is followed by a solo re-execution of each container's request sequence in a fresh world (isolation by non-interference). " +
	"A run is non-trivial if at least one ADD request completed AND (a scheduling decision with >=2 enabled tasks occurred OR a fault fired OR a pod with >=2 networks was added). " +
	"distinct_nontrivial = distinct sha256 of (task kind, parked-on kind) at contested decisions plus the sequence of fired faults."

var ruleC14 = ruleW2 + "C14: requests run one at a time (the quantifier is inputs x histories), with one exception that belongs to the histories of a real node: the teardown of an old sandbox " +
	"(kubelet's container GC / PLEG cleanup) may overlap the ADD of the same pod's replacement sandbox, and DELs of earlier sandboxes may be repeated late; prior NAT tables with foreign chains, stale KUBE-HP-* chains and earlier jump rules; foreign " +
	"processes bind ports (net.inuse), iptables calls fail (transient 'Resource temporarily unavailable' and hard), state-file writes fail; graceful daemon restarts re-run the full " +
	"synchronisation (pods whose sandbox is up may still be Pending; another process may take a handed-out port while the daemon is down: the rules must still be installed); pod Get/Update calls of the annotation write-back fail, conflict with edits by others, or meet a pod whose annotations were removed; plugins may print results without a usable IPv4 address; at the end every pod is torn down and the table is compared with the one after the first synchronisation. A run is non-trivial if at least one pod with host ports " +
	"was set up successfully. distinct_nontrivial as above."

var ruleC17 = ruleW2 + "C17: docker and containerd modes; GC directories and IP directories populated by real ADDs (the fake plugin leaves flannel/host-local style files) and by generated " +
	"leftovers of containers in every runtime state plus non-container files; sandboxes die with and without DEL; inspect calls fail (runtime.err) or the runtime is unreachable " +
	"(runtime.down); in a third of the runs the daemon's --gc_dirs omits the port directory (port files and mappings are then owed only through the port-clean callback of a container's other state files); port files are damaged by short/failed writes of the daemon itself, by daemon crashes and as generated leftovers (empty, truncated, junk); operations do not overlap (the quantifier is inputs x fault sequences) but the two collectors of a round interleave. After faults stop two GC rounds run and the " +
	"liveness clause is checked. Under containerd the pods of sandboxes report container statuses (waiting / running / terminated mixes, lagging kubelet, replacement sandboxes); host network devices are generated too (host veths v-h<9 chars of id>[-x] of containers in every state, non-veth devices with that prefix, other prefixes, three-part names) and the veth collector runs with the others (deletions can fail). A run is non-trivial if a GC task removed something or an inspect fault fired. distinct_nontrivial as above."

var assumeW2 = []string{
	"real code: pkg/api/cniutil, pkg/galaxy (cni handler, requestFunc, resolveNetworks, port-mapping glue, setupIPtables, cleanIPtables), pkg/api/galaxy, pkg/api/k8s, pkg/network/portmapping, pkg/gc (collectors, shouldCleanup), pkg/api/docker (inspect wrappers over the real engine-api client), cni/ipam decoder; rewritten only at the seams (sync, time, wait, klog, map iteration, go statements; os/ioutil/libcni file access, cni invoke, net.Listen, netlink.LinkList)",
	"stubbed: CNI plugin binaries (in-process recording plugin runtime with scripted outcomes), file system (in-memory; a process crash keeps every completed write, loses what was not yet written), sockets (port table with kernel-style ephemeral allocation), iptables (strict simulated kernel at the utiliptables.Interface seam), docker daemon (in-process round tripper behind the real engine-api client) and containerd (CRI client fake), kube-apiserver (simkube), kubelet (model)",
	"strict kernel rules (each a documented behaviour of iptables/iptables-restore --noflush, nothing else is refused): a restore is applied to a private copy and committed at COMMIT, any failing line aborts it with nothing applied; a ':CHAIN' line creates a missing chain and flushes an existing user chain; -A/-I fail on a missing chain or jump target; -X fails on a non-empty or still referenced chain; -N on an existing chain exits 1; one Interface method = one atomic step (the real runner holds its mutex and the xtables lock)",
	"C14: 'foreign' = every chain other than KUBE-HOSTPORTS, KUBE-HP-* and KUBE-MARK-MASQ (rewritten by galaxy on every setup by design); inside built-in chains galaxy may add its own jump rules to KUBE-HOSTPORTS; no daemon crash is injected (sockets cannot survive a process); obligations on held ports last until the sandbox's DEL has been issued; once no sandbox of a pod is left and its last DEL succeeded, no rule and no socket of that pod may remain",
	"C17 veth: the statement lists files and port mappings; the collector of host veth devices is extra behaviour of the same GC and is judged by the same rule (deleted only for a container that may be collected and only after an answered inspect, nothing else is deleted, gone within two of its passes after faults stop); container runtimes resolve unique id prefixes",
	"C17 containerd: a not-ready sandbox whose pod still reports a waiting or running container must NOT be collected (the containers live in its network namespace) and is not demanded by the liveness clause; assumption: the runtime eventually removes dead sandboxes that are not the pod's current one (kubelet's sandbox GC) or kubelet reports the containers as stopped, after which the two-round bound applies - the model lets this happen for about half of such sandboxes before the final rounds",
	"C17: runtime states are monotone (a container never comes back to life); under containerd the liveness clause does not count galaxy's extra caution (a not-ready sandbox whose pod still reports a waiting/running container is kept) against it",
	"a clean batch is evidence, not proof: configurations, histories, interleavings and faults are sampled from a seeded stream",
}

var assumeDaemon = map[string]string{
	"C18": "world daemon (galaxy): hostile raw CNI request bodies (bad JSON, missing/malformed env and CNI_ARGS, unknown commands, empty/huge stdin), pods with hostile networks/args/portmapping annotations and odd port protocols, hostile galaxy.json texts (daemon restarts), hostile conf-dir files, corrupted state/port files and stray files in the GC directories; requests run one at a time while the real GC loops tick; oracles: panic with a galaxy frame (C18.panic, key panic@<first galaxy function>), task ending with a held lock (C18.lock-leak), requests blocked forever (C18.wedged), daemon unable to start with the good configuration and no fault (C18.crash-loop), watchdog for tasks that never park; the run ends with an ordinary follow-up request that must be answered. A panic of the plugin-side decoder is a crashed plugin process (counted as probe plugin-decoder-panic), not a daemon verdict",
	"C19": "world daemon (galaxy, -race build): concurrent ADD/DEL requests of 2-5 containers through the real handler on one shared instance, the real GC loops (started with Run() before the start-time synchronisation, as Galaxy.Start does) and the periodic EnsureBasicRule loop ticking while requests are in flight, container state changes, pod store updates; no crash, no injected environment fault (scripted plugin failures exercise rollback). Per pod kubelet issues one request at a time, as the real kubelet does. The start-time synchronisation is not re-run on a serving instance (the real daemon serves only after it returned). The docker client's helper goroutine and http.Transport are the real ones (their synchronisation is the product's own)",
}

const ruleC13 = "one evaluation = one generated floatingip configuration (1-4 pools, masks /16../30, gateway at either end of the subnet, VLAN ids 0..4094) and one pod " +
	"requesting 1-4 IPs through request_ip_range (or none): (a) the REAL galaxy-ipam Filter/Bind path (crdIpam + schedulerplugin over the simulated API server) allocates and writes the " +
	"k8s.v1.cni.galaxy.io/args annotation, (b) the REAL galaxy daemon passes it through its request handler and argument builder to a fake plugin that decodes CNI_ARGS with the plugins' own " +
	"cni/ipam.Allocate, the pod is on one default network or selects 1-3 networks by annotation (comma list or JSON, with and without interface names), some of whose configurations carry their own ipam section, (c) for EVERY invoked plugin the decoded (address, prefix length, gateway, VLAN) list is compared, in order, with the FloatingIP objects stored for the pod and with the generated pool " +
	"configuration (the model side is the generated configuration only). Fault dimension: in half of the runs the first attempt's pods/binding calls all fail and the pod is bound by a " +
	"second attempt, optionally after a restart of galaxy-ipam on a re-ordered configuration (counters c13.bound-at-second-attempt, c13.restart-between-attempts, " +
	"c13.pools-reordered-at-restart); otherwise one task at a time. The value is the composition of the three real codecs over generated configurations. A run is non-trivial if the pod was bound. distinct_nontrivial = distinct (configuration, request) pairs."

func init() {
	specs["C13"] = propSpec{World: "c13", Level: "exploration", Quick: 15, Thorough: 300, Rule: ruleC13, Assume: []string{
		"real code: pkg/ipam/floatingip (configuration decoding, crdIpam allocation), pkg/ipam/schedulerplugin (Filter, Bind, annotation encoder constant.MarshalCniArgs), pkg/galaxy (cni handler, getPod, resolveNetworks, parseExtendedCNIArgs), pkg/api/cniutil (BuildCNIArgs, CmdAdd, delegate invocation), cni/ipam.Allocate and cniutil.IPInfoToResult (plugin-side decoder)",
		"stubbed: kube-apiserver and listers (simkube), CNI plugin binary (in-process recording runtime that runs the real decoder), file system, iptables, container runtime",
		"the pod and pool configuration are valid by construction (ranges inside their subnet, pairwise disjoint request lists); pods that galaxy-ipam refuses to bind make no claim and are counted as not-bound",
		"sampling over configurations (pools may share a pod subnet and gateway with disjoint ranges and their own VLAN); in half of the runs every pods/binding call of the first scheduling attempt fails after the IPs were persisted and the scheduler retries, in two thirds of those galaxy-ipam is restarted in between (tables rebuilt from the stored objects, optionally on a configuration listing the same pools in reverse order): the annotation of the second attempt is what reaches the plugin. No other interleaving or fault is explored",
	}}
	realVsStub["c13"] = map[string]string{
		"real":    "pkg/ipam/floatingip, pkg/ipam/schedulerplugin (Filter/Bind), pkg/api/galaxy/constant (annotation codec), pkg/galaxy request path, pkg/api/cniutil, cni/ipam.Allocate",
		"stub":    "kube-apiserver/listers (simkube), plugin binary (fake runtime running the real decoder), file system, iptables, runtime",
		"not_run": "everything else (no GC, no port mapping, no policy, no cloud provider)",
	}
	// C18 and C19 are registered by specs.go for world ipam; the daemon world serves them too
	for _, id := range []string{"C18", "C19"} {
		if sp, ok := specs[id]; ok {
			sp.More = append(sp.More, "daemon")
			sp.Assume = append(sp.Assume, assumeDaemon[id])
			specs[id] = sp
		}
	}
	specs["C12"] = propSpec{World: "daemon", Level: "exploration", Quick: 25, Thorough: 600, Rule: ruleC12, Assume: assumeW2}
	specs["C14"] = propSpec{World: "daemon", Level: "exploration", Quick: 25, Thorough: 600, Rule: ruleC14, Assume: assumeW2}
	specs["C17"] = propSpec{World: "daemon", Level: "exploration", Quick: 25, Thorough: 600, Rule: ruleC17, Assume: assumeW2}
	realVsStub["daemon"] = map[string]string{
		"real":    "pkg/api/cniutil (CmdAdd/CmdDel/save/consume/args/GetNetworkConfig), pkg/galaxy (cni HTTP handler via httptest, requestFunc, resolveNetworks, setupPortMapping/cleanupPortMapping, setupIPtables, cleanIPtables), pkg/api/galaxy (CniRequestToPodRequest), pkg/api/k8s (annotation parser, port files, GetHostname), pkg/network/portmapping (OpenHostports/CloseHostports, SetupPortMapping, CleanPortMapping, SetupPortMappingForAllPods, EnsureBasicRule), pkg/gc (cleanupIP, cleanupGCDirs, shouldCleanup), pkg/api/docker (DockerInspectContainer over the real engine-api client, ContainedInspectContainer), cni/ipam.Allocate (plugin-side decoder), pkg/utils/iptables (chain-line parsing)",
		"stub":    "CNI plugin binaries (recording plugin runtime), file system, sockets, iptables exec runner (strict kernel at utiliptables.Interface), docker daemon (in-process round tripper), containerd (CRI client fake), kube-apiserver (simkube), kubelet and container life cycle (model); klog -> simlog",
		"not_run": "Galaxy.Init/Start (host probes: docker socket, iptables binary, kubeconfig), StartServer (unix socket), pkg/policy, pkg/network/{kernel,vlan,netns}, pkg/tke/eni, cleanupVeth beyond an empty link list, flag parsing, cmd/*",
	}
}
