package main

// Properties decided in world W2 (the per-node galaxy daemon), see sim/worlds/daemon.

const ruleW2 = "one evaluation = one seeded simulated run of the galaxy daemon on one node: generated network configurations (galaxy.json and conf-dir form), " +
	"default / ENI networks, 1-6 pods with generated network annotations (comma list and JSON, with and without interface names) and 0-4 host ports, " +
	"a kubelet model issuing ADD / DEL / DEL retries / duplicate DELs for successive sandboxes, daemon start with the real start-time synchronisation, seeded faults. "

var ruleC12 = ruleW2 + "C12: requests of several containers run concurrently (seeded interleaving at every lock / file / API / plugin call); plugin ADD/DEL failures are scripted per " +
	"(container, interface, attempt); fs.err, api.err and daemon crash/restart are injected in part of the runs (those requests are then judged by the per-invocation clauses only). " +
	"Every run without such unscripted faults is followed by a solo re-execution of each container's request sequence in a fresh world (isolation by non-interference). " +
	"A run is non-trivial if at least one ADD request completed AND (a scheduling decision with >=2 enabled tasks occurred OR a fault fired OR a pod with >=2 networks was added). " +
	"distinct_nontrivial = distinct sha256 of (task kind, parked-on kind) at contested decisions plus the sequence of fired faults."

var ruleC14 = ruleW2 + "C14: requests run one at a time (the quantifier is inputs x histories); prior NAT tables with foreign chains, stale KUBE-HP-* chains and earlier jump rules; foreign " +
	"processes bind ports (net.inuse), iptables calls fail (transient 'Resource temporarily unavailable' and hard), state-file writes fail; graceful daemon restarts re-run the full " +
	"synchronisation; at the end every pod is torn down and the table is compared with the one after the first synchronisation. A run is non-trivial if at least one pod with host ports " +
	"was set up successfully. distinct_nontrivial as above."

var ruleC17 = ruleW2 + "C17: docker and containerd modes; GC directories and IP directories populated by real ADDs (the fake plugin leaves flannel/host-local style files) and by generated " +
	"leftovers of containers in every runtime state plus non-container files; sandboxes die with and without DEL; inspect calls fail (runtime.err) or the runtime is unreachable " +
	"(runtime.down); operations do not overlap (the quantifier is inputs x fault sequences) but the two collectors of a round interleave. After faults stop two GC rounds run and the " +
	"liveness clause is checked. A run is non-trivial if a GC task removed something or an inspect fault fired. distinct_nontrivial as above."

var assumeW2 = []string{
	"real code: pkg/api/cniutil, pkg/galaxy (cni handler, requestFunc, resolveNetworks, port-mapping glue, setupIPtables, cleanIPtables), pkg/api/galaxy, pkg/api/k8s, pkg/network/portmapping, pkg/gc (collectors, shouldCleanup), pkg/api/docker (inspect wrappers over the real engine-api client), cni/ipam decoder; rewritten only at the seams (sync, time, wait, klog, map iteration, go statements; os/ioutil/libcni file access, cni invoke, net.Listen, netlink.LinkList)",
	"stubbed: CNI plugin binaries (in-process recording plugin runtime with scripted outcomes), file system (in-memory; a process crash keeps every completed write, loses what was not yet written), sockets (port table with kernel-style ephemeral allocation), iptables (strict simulated kernel at the utiliptables.Interface seam), docker daemon (in-process round tripper behind the real engine-api client) and containerd (CRI client fake), kube-apiserver (simkube), kubelet (model)",
	"strict kernel rules (each a documented behaviour of iptables/iptables-restore --noflush, nothing else is refused): a restore is applied to a private copy and committed at COMMIT, any failing line aborts it with nothing applied; a ':CHAIN' line creates a missing chain and flushes an existing user chain; -A/-I fail on a missing chain or jump target; -X fails on a non-empty or still referenced chain; -N on an existing chain exits 1; one Interface method = one atomic step (the real runner holds its mutex and the xtables lock)",
	"C14: 'foreign' = every chain other than KUBE-HOSTPORTS, KUBE-HP-* and KUBE-MARK-MASQ (rewritten by galaxy on every setup by design); inside built-in chains galaxy may add its own jump rules to KUBE-HOSTPORTS; no daemon crash is injected (sockets cannot survive a process); obligations on held ports last until the pod's DEL succeeded",
	"C17: runtime states are monotone (a container never comes back to life); under containerd the liveness clause does not count galaxy's extra caution (a not-ready sandbox whose pod still reports a waiting/running container is kept) against it",
	"a clean batch is evidence, not proof: configurations, histories, interleavings and faults are sampled from a seeded stream",
}

func init() {
	specs["C12"] = propSpec{World: "daemon", Level: "exploration", Quick: 25, Thorough: 600, Rule: ruleC12, Assume: assumeW2}
	specs["C14"] = propSpec{World: "daemon", Level: "exploration", Quick: 25, Thorough: 600, Rule: ruleC14, Assume: assumeW2}
	specs["C17"] = propSpec{World: "daemon", Level: "exploration", Quick: 25, Thorough: 600, Rule: ruleC17, Assume: assumeW2}
	realVsStub["daemon"] = map[string]string{
		"real":    "pkg/api/cniutil (CmdAdd/CmdDel/save/consume/args/GetNetworkConfig), pkg/galaxy (cni HTTP handler via httptest, requestFunc, resolveNetworks, setupPortMapping/cleanupPortMapping, setupIPtables, cleanIPtables), pkg/api/galaxy (CniRequestToPodRequest), pkg/api/k8s (annotation parser, port files, GetHostname), pkg/network/portmapping (OpenHostports/CloseHostports, SetupPortMapping, CleanPortMapping, SetupPortMappingForAllPods, EnsureBasicRule), pkg/gc (cleanupIP, cleanupGCDirs, shouldCleanup), pkg/api/docker (DockerInspectContainer over the real engine-api client, ContainedInspectContainer), cni/ipam.Allocate (plugin-side decoder), pkg/utils/iptables (chain-line parsing)",
		"stub":    "CNI plugin binaries (recording plugin runtime), file system, sockets, iptables exec runner (strict kernel at utiliptables.Interface), docker daemon (in-process round tripper), containerd (CRI client fake), kube-apiserver (simkube), kubelet and container life cycle (model); klog -> simlog",
		"not_run": "Galaxy.Init/Start (host probes: docker socket, iptables binary, kubeconfig), StartServer (unix socket), pkg/policy, pkg/network/{kernel,vlan,netns}, pkg/tke/eni, cleanupVeth beyond an empty link list, flag parsing, cmd/*",
	}
}
