#!/bin/bash
# Builds the framework tools from files on disk only (offline).
set -e
cd "$(dirname "$0")"
export GOFLAGS=-mod=mod GOPROXY=off GOSUMDB=off GOTOOLCHAIN=local
mkdir -p bin
(cd tools && go build -o ../bin/simrewrite ./simrewrite)
(cd tools && go build -o ../bin/vcheck ./vcheck)
echo "setup ok"
