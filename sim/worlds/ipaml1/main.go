// World "ipaml1": the layer-1 check of DESIGN §2.8. Simulated client tasks drive the real crdIpam
// (floatingip.IPAM) directly; the invoke/return history, stamped with scheduler step numbers, is checked for
// linearizability with porcupine against a small sequential model (a map ip -> owner/policy/node/uid plus the
// configuration in force). AllocateInSubnet / AllocateInSubnetWithKey are nondeterministic in the model: any
// free (resp. any matching) routable IP is a legal outcome. A failed operation must have no effect.
package main

import (
	"encoding/json"
	"fmt"
	"net"
	"sort"
	"strconv"
	"strings"
	"time"

	"github.com/anishathalye/porcupine"
	"tkestack.io/galaxy/pkg/api/galaxy/constant"
	"tkestack.io/galaxy/pkg/ipam/floatingip"
	"tkestack.io/galaxy/verifsim/core"
	"tkestack.io/galaxy/verifsim/harness"
	"tkestack.io/galaxy/verifsim/kubeclient"
	"tkestack.io/galaxy/verifsim/simkube"
)

// ---- generated configuration ------------------------------------------------------------------------------

type pool struct {
	Subnets []string `json:"nodeSubnets"`
	IPs     []string `json:"ips"`
	Subnet  string   `json:"subnet"`
	Gateway string   `json:"gateway"`
	ips     []string
}

type conf struct {
	pools []*pool
	byIP  map[string]*pool
}

func genConf(c *core.Choices, variant int) *conf {
	cf := &conf{byIP: map[string]*pool{}}
	subs := []string{"10.1.0.0/24", "10.2.0.0/24"}
	host := 2
	n := 1 + c.Choose(2)
	for i := 0; i < n; i++ {
		p := &pool{Subnet: "192.168.1.0/24", Gateway: "192.168.1.1"}
		p.Subnets = []string{subs[c.Choose(2)]}
		if c.Prob(1, 3) {
			p.Subnets = subs
		}
		k := 1 + c.Choose(3)
		first := host
		for j := 0; j < k; j++ {
			ip := fmt.Sprintf("192.168.1.%d", host)
			p.ips = append(p.ips, ip)
			cf.byIP[ip] = p
			host++
		}
		if k == 1 {
			p.IPs = []string{fmt.Sprintf("192.168.1.%d", first)}
		} else {
			p.IPs = []string{fmt.Sprintf("192.168.1.%d~192.168.1.%d", first, host-1)}
		}
		host += 2
		cf.pools = append(cf.pools, p)
	}
	return cf
}

func (cf *conf) json() string { b, _ := json.Marshal(cf.pools); return string(b) }

// ---- operations and the sequential model ------------------------------------------------------------------

type input struct {
	Op     string // allocAny allocSpecific release reserve updateAttr allocWithKey byIP byKey configure
	Key    string
	NewKey string
	IP     string
	Subnet string
	Policy int
	Node   string
	UID    string
	Conf   int // configuration version for configure
}

type output struct {
	Err      string
	IP       string
	Reserved bool
	Key      string
	Policy   int
	Node     string
	UID      string
	IPs      string
}

// state: canonical text "conf=<n>;ip=key|policy|node|uid;..." (only allocated IPs are listed)
type entry struct {
	key    string
	policy int
	node   string
	uid    string
}

func parseState(s string) (int, map[string]entry) {
	parts := strings.Split(s, ";")
	cv, _ := strconv.Atoi(strings.TrimPrefix(parts[0], "conf="))
	m := map[string]entry{}
	for _, p := range parts[1:] {
		if p == "" {
			continue
		}
		kv := strings.SplitN(p, "=", 2)
		f := strings.Split(kv[1], "|")
		pol, _ := strconv.Atoi(f[1])
		m[kv[0]] = entry{f[0], pol, f[2], f[3]}
	}
	return cv, m
}

func fmtState(cv int, m map[string]entry) string {
	ks := make([]string, 0, len(m))
	for k := range m {
		ks = append(ks, k)
	}
	sort.Strings(ks)
	var sb strings.Builder
	fmt.Fprintf(&sb, "conf=%d", cv)
	for _, k := range ks {
		e := m[k]
		fmt.Fprintf(&sb, ";%s=%s|%d|%s|%s", k, e.key, e.policy, e.node, e.uid)
	}
	return sb.String()
}

func hasSub(p *pool, s string) bool {
	for _, x := range p.Subnets {
		if x == s {
			return true
		}
	}
	return false
}

func cloneM(m map[string]entry) map[string]entry {
	o := make(map[string]entry, len(m))
	for k, v := range m {
		o[k] = v
	}
	return o
}

// step is the nondeterministic sequential specification.
func step(confs []*conf) func(st, in, out interface{}) []interface{} {
	return func(st, in, out interface{}) []interface{} {
		cv, m := parseState(st.(string))
		i, o := in.(input), out.(output)
		cf := confs[cv]
		same := []interface{}{st}
		switch i.Op {
		case "allocAny":
			if o.Err != "" {
				if strings.Contains(o.Err, "no enough available ips") {
					// legal only if no free routable IP exists
					for ip, p := range cf.byIP {
						if _, used := m[ip]; !used && hasSub(p, i.Subnet) {
							return nil
						}
					}
				}
				return same
			}
			p := cf.byIP[o.IP]
			if _, used := m[o.IP]; used || p == nil || !hasSub(p, i.Subnet) {
				return nil
			}
			n := cloneM(m)
			n[o.IP] = entry{i.Key, i.Policy, i.Node, i.UID}
			return []interface{}{fmtState(cv, n)}
		case "allocSpecific":
			if o.Err != "" {
				return same
			}
			if _, used := m[i.IP]; used || cf.byIP[i.IP] == nil {
				return nil
			}
			n := cloneM(m)
			n[i.IP] = entry{i.Key, i.Policy, i.Node, i.UID}
			return []interface{}{fmtState(cv, n)}
		case "release":
			if o.Err != "" {
				return same
			}
			if e, ok := m[i.IP]; !ok || e.key != i.Key {
				return nil
			}
			n := cloneM(m)
			delete(n, i.IP)
			return []interface{}{fmtState(cv, n)}
		case "updateAttr":
			if o.Err != "" {
				return same
			}
			e, ok := m[i.IP]
			if !ok || e.key != i.Key {
				return nil
			}
			n := cloneM(m)
			n[i.IP] = entry{e.key, i.Policy, i.Node, i.UID}
			return []interface{}{fmtState(cv, n)}
		case "reserve":
			if o.Err != "" {
				return same // a failed ReserveIP may have updated a prefix of the matching IPs: not judged
			}
			n := cloneM(m)
			changed := false
			for ip, e := range m {
				if e.key != i.Key {
					continue
				}
				if i.Key == i.NewKey && e.uid == i.UID && e.node == i.Node {
					continue
				}
				n[ip] = entry{i.NewKey, e.policy, i.Node, i.UID}
				changed = true
			}
			if changed != o.Reserved {
				return nil
			}
			return []interface{}{fmtState(cv, n)}
		case "allocWithKey":
			if o.Err != "" {
				return same
			}
			var outs []interface{}
			for ip, e := range m {
				if e.key == i.Key && cf.byIP[ip] != nil && hasSub(cf.byIP[ip], i.Subnet) {
					n := cloneM(m)
					n[ip] = entry{i.NewKey, i.Policy, i.Node, i.UID}
					outs = append(outs, fmtState(cv, n))
				}
			}
			return outs
		case "byIP":
			e, ok := m[i.IP]
			if !ok {
				if o.Key == "" {
					return same
				}
				return nil
			}
			if o.Key == e.key && o.Policy == e.policy && o.Node == e.node && o.UID == e.uid {
				return same
			}
			return nil
		case "byKey":
			var ips []string
			for ip, e := range m {
				if e.key == i.Key {
					ips = append(ips, ip)
				}
			}
			sort.Strings(ips)
			if strings.Join(ips, ",") == o.IPs {
				return same
			}
			return nil
		case "configure":
			if o.Err != "" {
				return same
			}
			nc := confs[i.Conf]
			n := map[string]entry{}
			for ip, e := range m {
				if nc.byIP[ip] != nil {
					n[ip] = e
				}
			}
			return []interface{}{fmtState(i.Conf, n)}
		}
		return nil
	}
}

// ---- the world --------------------------------------------------------------------------------------------

type opRec struct {
	Client int    `json:"c"`
	In     input  `json:"in"`
	Out    output `json:"out"`
	Call   int64  `json:"call"`
	Ret    int64  `json:"ret"`
}

type world struct {
	s     *core.Sim
	k     *simkube.Kube
	ops   []opRec
	calls map[int]int64
	ready bool
}

func (w *world) Handle(t *core.Task, r *core.Req) core.Resp {
	switch r.Op {
	case "l1.invoke":
		// the invocation is stamped with the global step number
		return core.Resp{Msg: strconv.Itoa(w.s.Steps)}
	case "l1.return":
		var rec opRec
		_ = json.Unmarshal(r.B, &rec)
		rec.Ret = int64(w.s.Steps)
		w.ops = append(w.ops, rec)
		return core.Resp{}
	case "l1.ready":
		w.ready = true
		return core.Resp{}
	}
	return w.k.Handle(t, r)
}
func (w *world) Actions() []core.Action { return nil }
func (w *world) Idle() bool             { return false }
func (w *world) AfterStep()             {}

func doOp(ipam floatingip.IPAM, confs []*conf, client int, in input) {
	r := core.CallNow(core.Req{Op: "l1.invoke"})
	call, _ := strconv.ParseInt(r.Msg, 10, 64)
	var out output
	attr := floatingip.Attr{Policy: constant.ReleasePolicy(in.Policy), NodeName: in.Node, Uid: in.UID}
	errStr := func(err error) string {
		if err != nil {
			return err.Error()
		}
		return ""
	}
	switch in.Op {
	case "allocAny":
		_, sub, _ := net.ParseCIDR(in.Subnet)
		ip, err := ipam.AllocateInSubnet(in.Key, sub, attr)
		out.Err = errStr(err)
		if err == nil {
			out.IP = ip.String()
		}
	case "allocSpecific":
		out.Err = errStr(ipam.AllocateSpecificIP(in.Key, net.ParseIP(in.IP), attr))
	case "release":
		out.Err = errStr(ipam.Release(in.Key, net.ParseIP(in.IP)))
	case "updateAttr":
		out.Err = errStr(ipam.UpdateAttr(in.Key, net.ParseIP(in.IP), attr))
	case "reserve":
		res, err := ipam.ReserveIP(in.Key, in.NewKey, floatingip.Attr{NodeName: in.Node, Uid: in.UID})
		out.Err, out.Reserved = errStr(err), res
	case "allocWithKey":
		out.Err = errStr(ipam.AllocateInSubnetWithKey(in.Key, in.NewKey, in.Subnet, attr))
	case "byIP":
		f, err := ipam.ByIP(net.ParseIP(in.IP))
		out.Err = errStr(err)
		out.Key, out.Policy, out.Node, out.UID = f.Key, int(f.Policy), f.NodeName, f.PodUid
	case "byKey":
		fs, err := ipam.ByKeyAndIPRanges(in.Key, nil)
		out.Err = errStr(err)
		var ips []string
		for _, f := range fs {
			ips = append(ips, f.IP.String())
		}
		sort.Strings(ips)
		out.IPs = strings.Join(ips, ",")
	case "configure":
		var pools []*floatingip.FloatingIPPool
		if err := json.Unmarshal([]byte(confs[in.Conf].json()), &pools); err != nil {
			panic(err)
		}
		out.Err = errStr(ipam.ConfigurePool(pools))
	}
	b, _ := json.Marshal(opRec{Client: client, In: in, Out: out, Call: call})
	core.CallNow(core.Req{Op: "l1.return", B: b})
}

func genOp(c *core.Choices, confs []*conf, cur int, seq *int) input {
	cf := confs[cur]
	var ips []string
	for ip := range cf.byIP {
		ips = append(ips, ip)
	}
	sort.Strings(ips)
	keys := []string{"k1", "k2", "pre_"}
	subs := []string{"10.1.0.0/24", "10.2.0.0/24"}
	*seq++
	in := input{Key: keys[c.Choose(3)], IP: ips[c.Choose(len(ips))], Subnet: subs[c.Choose(2)], Policy: c.Choose(3),
		Node: []string{"", "n1", "n2"}[c.Choose(3)], UID: fmt.Sprintf("u%d", *seq)} // unique uid per write: every read is attributable
	switch c.Choose(12) {
	case 0, 1, 2:
		in.Op = "allocAny"
	case 3:
		in.Op = "allocSpecific"
	case 4, 5:
		in.Op = "release"
	case 6:
		in.Op = "reserve"
		in.NewKey = keys[c.Choose(3)]
	case 7:
		in.Op = "updateAttr"
	case 8:
		in.Op = "allocWithKey"
		in.NewKey = keys[c.Choose(3)]
	case 9:
		in.Op = "byIP"
	case 10:
		in.Op = "byKey"
	default:
		in.Op = "configure"
		in.Conf = c.Choose(len(confs))
	}
	return in
}

func run(prop, tier string, c *core.Choices, trace bool) *harness.RunResult {
	s := core.NewSim(c)
	s.TraceOn = trace
	w := &world{s: s, k: simkube.New(s)}
	s.W = w
	proc := s.NewProc()
	confs := []*conf{genConf(c, 0), nil}
	confs[1] = genConf(c, 1)
	nClients := 2 + c.Choose(3)
	perClient := 3 + c.Choose(6)
	// operations are drawn up front so that the history does not depend on the schedule
	seq := 0
	plans := make([][]input, nClients)
	for ci := range plans {
		for j := 0; j < perClient; j++ {
			plans[ci] = append(plans[ci], genOp(c, confs, 0, &seq))
		}
	}
	var ipam floatingip.IPAM
	s.Spawn("init", proc, func() {
		ipam = floatingip.NewCrdIPAM(kubeclient.NewGalaxyClientset(), nil)
		var pools []*floatingip.FloatingIPPool
		if err := json.Unmarshal([]byte(confs[0].json()), &pools); err != nil {
			panic(err)
		}
		if err := ipam.ConfigurePool(pools); err != nil {
			panic(err)
		}
		core.InitDone()
		for ci := range plans {
			ci := ci
			core.Go(func() {
				for _, in := range plans[ci] {
					doOp(ipam, confs, ci, in)
				}
			})
		}
	})
	s.OnPanic = func(t *core.Task, msg string) {
		s.Infra = "task " + t.Name + " panicked: " + msg
		s.Stop()
	}
	s.Loop()
	res := &harness.RunResult{Infra: s.Infra, Stats: s.Stats, Steps: s.Steps, SimNanos: core.ClockNanos(), Hash: s.Hash(), Trace: s.Trace}
	if b := s.Blocked(); len(b) > 0 && res.Infra == "" {
		res.Infra = "clients blocked forever on locks"
	}
	s.KillAll()
	// linearizability
	model := porcupine.NondeterministicModel{
		Init: func() []interface{} { return []interface{}{fmtState(0, map[string]entry{})} },
		Step: step(confs),
	}
	var hist []porcupine.Operation
	for _, o := range w.ops {
		hist = append(hist, porcupine.Operation{ClientId: o.Client, Input: o.In, Call: o.Call, Output: o.Out, Return: o.Ret})
	}
	s.Stats["l1.histories"]++
	s.Stats["l1.operations"] += len(hist)
	switch porcupine.CheckOperationsTimeout(model.ToModel(), hist, 20*time.Second) {
	case porcupine.Illegal:
		hb, _ := json.Marshal(w.ops)
		res.Viol = &core.Violation{Oracle: prop + ".l1-not-linearizable", Step: s.Steps,
			Message: "the history of crdIpam operations admits no sequential order consistent with the map model: " + string(hb)}
		res.Key = "l1-not-linearizable"
		if trace {
			res.Trace = append(res.Trace, "VIOLATION history: "+string(hb))
		}
		s.Stats["l1.illegal"]++
	case porcupine.Unknown:
		res.Inconclusive = 1
		s.Stats["l1.unknown"]++
	default:
		s.Stats["l1.ok"]++
	}
	res.Sig = strings.Join(s.SigParts, ",")
	res.Nontrivial = s.Contested > 0 && len(hist) > 0
	res.Summary = fmt.Sprintf("layer-1 history: %d clients x %d ops", nClients, perClient)
	return res
}

func main() { harness.Main("ipaml1", run) }
