// World W1: galaxy-ipam under deterministic simulation.
package main

import (
	"strings"

	"tkestack.io/galaxy/verifsim/core"
	"tkestack.io/galaxy/verifsim/harness"
)

func run(prop, tier string, c *core.Choices, trace bool) *harness.RunResult {
	s := core.NewSim(c)
	s.TraceOn = trace
	s.MaxSteps = 30000
	w := newWorld(s, prop, tier)
	s.W = w
	w.startProcess()
	s.Loop()
	res := &harness.RunResult{Viol: s.Viol, Key: w.key, Infra: s.Infra, Stats: s.Stats, Steps: s.Steps, SimNanos: core.ClockNanos(), Hash: s.Hash(), Trace: s.Trace, States: w.states}
	if s.OutOfSteps && s.Viol == nil && res.Infra == "" {
		res.Infra = "step budget exhausted before quiescence"
	}
	s.KillAll()
	res.Sig = strings.Join(s.SigParts, ",")
	res.Nontrivial = s.Stats["bind.applied"] > 0 && (s.Contested > 0 || strings.Contains(res.Sig, "F:"))
	res.Summary = "ops=" + strings.Join(w.summary, ",")
	return res
}

func main() { harness.Main("ipam", run) }
