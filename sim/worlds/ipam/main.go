// World W1: galaxy-ipam under deterministic simulation.
package main

import (
	"fmt"
	"strings"

	"tkestack.io/galaxy/verifsim/core"
	"tkestack.io/galaxy/verifsim/harness"
)

// faultPlan is one point of a fault enumeration: the k-th matching API call of galaxy-ipam fails (mode 1), or
// the process dies right before (mode 2) / right after (mode 3) it.
type faultPlan struct {
	mode int
	k    int
}

func run(prop, tier string, c *core.Choices, trace bool) *harness.RunResult {
	if prop == "C05" || prop == "C08" {
		return runEnum(prop, tier, c, trace)
	}
	return runOne(prop, tier, c, trace, nil)
}

// runEnum: fault enumeration. The history is fixed by the recorded choices of a fault-free baseline run; it is
// then re-executed once per (injection point, mode). A failing sub-run is reported as the choice list
// [mode, k, baseline choices...], which replays (and shrinks) like any other run.
func runEnum(prop, tier string, c *core.Choices, trace bool) *harness.RunResult {
	modes := []int{1, 2, 3}
	if prop == "C08" {
		modes = []int{1}
	}
	if c.Replaying {
		mode := c.Choose(4)
		k := c.Choose(1 << 20)
		inner := core.ReplayChoices(c.Seed, append([]uint32(nil), c.Rest()...))
		var plan *faultPlan
		if mode != 0 {
			plan = &faultPlan{mode: mode, k: k}
		}
		res := runOne(prop, tier, inner, trace, plan)
		c.Rec = append([]uint32{uint32(mode), uint32(k)}, inner.Rec...)
		return res
	}
	base := core.NewChoices(c.Seed)
	agg := runOne(prop, tier, base, false, nil)
	agg.SubRuns = 1
	if agg.Viol != nil || agg.Infra != "" {
		c.Rec = append([]uint32{0, 0}, base.Rec...)
		return agg
	}
	m := agg.Stats["enum.points"]
	baseSig := agg.Sig
	if agg.Nontrivial {
		agg.ExtraSigs = append(agg.ExtraSigs, baseSig)
	}
	agg.Nontrivial = false
	maxPoints := 400
	if tier == "thorough" {
		maxPoints = 4000
	}
	if m > maxPoints {
		agg.Stats["enum.truncated"]++
		m = maxPoints
	}
	for k := 1; k <= m; k++ {
		for _, mode := range modes {
			inner := core.ReplayChoices(c.Seed, base.Rec)
			r := runOne(prop, tier, inner, false, &faultPlan{mode: mode, k: k})
			agg.SubRuns++
			agg.Steps += r.Steps
			agg.SimNanos += r.SimNanos
			for kk, v := range r.Stats {
				if kk != "enum.points" {
					agg.Stats[kk] += v
				}
			}
			agg.States = append(agg.States, r.States...)
			agg.ExtraSigs = append(agg.ExtraSigs, fmt.Sprintf("%s|plan:%d@%d", baseSig, mode, k))
			if r.Viol != nil || r.Infra != "" {
				agg.Viol, agg.Key, agg.Infra = r.Viol, r.Key, r.Infra
				c.Rec = append([]uint32{uint32(mode), uint32(k)}, base.Rec...)
				return agg
			}
		}
	}
	return agg
}

func runOne(prop, tier string, c *core.Choices, trace bool, plan *faultPlan) *harness.RunResult {
	s := core.NewSim(c)
	s.TraceOn = trace
	s.MaxSteps = 30000
	w := newWorld(s, prop, tier)
	w.plan = plan
	s.W = w
	w.startProcess()
	s.Loop()
	res := &harness.RunResult{Viol: s.Viol, Key: w.key, Infra: s.Infra, Stats: s.Stats, Steps: s.Steps, SimNanos: core.ClockNanos(), Hash: s.Hash(), Trace: s.Trace, States: w.states}
	if s.OutOfSteps && s.Viol == nil && res.Infra == "" {
		res.Infra = "step budget exhausted before quiescence"
	}
	s.KillAll()
	res.Sig = strings.Join(s.SigParts, ",")
	res.Nontrivial = s.Stats["bind.applied"] > 0 && (s.Contested > 0 || strings.Contains(res.Sig, "F:"))
	if prop == "C18" {
		res.Nontrivial = s.Stats["hostile.pod"]+s.Stats["hostile.http"]+s.Stats["hostile.conf"] > 0
	}
	res.Summary = "ops=" + strings.Join(w.summary, ",")
	return res
}

func main() { harness.Main("ipam", run) }
