package main

// Oracles of W1. Event oracles run at the instant the API server applies a mutation or the cloud provider
// receives a call; quiescent checks run when nothing is in flight. Only the clauses of the property being
// checked are armed.

import (
	"encoding/json"
	"fmt"
	"sort"
	"strings"

	"tkestack.io/galaxy/verifsim/core"
	"tkestack.io/galaxy/verifsim/simkube"
)

func (w *World) armed(props ...string) bool {
	for _, p := range props {
		if w.prop == p {
			return true
		}
	}
	return false
}

// worldMutation reports whether the store mutation was made by the world itself (administrator, controllers)
// rather than by galaxy-ipam.
func worldMutation(m *simkube.Mutation) bool { return m.By == nil || m.By.Proc == 0 }

func (w *World) storeFip(ip string) *FipInfo { return decodeFip(w.K.Get("floatingips", "", ip)) }

// ---- binding applied ------------------------------------------------------------------------------------

func (w *World) oracleOnBind(p *PodInfo, m *simkube.Mutation) {
	if w.armed("C07") && p.App != nil && p.App.Pool != "" && len(p.Ranges) > 0 {
		w.S.Stat("c07.pooled-dp-with-ranges-bound")
		if o := w.K.Get("pools", "kube-system", p.App.Pool); o != nil {
			var pj poolJSON
			_ = json.Unmarshal(o.JSON, &pj)
			w.S.Stat("c07.pooled-dp-with-ranges-bound-in-sized-pool")
			_ = pj
		}
	}
	if len(p.IPs) == 0 {
		// a pod that asked for a floating IP is bound with none: k requested ranges (or the implicit single one) got 0 IPs
		if w.armed("C08", "C05", "C06") && p.App != nil {
			w.fail(w.prop+".bound-without-ip", "bound-without-ip", "pod %s (requested ranges %v) was bound to %s by %s with no IP in its annotation", p.key(), p.Ranges, p.Node, m.By.Name)
		}
		return
	}
	if w.armed("C01") {
		for _, ip := range p.IPs {
			for _, q := range w.livePodsWithIP(ip) {
				if q.UID != p.UID && w.everDropped[ip] && w.adoptedBy[ip] != q.UID {
					// the holder's record was lost to a configuration change and never written again: out of scope
					w.S.Stat("c01.double-bound-after-deconfiguration-out-of-scope")
					continue
				}
				if q.UID != p.UID {
					if w.everDropped[ip] {
						w.S.Stat("c01.double-bound-judged-on-readopted-ip")
					}
					w.fail("C01.double-bound", w.c04Key("double-bound", q.Key, 0),
						"IP %s handed to pod %s (uid %s) while live pod %s (uid %s, bound at step %d) holds it", ip, p.key(), p.UID, q.key(), q.UID, q.BoundStep)
					return
				}
			}
			if f := w.storeFip(ip); w.inNewestConf(ip) && (f == nil || f.Key != p.Key) {
				owner := "<nobody>"
				if f != nil {
					owner = f.Key
				}
				w.fail("C01.bound-ip-not-owned", "bound-ip-not-owned",
					"pod %s was bound with IP %s but the store records owner %q, expected %q", p.key(), ip, owner, p.Key)
				return
			}
			// "at most one owner": the owner the store names is this pod, not an earlier pod of the same name — a record
			// that carries another incarnation's uid is released by that incarnation's late delete event or by the next
			// resync pass (which finds "its" pod gone) while this pod is alive
			if f := w.storeFip(ip); w.inNewestConf(ip) && f != nil && f.Key == p.Key && f.UID != "" && f.UID != p.UID {
				w.fail("C01.bound-ip-owned-by-other-incarnation", w.c04Key("bound-ip-owned-by-other-incarnation", p.Key, 0),
					"pod %s (uid %s) was bound with IP %s but the store records it for uid %s of the same name", p.key(), p.UID, ip, f.UID)
				return
			}
		}
	}
	if w.armed("C11") {
		// "distinct pods map to distinct allocation keys, and a key decodes back to the pod it was built from": the key
		// galaxy stored for this pod's IPs is the documented key of exactly this pod (the model builds keys from the
		// documented format; two pods of the model never share one)
		for _, ip := range p.IPs {
			if f := w.storeFip(ip); f != nil && w.inNewestConf(ip) && f.Key != p.Key {
				key := "key-differs-from-documented-format"
				if p.App != nil && strings.Contains(p.App.Pool, "_") {
					key = "pool-name-with-underscore"
				}
				w.fail("C11.key-of-bound-pod", key, "pod %s was bound with IP %s stored under key %q, the documented key of this pod is %q", p.key(), ip, f.Key, p.Key)
				return
			}
		}
	}
	if w.armed("C08") && p.App != nil && len(p.Ranges) > 0 {
		w.oracleC08Bind(p)
	}
	if w.armed("C09") {
		for _, ip := range p.IPs {
			// an administrator's labelled reservation is never handed to a pod
			if f := w.storeFip(ip); f != nil && f.Reserved {
				w.fail("C09.reserved-ip-handed-to-pod", "reserved-ip-handed-to-pod", "pod %s was bound with %s, which an administrator has reserved (labelled FloatingIP, key %q)", p.key(), ip, f.Key)
				return
			}
			// nor is an IP that is in none of the configurations that may be in force: the oldest candidate is the version
			// the tables were last seen to match (they only move forward), the newest the one in the configmap
			ok := false
			for i := w.inForceLB; i < len(w.confVers); i++ {
				if _, in := w.confVers[i][ip]; in {
					ok = true
				}
			}
			if !ok && !w.hostileConfActive {
				w.fail("C09.deconfigured-ip-handed-to-pod", "deconfigured-ip-handed-to-pod",
					"pod %s was bound with %s, which is in none of the configuration versions %d..%d that can be in force", p.key(), ip, w.inForceLB, len(w.confVers)-1)
				return
			}
		}
	}
	if w.armed("C02") && p.App != nil && w.M.lostReservationIP[p.Key] != "" {
		if old := w.M.lostReservationIP[p.Key]; w.inNewestConf(old) && !hasStr(p.IPs, old) {
			w.fail("C02.different-ip-while-reservation-should-exist", "different-ip-while-reservation-should-exist",
				"identity %q (policy %s) is bound again with %v; it held %s and nothing the policy allows ended that reservation",
				p.Key, p.App.effPolicy(), p.IPs, w.M.lostReservation[p.Key])
			return
		}
	}
	if w.armed("C02") && p.App != nil && len(p.Ranges) == 0 && !w.identityEverHadRanges(p.Key) {
		// (c) the IPs written into the binding are exactly the IPs the store holds for the identity
		var held []string
		for _, ip := range w.storeIPsOfKey(p.Key) {
			if w.inNewestConf(ip) {
				held = append(held, ip)
			}
		}
		ann := append([]string(nil), p.IPs...)
		sort.Strings(ann)
		var annConf []string
		for _, ip := range ann {
			if w.inNewestConf(ip) {
				annConf = append(annConf, ip)
			}
		}
		if strings.Join(annConf, ",") != strings.Join(held, ",") {
			w.fail("C02.annotation-differs-from-store", "annotation-differs-from-store",
				"pod %s bound with IPs %v but the store holds %v for identity %q", p.key(), ann, held, p.Key)
			return
		}
	}
	if w.armed("C10") && w.withCloud {
		for _, ip := range p.IPs {
			if w.cloud[ip] != p.Node {
				w.fail("C10.bound-ip-not-assigned", "bound-ip-not-assigned",
					"pod %s bound to node %s with IP %s, but the provider has it assigned to %q", p.key(), p.Node, ip, w.cloud[ip])
				return
			}
		}
	}
}

// ---- FloatingIP store mutations -------------------------------------------------------------------------

func (w *World) oracleOnFip(m *simkube.Mutation) {
	var ip string
	if m.Old != nil {
		ip = m.Old.Name
	} else {
		ip = m.New.Name
	}
	oldF, newF := decodeFip(m.Old), decodeFip(m.New)
	prev := w.M.allocs[ip]
	// model bookkeeping (always): allocation epochs
	if newF == nil && oldF != nil {
		foreign := worldMutation(m)
		if !foreign && (m.By.Tag == "api" || m.By.Tag == "reload" || m.By.Tag == "periodic-reload" || m.By.Tag == "probe") {
			foreign = true
		}
		if foreign {
			if id := w.M.idents[oldF.Key]; id != nil {
				w.M.foreignDelete[id.App.poolPrefix()] = w.S.Steps
			} else if app := w.appOfPrefix(oldF.Key); app != nil {
				w.M.foreignDelete[app.poolPrefix()] = w.S.Steps
			}
		}
	}
	if newF != nil && isPodKey(newF.Key) && newF.UID != "" {
		for _, o := range w.K.List("floatingips", "") {
			if f := decodeFip(o); f.Key == newF.Key && f.IP != ip && f.UID != "" && f.UID != newF.UID {
				w.M.mixedUIDs[newF.Key] = true // the key now holds IPs recorded for two different incarnations
			}
		}
	}
	if newF != nil && isPodKey(newF.Key) {
		for _, o := range w.K.List("floatingips", "") {
			if f := decodeFip(o); f.Key == newF.Key && f.IP != ip {
				w.M.multiIP[newF.Key] = true // the key holds several IPs at once (a multi-IP pod)
			}
		}
	}
	// per-allocation scope of C01 for an IP that was once taken out of the configuration: the running pod's holding counts
	// again once galaxy has written a record for that very pod since (adoption by the pod-IP sync pass, or a bind); it stops
	// counting when the record is deleted while a configuration without the IP can be in force (a legitimate loss)
	if newF != nil && isPodKey(newF.Key) {
		if p := w.livePodWithKey(newF.Key); p != nil && p.Node != "" && hasStr(p.IPs, ip) && (newF.UID == "" || newF.UID == p.UID) {
			if w.adoptedBy == nil {
				w.adoptedBy = map[string]string{}
			}
			w.adoptedBy[ip] = p.UID
		}
	}
	if newF == nil && w.adoptedBy[ip] != "" {
		for i := w.inForceLB; i < len(w.confVers); i++ {
			if _, in := w.confVers[i][ip]; !in {
				delete(w.adoptedBy, ip)
				break
			}
		}
	}
	switch {
	case newF == nil:
		delete(w.M.allocs, ip)
	case oldF == nil || oldF.Key != newF.Key:
		al := w.newAlloc(ip, newF.Key, m.By, newF.Reserved)
		w.noteAllocUID(al, newF.UID)
		if w.cloudStale[ip] {
			// the record comes back for the very pod the provider's assignment belongs to (adoption): tracked again
			if p := w.livePodWithKey(newF.Key); p != nil && p.Node != "" && p.Node == w.cloud[ip] && hasStr(p.IPs, ip) {
				delete(w.cloudStale, ip)
			}
		}
		if prev != nil && prev.BindTime {
			al.BindTime = true // the IP entered the pool through a bind-time allocation; re-keying does not change that
			al.BindReason = prev.BindReason
		}
		if m.By != nil {
			if tm, ok := m.By.Data.(*taskMeta); ok && tm != nil && tm.podUID != "" {
				if fw := w.M.filterWin[tm.podUID]; fw != nil && fw.closed {
					al.BindTime = true
					// why did this pod get its IP only at bind time? (a) the Pool object was not visible with a size at
					// some instant of its filter call, (b) it had an IP after its filter call and lost it again
					if pool := poolOfKey(newF.Key); pool != "" {
						if _, unsized := w.maxPoolSizeSince(pool, fw.start); unsized {
							al.BindReason = "pool-unsized-during-filter"
						}
					}
					if fw.hadIPAfterFilter {
						// ... and really lost it: the identity holds nothing but the IP being created now
						others := 0
						for _, x := range w.storeIPsOfKey(newF.Key) {
							if x != ip {
								others++
							}
						}
						if others == 0 {
							al.BindReason = "filter-time-ip-taken-back"
						}
					}
				}
			}
		}
	default:
		if prev != nil && prev.UID != newF.UID {
			w.noteAllocUID(prev, newF.UID)
		}
	}
	w.trackFilterWindows()
	if newF != nil {
		w.trackHeld()
	}
	if worldMutation(m) {
		return
	}
	w.oracleC03(m, ip, oldF, newF, prev)
	w.noteLostReservation(m, ip, oldF, newF, prev)
	w.oracleC02Create(m, ip, oldF, newF)
	w.oracleC07(m, ip, oldF, newF)
	w.oracleC09Store(m, ip, oldF, newF)
	if w.armed("C04") {
		for _, p := range w.livePodsWithIP(ip) {
			if !w.inNewestConf(ip) {
				continue
			}
			switch {
			case newF == nil:
				w.fail("C04.live-ip-released", w.c04Key("live-ip-released", oldF.Key, 0),
					"FloatingIP %s (owner %q uid %q) deleted by %s while live pod %s (uid %s, bound at step %d) holds it",
					ip, oldF.Key, oldF.UID, m.By.Name, p.key(), p.UID, p.BoundStep)
				return
			case newF.Key != p.Key:
				w.fail("C04.live-ip-rekeyed", w.c04Key("live-ip-rekeyed", p.Key, 1),
					"FloatingIP %s re-keyed from %q to %q by %s while live pod %s (uid %s) holds it", ip, oldKey(oldF), newF.Key, m.By.Name, p.key(), p.UID)
				return
			case newF.UID != "" && newF.UID != p.UID:
				w.fail("C04.live-ip-handed-on", w.c04Key("live-ip-handed-on", p.Key, 1),
					"FloatingIP %s now records pod uid %q (by %s) while live pod %s (uid %s) holds it", ip, newF.UID, m.By.Name, p.key(), p.UID)
				return
			}
		}
	}
	if w.armed("C10") && w.withCloud && newF == nil && prev != nil && !w.confSince(ip, prev.ConfLB) && w.cloud[ip] != "" {
		// dropped because the configuration no longer holds the IP (no provider call is made for that): the provider's
		// assignment is not tracked by galaxy-ipam any more
		if w.cloudStale == nil {
			w.cloudStale = map[string]bool{}
		}
		w.cloudStale[ip] = true
	}
	if w.armed("C10") && w.withCloud && prev != nil && w.confSince(ip, prev.ConfLB) && !w.cloudStale[ip] {
		freed := newF == nil
		moved := oldF != nil && newF != nil && oldF.Key != newF.Key && isPodKey(oldF.Key)
		if (freed || moved) && w.cloud[ip] != "" {
			what := "freed"
			if moved {
				what = fmt.Sprintf("handed from %q to %q", oldF.Key, newF.Key)
			}
			key := w.c10Key("freed-while-assigned", oldF.Key)
			w.fail("C10.freed-while-assigned", key,
				"FloatingIP %s %s by %s while the provider still has it assigned to node %s", ip, what, m.By.Name, w.cloud[ip])
		}
	}
}

func oldKey(f *FipInfo) string {
	if f == nil {
		return ""
	}
	return f.Key
}

// isPodKey reports whether a key names a pod (as opposed to a pool/app prefix or an admin reservation).
func isPodKey(k string) bool {
	if k == "" || k[len(k)-1] == '_' {
		return false
	}
	n := 0
	for i := 0; i < len(k); i++ {
		if k[i] == '_' {
			n++
		}
	}
	return n >= 3
}

// ---- cloud provider -------------------------------------------------------------------------------------

func (w *World) oracleOnCloudAssign(node, ip string) {
	if w.armed("C10") {
		if cur := w.cloud[ip]; cur != "" && cur != node && !w.cloudStale[ip] {
			owner := ""
			if f := w.storeFip(ip); f != nil {
				owner = f.Key
			}
			w.fail("C10.assign-while-assigned", w.c10Key("assign-while-assigned", owner),
				"AssignIP(%s -> %s) while the provider still has it assigned to %s", ip, node, cur)
		}
	}
}

func (w *World) oracleOnCloudUnassign(t *core.Task, node, ip string) {
	if w.armed("C10") {
		// "every IP of a bound live pod is assigned to that pod's node" is an invariant, not only a condition at bind
		for _, p := range w.livePodsWithIP(ip) {
			if w.inNewestConf(ip) && p.Node == node {
				w.fail("C10.live-pod-ip-unassigned", w.c10Key("live-pod-ip-unassigned", p.Key),
					"UnAssignIP(%s from %s) while live pod %s (uid %s) bound to that node holds it", ip, node, p.key(), p.UID)
				return
			}
		}
	}
	if w.armed("C04") {
		for _, p := range w.livePodsWithIP(ip) {
			if w.inNewestConf(ip) {
				key := w.c04Key("live-ip-unassigned", p.Key, 1)
				if al := w.M.allocs[ip]; key == "live-ip-unassigned" && t != nil && al != nil && t.Born < al.Step {
					// the unassigning task is older than the pod's allocation and the tables were rebuilt from the store in
					// between: it acts on what it read before the rebuild (known finding, see known_findings.json)
					for _, st := range w.rebuilds {
						if st > t.Born && st < al.Step {
							key = "live-ip-unassigned:stale-unbind-across-table-rebuild"
						}
					}
				}
				w.fail("C04.live-ip-unassigned", key,
					"UnAssignIP(%s from %s) while live pod %s (uid %s) on node %s holds it", ip, node, p.key(), p.UID, p.Node)
				return
			}
		}
	}
}

// ---- hooks used by other properties (filled in by their files) -----------------------------------------

func (w *World) oracleOnFiltered(fr *filterReport) {
	if fw := w.M.filterWin[fr.UID]; fw != nil {
		fw.closed = true
		if p := w.podByUID[fr.UID]; p != nil && len(w.storeIPsOfKey(p.Key)) > 0 {
			fw.hadIPAfterFilter = true
		}
	}
}

func (w *World) oracleOnPodCreated(p *PodInfo) { w.modelPodCreated(p) }

func (w *World) oracleOnPodEnds(p *PodInfo, why string) { w.modelPodEnds(p) }

func (w *World) oracleOnAppDeleted(a *App) { w.modelAppChanged(a) }

func (w *World) oracleOnAdminRelease(f *FipInfo) { w.M.adminRel[f.IP+"|"+f.Key] = true }

// ---- C03: no premature release ---------------------------------------------------------------------------

func (w *World) oracleC03(m *simkube.Mutation, ip string, oldF, newF *FipInfo, prev *Alloc) {
	if !w.armed("C03") || prev == nil || oldF == nil {
		return
	}
	if newF == nil {
		if ok, why := w.releaseJustified(prev, m.By); !ok {
			w.fail("C03.premature-release", w.c04Key("premature-release:"+policyTag(w, prev.Key), prev.Key, 0),
				"FloatingIP %s (key %q, allocated at step %d) released by %s: %s", ip, prev.Key, prev.Step, m.By.Name, why)
		}
		return
	}
	if oldF.Key != newF.Key && isPodKey(oldF.Key) && w.inNewestConf(ip) {
		// re-keyed away from a pod identity: to the app/pool prefix it is a reservation and needs the pod to be gone;
		// to another pod it is never allowed
		id := w.M.idents[oldF.Key]
		if id == nil {
			return
		}
		if isPodKey(newF.Key) {
			w.fail("C03.rekeyed-between-pods", "rekeyed-between-pods", "FloatingIP %s moved from pod key %q to pod key %q by %s", ip, oldF.Key, newF.Key, m.By.Name)
			return
		}
		if id.App.Kind != "dp" {
			// only a deployment's (or a deployment pool's) reservation is kept under the shared prefix; for every other
			// workload kind the reservation is the identity's own key, and moving it to a prefix takes it away from it
			if ok, _ := w.reservedByPolicy(id); ok && !w.M.adminRel[ip+"|"+oldF.Key] {
				w.fail("C03.reservation-moved-to-shared-prefix", "reservation-moved-to-shared-prefix",
					"FloatingIP %s of %s identity %q (policy %s) re-keyed to %q by %s: the identity's reserved IP is now anybody's in that prefix",
					ip, id.App.Kind, oldF.Key, id.App.effPolicy(), newF.Key, m.By.Name)
				return
			}
		}
		if id.App.Kind == "dp" && id.App.Pool == "" && id.App.effPolicy() == "immutable" && newF.Key == id.App.poolPrefix() {
			// "for deployments: while the app holds no more IPs than replicas": an unbound pod's IP is kept in reserve only
			// if the app then holds at most as many IPs as it has replicas (the larger of API truth and lister view)
			n, r := 0, w.replicasNow(id.App)
			// galaxy reads the replica count once in the operation: any value in force since the operation (the task that
			// does the update; for an unbind that is the goroutine handling the event) started counts
			start := m.By.Born
			if tm, ok := m.By.Data.(*taskMeta); ok && tm != nil && tm.start < start {
				start = tm.start
			}
			if hr, _ := maxSizeSince(w.M.replicaHist[id.App], start); hr > r {
				r = hr
			}
			if vh := w.M.replicaViewHist[id.App]; len(vh) == 0 || vh[0].step > start {
				r = 1 << 30 // what the lister showed when the operation started is not on record: not judged
			} else if hr, _ := maxSizeSince(vh, start); hr > r {
				r = hr
			}
			// ... and counts the app's IPs once, under the deployment lock; an IP that entered the prefix after the
			// operation started (Bind allocates without that lock) may have been missed and is not counted here
			for _, x := range sortedKeys(w.M.allocs) {
				if al := w.M.allocs[x]; strings.HasPrefix(al.Key, id.App.poolPrefix()) && (al.Step < start || x == ip) {
					n++
				}
			}
			if n > r {
				w.fail("C03.surplus-ip-reserved", "surplus-ip-reserved",
					"FloatingIP %s of deployment %s/%s kept in reserve by %s although the app now holds %d IPs for %d replicas", ip, id.App.NS, id.App.Name, m.By.Name, n, r)
				return
			}
		}
		if !prev.PodGoneSince && !w.M.adminRel[ip+"|"+oldF.Key] {
			w.fail("C03.reserved-while-pod-lives", "reserved-while-pod-lives",
				"FloatingIP %s taken from pod key %q (pod neither deleted nor finished since step %d) to %q by %s", ip, oldF.Key, prev.Step, newF.Key, m.By.Name)
		}
	}
}

func policyTag(w *World, key string) string {
	if id := w.M.idents[key]; id != nil {
		return id.App.Kind + "/" + id.App.effPolicy()
	}
	return "prefix"
}

// noteLostReservation (C02): an identity with a reserving policy loses its IP although the documented policy says the
// reservation still exists. The verdict is given when the identity is bound again with a different IP.
func (w *World) noteLostReservation(m *simkube.Mutation, ip string, oldF, newF *FipInfo, prev *Alloc) {
	if !w.armed("C02") || prev == nil || oldF == nil || !isPodKey(oldF.Key) {
		return
	}
	if newF != nil {
		// re-keyed: for everything but deployments the reservation is the identity's own key, so a move to a shared
		// prefix is a loss of the reservation as well
		if id := w.M.idents[oldF.Key]; id != nil && id.App.Kind != "dp" && newF.Key != oldF.Key && !isPodKey(newF.Key) && !w.identityEverHadRanges(oldF.Key) {
			if ok, _ := w.reservedByPolicy(id); ok && !w.M.adminRel[ip+"|"+oldF.Key] {
				w.M.lostReservation[oldF.Key] = fmt.Sprintf("%s (re-keyed to %q at step %d by %s)", ip, newF.Key, w.S.Steps, m.By.Name)
				w.M.lostReservationIP[oldF.Key] = ip
			}
		}
		return
	}
	id := w.M.idents[oldF.Key]
	if id == nil || id.App.effPolicy() == "" || w.identityEverHadRanges(oldF.Key) {
		return
	}
	if ok, why := w.releaseJustified(prev, m.By); !ok {
		w.M.lostReservation[oldF.Key] = fmt.Sprintf("%s (released at step %d by %s: %s)", ip, w.S.Steps, m.By.Name, why)
		w.M.lostReservationIP[oldF.Key] = ip
	}
}

// ---- C02: stickiness --------------------------------------------------------------------------------------

func (w *World) oracleC02Create(m *simkube.Mutation, ip string, oldF, newF *FipInfo) {
	if !w.armed("C02") || newF == nil || !isPodKey(newF.Key) {
		return
	}
	gotKey := oldF == nil || oldF.Key != newF.Key
	if !gotKey {
		return
	}
	id := w.M.idents[newF.Key]
	if id == nil || w.identityEverHadRanges(newF.Key) {
		return
	}
	if oldF != nil && oldF.Key == id.App.poolPrefix() {
		// the pod took one of its app's reserved IPs (filter re-keys it): clause (b) is met for this scheduling attempt,
		// whatever happens to that IP afterwards (a reload that no longer configures it, an administrator's release)
		for _, uid := range id.UIDs {
			if fw := w.M.filterWin[uid]; fw != nil {
				fw.tookReserved = true
				fw.tookIP = ip
				w.S.Stat("c02.reserved-ip-taken-in-filter")
			}
		}
	}
	// (a) an identity that already holds a (still configured) IP is never given another one
	for _, other := range w.storeIPsOfKey(newF.Key) {
		if other != ip && w.inNewestConf(other) {
			w.fail("C02.second-ip-for-identity", "second-ip-for-identity",
				"identity %q is given IP %s by %s while it still holds %s", newF.Key, ip, m.By.Name, other)
			return
		}
	}
	// (d) the "wait for releasing" gate: a deployment pod with a reserving policy is not given a fresh IP if, at every
	// instant of its last filter call, the deployment's pods already held as many IPs as it has replicas (a rolling
	// update must wait for the old pod's IP instead of taking a fresh one)
	if oldF == nil && id.App.Kind == "dp" && id.App.effPolicy() != "" {
		for _, uid := range id.UIDs {
			if pp := w.podByUID[uid]; pp == nil || w.gone[uid] || pp.finished() {
				continue
			}
			if fw := w.M.filterWin[uid]; fw != nil && fw.closed && fw.gateClosed && !fw.heldOwn {
				w.fail("C02.fresh-ip-while-app-holds-replicas-ips", "fresh-ip-while-app-holds-replicas-ips",
					"pod %q got fresh IP %s (by %s) although throughout its last filter call (steps %d..) the pods of deployment %s/%s held at least as many IPs as it has replicas",
					newF.Key, ip, m.By.Name, fw.start, id.App.NS, id.App.Name)
				return
			}
		}
	}
	// (b) a deployment/pool pod with a reserving policy takes a reserved IP of its app, not a fresh one
	if oldF == nil && id.App.Kind == "dp" && id.App.effPolicy() != "" {
		for _, uid := range id.UIDs {
			// only a pod that can still be bound is "scheduled again"; a fresh IP allocated for a pod that was deleted
			// after its filter call is garbage that C03 judges, not a stickiness matter
			if pp := w.podByUID[uid]; pp == nil || w.gone[uid] || pp.finished() {
				continue
			}
			backInReserve := false
			if fw := w.M.filterWin[uid]; fw != nil && fw.tookReserved {
				// the reserved IP the pod was given in filter sits under the app's prefix again (taken back from a pod
				// that is still there to be bound): the fresh IP is given while that very reservation exists
				if f := w.storeFip(fw.tookIP); f != nil && f.Key == id.App.poolPrefix() {
					backInReserve = true
					w.S.Stat("c02.taken-ip-back-in-reserve-at-fresh-create")
				}
			}
			if fw := w.M.filterWin[uid]; fw != nil && fw.closed && ((fw.hadReserve && !fw.tookReserved && !fw.heldOwn) || backInReserve) {
				w.fail("C02.fresh-instead-of-reserved", "fresh-instead-of-reserved",
					"pod %q got fresh IP %s (by %s) although its app held an unowned reserved IP under %q throughout its last filter call (steps %d..)",
					newF.Key, ip, m.By.Name, id.App.poolPrefix(), fw.start)
				return
			}
		}
	}
}

// openFilterWindow is called when a scheduling attempt (Filter) starts for a pod.
func (w *World) openFilterWindow(p *PodInfo) {
	if p.App == nil {
		return
	}
	w.M.filterWin[p.UID] = &filterWindow{app: p.App, hadReserve: w.unownedUnderPrefix(p.App.poolPrefix()) > 0, start: w.S.Steps, gateClosed: w.gateClosed(p.App), maxReplicas: w.replicasNow(p.App),
		heldOwn: len(w.storeIPsOfKey(p.Key)) > 0}
}

// trackFilterWindows is called on every FloatingIP mutation.
func (w *World) trackFilterWindows() {
	for _, uid := range sortedKeys(w.M.filterWin) {
		fw := w.M.filterWin[uid]
		if !fw.closed && fw.hadReserve && w.unownedUnderPrefix(fw.app.poolPrefix()) == 0 {
			fw.hadReserve = false
		}
		if !fw.closed {
			closed, r := w.gateClosedFloor(fw.app, fw.maxReplicas)
			if r > fw.maxReplicas {
				fw.maxReplicas = r
			}
			if fw.gateClosed && !closed {
				fw.gateClosed = false
			}
		}
	}
}

// ---- C07: pool size ---------------------------------------------------------------------------------------

func poolOfKey(key string) string {
	if !strings.HasPrefix(key, "pool__") {
		return ""
	}
	rest := key[len("pool__"):]
	if i := strings.Index(rest, "_"); i >= 0 {
		return rest[:i]
	}
	return ""
}

func (w *World) oracleC07(m *simkube.Mutation, ip string, oldF, newF *FipInfo) {
	if !w.armed("C07") || newF == nil {
		return
	}
	pool := poolOfKey(newF.Key)
	if pool == "" || (oldF != nil && poolOfKey(oldF.Key) == pool) {
		return // the population of the pool did not grow
	}
	start := 0
	if tm, ok := m.By.Data.(*taskMeta); ok && tm != nil {
		start = tm.start
	}
	max, unsized := w.maxPoolSizeSince(pool, start)
	if o := w.K.ViewGet("pools", "kube-system", pool); o != nil {
		var p poolJSON
		_ = json.Unmarshal(o.JSON, &p)
		if p.Size > max {
			max = p.Size
		}
	} else {
		unsized = true
	}
	if m.By != nil && strings.HasPrefix(m.By.Name, "pool-set~") {
		// a create-or-update request stores its size before it pre-allocates and reads the Pool object from the API,
		// not from the lister: it never acts under "no size". It is held to the sizes stored since it started, unless
		// the Pool object has been deleted meanwhile (then no size is in force).
		if w.K.Get("pools", "kube-system", pool) == nil {
			return
		}
		max, _ = maxSizeSince(w.M.poolSize[pool], start)
		unsized = false
		w.S.Stat("c07.prealloc-judged")
	}
	if unsized {
		w.S.Stat("c07.growth-while-unsized")
		return
	}
	w.S.Stat("c07.growth-judged")
	if n := w.countUnderPrefix("pool__" + pool + "_"); n > max {
		// circumstances that make up the finding signature: was some member of the pool allocated by an operation
		// that started while the pool had no size (the Pool object was created while pods were between filter and bind)?
		// signature of the finding: did some member of the pool get its IP from an allocation made at bind time
		// (Bind allocates without the pool lock and without looking at the size)?
		key := "pool-overgrown"
		explained, unexplained := 0, 0
		for _, x := range sortedKeys(w.M.allocs) {
			if al := w.M.allocs[x]; poolOfKey(al.Key) == pool && al.BindTime {
				if al.BindReason != "" {
					explained++
				} else {
					unexplained++
				}
			}
		}
		switch {
		case unexplained > 0:
			// a pod that was filtered while the pool was sized and visible and whose filter-time IP was not taken back
			// still got its IP only at bind time: not the recorded finding
			key = "pool-overgrown:bind-time-allocation-after-sized-filter"
		case explained > 0:
			key = "pool-overgrown:bind-time-allocation"
		}
		w.fail("C07.pool-overgrown", key, "pool %q now holds %d IPs (added %s under %q by %s), largest size in force since step %d is %d",
			pool, n, ip, newF.Key, m.By.Name, start, max)
	}
}

// ---- C09: reserved / de-configured IPs, lossless reload ---------------------------------------------------

func (w *World) oracleC09Store(m *simkube.Mutation, ip string, oldF, newF *FipInfo) {
	if !w.armed("C09") {
		return
	}
	// a reload deletes only objects that are absent from the configuration version it read
	if newF == nil && (m.By.Tag == "reload" || m.By.Tag == "periodic-reload") {
		if tm, ok := m.By.Data.(*taskMeta); ok && tm != nil && tm.confRead >= 0 {
			if _, inConf := w.confVers[tm.confRead][ip]; inConf {
				w.fail("C09.reload-dropped-configured-ip", "reload-dropped-configured-ip",
					"reload %s read configuration version %d, which contains %s, and deleted its FloatingIP (key %q)", m.By.Name, tm.confRead, ip, oldF.Key)
			}
		}
	}
}

// ---- quiescent checks -----------------------------------------------------------------------------------

func (w *World) quiescentChecks(tag string, afterResync bool) {
	mem := w.memdump[tag]
	if mem == nil {
		w.S.Infra = "memory dump " + tag + " missing"
		return
	}
	// abstract state for the evidence: (allocated count, reserved-under-prefix count, live pods)
	alloc := 0
	for _, e := range mem {
		if e.Key != "" {
			alloc++
		}
	}
	w.S.Note("quiescent %s: %d/%d allocated, %d pods", tag, alloc, len(mem), len(w.pods))
	if w.armed("C05") {
		// restart/crash safety and agreement at the end of every history
		w.evalMemcheck(tag)
	}
	if w.armed("C09") && tag == "q1" {
		// convergence: faults have stopped and the periodic reload had three periods: the configuration in force is the
		// newest one (a reload that failed is retried), and memory agrees with the store
		if cs, idx := w.confInForceIdx(mem); idx != len(w.confVers)-1 {
			_ = cs
			w.fail("C09.reload-not-converged", "reload-not-converged",
				"three reload periods after the last change and the last fault the configuration in force is version %d, the configmap holds version %d", idx, len(w.confVers)-1)
		} else {
			w.evalMemcheck(tag)
			if w.S.Viol == nil && w.S.Stats["fault.api.err"] == 0 {
				// "... and drops exactly the others": once the newest configuration is in force no object is left for an
				// IP outside it (judged only in runs without an injected API failure: a reload whose delete failed is
				// documented to retry the deletion at the next change of the configuration only)
				for _, o := range w.K.List("floatingips", "") {
					// (an administrator's labelled object for an address outside the configuration is the administrator's business)
					if f := decodeFip(o); !w.inNewestConfRaw(f.IP) && !f.Reserved {
						w.fail("C09.deconfigured-allocation-not-dropped", "deconfigured-allocation-not-dropped",
							"the newest configuration (version %d) is in force and does not contain %s, yet its FloatingIP object (key %q) still exists", len(w.confVers)-1, f.IP, f.Key)
						break
					}
				}
			}
		}
	}
	if w.armed("C08") && tag == "q1" {
		// "none of the k IPs stays allocated" holds for the tables too: an IP that a failed request left allocated in
		// memory only is as unusable as one left in the store
		w.evalMemcheck(tag)
	}
	if afterResync && w.armed("C03", "C05") {
		w.leakCheck()
	}
	if afterResync && w.armed("C05") {
		w.survivorCheck()
	}
	w.states = append(w.states, fmt.Sprintf("a%d/%d-p%d-f%d", alloc, len(mem), len(w.pods), len(w.K.List("floatingips", ""))))
}

func sortedKeys[V any](m map[string]V) []string {
	ks := make([]string, 0, len(m))
	for k := range m {
		ks = append(ks, k)
	}
	sort.Strings(ks)
	return ks
}

// leakCheck (C03): once pending pod events have been handled and one resync pass has run, no IP stays assigned
// to a pod that no longer exists (or has finished) unless its policy reserves it.
func (w *World) leakCheck() {
	for _, o := range w.K.List("floatingips", "") {
		f := decodeFip(o)
		if !isPodKey(f.Key) || !w.inNewestConf(f.IP) {
			continue
		}
		id := w.M.idents[f.Key]
		if id == nil {
			continue
		}
		if w.livePodWithKey(f.Key) != nil {
			continue
		}
		if ok, why := w.reservedByPolicy(id); !ok {
			w.fail(w.prop+".leak", "leak:"+id.App.Kind+"/"+id.App.effPolicy(),
				"after event handling and one resync pass, FloatingIP %s is still assigned to %q whose pod is gone or finished: %s", f.IP, f.Key, why)
			return
		}
	}
}

// survivorCheck (C05): after a restart followed by resync no IP is owned twice and every existing bound pod
// still owns the IP it was bound with.
func (w *World) survivorCheck() {
	seen := map[string]*PodInfo{}
	for _, k := range w.sortedPodKeys() {
		p := w.pods[k]
		if !p.live() || p.Node == "" {
			continue
		}
		for _, ip := range p.IPs {
			if !w.inNewestConf(ip) {
				continue
			}
			if q := seen[ip]; q != nil {
				w.fail("C05.double-owner", "double-owner", "after recovery IP %s is carried by two live pods %s and %s", ip, q.key(), p.key())
				return
			}
			seen[ip] = p
			f := w.storeFip(ip)
			if f == nil || f.Key != p.Key {
				owner := "<nobody>"
				if f != nil {
					owner = f.Key
				}
				w.fail("C05.bound-pod-lost-ip", w.c04Key("bound-pod-lost-ip", p.Key, 0), "after recovery the live bound pod %s (uid %s) no longer owns its IP %s: store owner %s", p.key(), p.UID, ip, owner)
				return
			}
		}
	}
}

// ---- C08: multi-IP requests ------------------------------------------------------------------------------

func (w *World) oracleC08Bind(p *PodInfo) {
	rs := p.Ranges
	if len(p.IPs) != len(rs) {
		w.fail("C08.wrong-number-of-ips", "wrong-number-of-ips", "pod %s requested %d ranges %v and was bound with %d IPs %v", p.key(), len(rs), rs, len(p.IPs), p.IPs)
		return
	}
	seen := map[string]bool{}
	nodeSub := w.topo.SubnetOfNode(p.Node)
	for i, ip := range p.IPs {
		if seen[ip] {
			w.fail("C08.duplicate-ip", "duplicate-ip", "pod %s bound with %v: %s twice", p.key(), p.IPs, ip)
			return
		}
		seen[ip] = true
		if !hasStr(rs[i], ip) {
			w.fail("C08.ip-outside-range", "ip-outside-range", "pod %s: IP #%d %s is not in requested range #%d %v (all: %v)", p.key(), i, ip, i, rs[i], p.IPs)
			return
		}
		// routable: in some configuration version that may be in force, the IP's pool lists the node's subnet
		ok := false
		for _, cs := range w.confVers {
			if pool := cs[ip]; pool != nil && w.topo.NodeIn(p.Node, pool.NodeSubnets) {
				ok = true
			}
		}
		if !ok {
			w.fail("C08.ip-not-routable", "ip-not-routable", "pod %s on node %s (%s) bound with %s which is routable from no pool of that subnet", p.key(), p.Node, nodeSub, ip)
			return
		}
	}
	w.S.Stat("c08.multi-ip-binds")
}

// oracleC08Failed: a bind that failed must leave the identity with exactly the IPs it had before.
func (w *World) oracleC08Failed(br *bindReport) {
	if !w.armed("C08") {
		return
	}
	p := w.podByUID[br.UID]
	if p == nil || p.App == nil || len(p.Ranges) == 0 {
		return
	}
	// only failures of the allocation itself are in the property's scope: a range that cannot be satisfied or a
	// FloatingIP object creation that failed. A failing pods/binding call, cloud-provider call or attribute update of
	// a pre-owned IP keeps the allocation for the retry by design.
	// ... or the documented refusal to reuse an IP that still carries the previous incarnation's UID ("if that is not
	// possible": nothing may have been allocated for the other ranges by then)
	inScope := strings.Contains(br.Err, "no enough available ips") || strings.Contains(br.Err, "enumerated fault") || strings.Contains(br.Err, "waiting for delete event") ||
		// "ip allocated to <key> is gone": the lookup after the allocation did not find what was just allocated; C08 runs have
		// no reload or release that could take it away, so the request was satisfiable and nothing may stay allocated
		strings.Contains(br.Err, "is gone, retry later")
	if strings.Contains(br.Err, "update pod ") || strings.Contains(br.Err, "failed to assign ip") || strings.Contains(br.Err, "release policy") {
		inScope = false
	}
	if !inScope {
		return
	}
	if w.schedTouched[br.UID] {
		w.S.Stat("c08.failed-bind-not-judged")
		return // somebody else changed the identity's IPs meanwhile
	}
	before, _ := w.schedBefore[br.UID]
	now := w.storeIPsOfKey(p.Key)
	if strings.Join(before, ",") != strings.Join(now, ",") {
		w.fail("C08.partial-allocation-left", "partial-allocation-left",
			"bind of %s failed (%s) but the identity %q holds %v, before the attempt it held %v", p.key(), br.Err, p.Key, now, before)
		return
	}
	w.S.Stat("probe.c08-failed-bind-rolled-back")
}

// c04Key builds the finding signature of a violation caused by a release/re-key/unassign "by key": the circumstance
// "the identity's key held IPs recorded for two different pod incarnations at some instant of the run" is part of the
// signature, so that a violation without that circumstance is never mistaken for the recorded finding.
// c10Key: as c04Key, plus the circumstance "the identity held several IPs at once" (a multi-IP pod): the cloud-provider
// bookkeeping of galaxy-ipam is per key in several places (only the examined IP is unassigned before all IPs of the key
// are cleared or freed; a partially assigned multi-IP bind is retried on another node without unassigning).
func (w *World) c10Key(base, identity string) string {
	if w.M.multiIP[identity] {
		return base + ":pod-held-several-ips"
	}
	if w.M.mixedUIDs[identity] {
		return base + ":identity-held-ips-of-two-incarnations"
	}
	return base
}

func (w *World) c04Key(base, identity string, atLeast int) string {
	if w.M.mixedUIDs[identity] {
		return base + ":identity-held-ips-of-two-incarnations"
	}
	return base
}

// identityEverHadRanges: some incarnation of the identity requested IP ranges (then it may legitimately hold several IPs).
func (w *World) identityEverHadRanges(key string) bool {
	id := w.M.idents[key]
	if id == nil {
		return false
	}
	for _, uid := range id.UIDs {
		if p := w.podByUID[uid]; p != nil && len(p.Ranges) > 0 {
			return true
		}
	}
	return false
}

// gateClosed: the pods of a deployment with a reserving policy hold at least as many IPs as the deployment has
// replicas (API truth or lister view, whichever is larger), and no Pool size is in play.
func (w *World) gateClosed(a *App) bool {
	closed, _ := w.gateClosedFloor(a, 0)
	return closed
}

// gateClosedFloor judges the gate against the larger of the replica count now (API truth or lister view) and floor, the
// largest count seen earlier in the same filter call: galaxy reads the replica count once, at the start of its filter
// call, and may decide on that value much later. It also returns the replica count it used.
func (w *World) gateClosedFloor(a *App, floor int) (bool, int) {
	if a == nil || a.Kind != "dp" || a.effPolicy() == "" {
		return false, 0
	}
	own := a.poolPrefix()
	if a.Pool != "" {
		if w.K.Get("pools", "kube-system", a.Pool) != nil || w.K.ViewGet("pools", "kube-system", a.Pool) != nil {
			return false, 0 // sized pool: C07's business
		}
		own = "pool__" + a.Pool + "_dp_" + a.NS + "_" + a.Name + "_"
	}
	used := 0
	for _, o := range w.K.List("floatingips", "") {
		if f := decodeFip(o); strings.HasPrefix(f.Key, own) && f.Key != a.poolPrefix() {
			used++
		}
	}
	replicas := a.Replicas
	if !a.Exists {
		replicas = 0
	}
	if o := w.K.ViewGet("deployments", a.NS, a.Name); o != nil {
		var d struct {
			Spec struct {
				Replicas int `json:"replicas"`
			} `json:"spec"`
		}
		_ = json.Unmarshal(o.JSON, &d)
		if d.Spec.Replicas > replicas {
			replicas = d.Spec.Replicas
		}
	}
	if floor > replicas {
		replicas = floor
	}
	return replicas > 0 && used >= replicas, replicas
}

// replicasNow: the deployment's replica count as galaxy may read it now (API truth or lister view, whichever is larger).
func (w *World) replicasNow(a *App) int {
	_, r := w.gateClosedFloor(a, 0)
	return r
}
