package main

// Oracles of W1. Event oracles run at the instant the API server applies a mutation or the cloud provider
// receives a call; quiescent checks run when nothing is in flight. Only the clauses of the property being
// checked are armed.

import (
	"fmt"
	"sort"

	"tkestack.io/galaxy/verifsim/simkube"
)

func (w *World) armed(props ...string) bool {
	for _, p := range props {
		if w.prop == p {
			return true
		}
	}
	return false
}

// worldMutation reports whether the store mutation was made by the world itself (administrator, controllers)
// rather than by galaxy-ipam.
func worldMutation(m *simkube.Mutation) bool { return m.By == nil || m.By.Proc == 0 }

func (w *World) storeFip(ip string) *FipInfo { return decodeFip(w.K.Get("floatingips", "", ip)) }

// ---- binding applied ------------------------------------------------------------------------------------

func (w *World) oracleOnBind(p *PodInfo, m *simkube.Mutation) {
	if len(p.IPs) == 0 {
		return
	}
	if w.armed("C01") {
		for _, ip := range p.IPs {
			for _, q := range w.livePodsWithIP(ip) {
				if q.UID != p.UID {
					w.fail("C01.double-bound", "double-bound",
						"IP %s handed to pod %s (uid %s) while live pod %s (uid %s, bound at step %d) holds it", ip, p.key(), p.UID, q.key(), q.UID, q.BoundStep)
					return
				}
			}
			if f := w.storeFip(ip); w.inNewestConf(ip) && (f == nil || f.Key != p.Key) {
				owner := "<nobody>"
				if f != nil {
					owner = f.Key
				}
				w.fail("C01.bound-ip-not-owned", "bound-ip-not-owned",
					"pod %s was bound with IP %s but the store records owner %q, expected %q", p.key(), ip, owner, p.Key)
				return
			}
		}
	}
	if w.armed("C10") && w.withCloud {
		for _, ip := range p.IPs {
			if w.cloud[ip] != p.Node {
				w.fail("C10.bound-ip-not-assigned", "bound-ip-not-assigned",
					"pod %s bound to node %s with IP %s, but the provider has it assigned to %q", p.key(), p.Node, ip, w.cloud[ip])
				return
			}
		}
	}
}

// ---- FloatingIP store mutations -------------------------------------------------------------------------

func (w *World) oracleOnFip(m *simkube.Mutation) {
	if worldMutation(m) {
		return
	}
	var ip string
	if m.Old != nil {
		ip = m.Old.Name
	} else {
		ip = m.New.Name
	}
	oldF, newF := decodeFip(m.Old), decodeFip(m.New)
	if w.armed("C04") {
		for _, p := range w.livePodsWithIP(ip) {
			if !w.inNewestConf(ip) {
				continue
			}
			switch {
			case newF == nil:
				w.fail("C04.live-ip-released", "live-ip-released",
					"FloatingIP %s (owner %q uid %q) deleted by %s while live pod %s (uid %s, bound at step %d) holds it",
					ip, oldF.Key, oldF.UID, m.By.Name, p.key(), p.UID, p.BoundStep)
				return
			case newF.Key != p.Key:
				w.fail("C04.live-ip-rekeyed", "live-ip-rekeyed",
					"FloatingIP %s re-keyed from %q to %q by %s while live pod %s (uid %s) holds it", ip, oldKey(oldF), newF.Key, m.By.Name, p.key(), p.UID)
				return
			case newF.UID != "" && newF.UID != p.UID:
				w.fail("C04.live-ip-handed-on", "live-ip-handed-on",
					"FloatingIP %s now records pod uid %q (by %s) while live pod %s (uid %s) holds it", ip, newF.UID, m.By.Name, p.key(), p.UID)
				return
			}
		}
	}
	if w.armed("C10") && w.withCloud && w.inNewestConf(ip) {
		freed := newF == nil
		moved := oldF != nil && newF != nil && oldF.Key != newF.Key && isPodKey(oldF.Key)
		if (freed || moved) && w.cloud[ip] != "" {
			what := "freed"
			if moved {
				what = fmt.Sprintf("handed from %q to %q", oldF.Key, newF.Key)
			}
			w.fail("C10.freed-while-assigned", "freed-while-assigned",
				"FloatingIP %s %s by %s while the provider still has it assigned to node %s", ip, what, m.By.Name, w.cloud[ip])
		}
	}
}

func oldKey(f *FipInfo) string {
	if f == nil {
		return ""
	}
	return f.Key
}

// isPodKey reports whether a key names a pod (as opposed to a pool/app prefix or an admin reservation).
func isPodKey(k string) bool {
	if k == "" || k[len(k)-1] == '_' {
		return false
	}
	n := 0
	for i := 0; i < len(k); i++ {
		if k[i] == '_' {
			n++
		}
	}
	return n >= 3
}

// ---- cloud provider -------------------------------------------------------------------------------------

func (w *World) oracleOnCloudAssign(node, ip string) {
	if w.armed("C10") {
		if cur := w.cloud[ip]; cur != "" && cur != node {
			w.fail("C10.assign-while-assigned", "assign-while-assigned",
				"AssignIP(%s -> %s) while the provider still has it assigned to %s", ip, node, cur)
		}
	}
}

func (w *World) oracleOnCloudUnassign(node, ip string) {
	if w.armed("C04") {
		for _, p := range w.livePodsWithIP(ip) {
			if w.inNewestConf(ip) {
				w.fail("C04.live-ip-unassigned", "live-ip-unassigned",
					"UnAssignIP(%s from %s) while live pod %s (uid %s) on node %s holds it", ip, node, p.key(), p.UID, p.Node)
				return
			}
		}
	}
}

// ---- hooks used by other properties (filled in by their files) -----------------------------------------

func (w *World) oracleOnFiltered(fr *filterReport)    {}
func (w *World) oracleOnPodCreated(p *PodInfo)        {}
func (w *World) oracleOnPodEnds(p *PodInfo, why string) {}
func (w *World) oracleOnAppDeleted(a *App)            {}
func (w *World) oracleOnAdminRelease(f *FipInfo)      {}

// ---- quiescent checks -----------------------------------------------------------------------------------

func (w *World) quiescentChecks(tag string, afterResync bool) {
	mem := w.memdump[tag]
	if mem == nil {
		w.S.Infra = "memory dump " + tag + " missing"
		return
	}
	// abstract state for the evidence: (allocated count, reserved-under-prefix count, live pods)
	alloc := 0
	for _, e := range mem {
		if e.Key != "" {
			alloc++
		}
	}
	w.S.Note("quiescent %s: %d/%d allocated, %d pods", tag, alloc, len(mem), len(w.pods))
	w.states = append(w.states, fmt.Sprintf("a%d/%d-p%d-f%d", alloc, len(mem), len(w.pods), len(w.K.List("floatingips", ""))))
}

func sortedKeys[V any](m map[string]V) []string {
	ks := make([]string, 0, len(m))
	for k := range m {
		ks = append(ks, k)
	}
	sort.Strings(ks)
	return ks
}
