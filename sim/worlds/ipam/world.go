package main

// Scheduler-side code of world W1 (galaxy-ipam): API server, informer delivery, workload controllers,
// kubelet, admin, faults, crash/restart, and the oracles.

import (
	"encoding/json"
	"fmt"
	"sort"
	"strconv"
	"strings"

	appsv1 "k8s.io/api/apps/v1"
	corev1 "k8s.io/api/core/v1"
	extv1 "k8s.io/apiextensions-apiserver/pkg/apis/apiextensions/v1"
	"k8s.io/apimachinery/pkg/api/resource"
	metav1 "k8s.io/apimachinery/pkg/apis/meta/v1"
	"k8s.io/apimachinery/pkg/types"
	"tkestack.io/galaxy/verifsim/core"
	"tkestack.io/galaxy/verifsim/simkube"
)

const (
	annPolicy = "k8s.v1.cni.galaxy.io/release-policy"
	annArgs   = "k8s.v1.cni.galaxy.io/args"
	annPool   = "tke.cloud.tencent.com/eni-ip-pool"
	resName   = "tke.cloud.tencent.com/eni-ip"
)

// App is a workload.
type App struct {
	Kind      string // sts, dp, tapp, foo (unknown owner kind), bare
	NS, Name  string
	Policy    string // "", immutable, never
	Pool      string
	Replicas  int
	Exists    bool       // the workload object exists in the API
	Ranges    [][]string // request_ip_range for its pods
	rsGen     int
	podSeq    int
	Deleted   bool   // app object deleted (pods may linger)
	CRKind    string // for Kind tapp: which scalable custom resource the workload is (TApp or Bar)
	OwnerKind string // for Kind foo: the (unknown) owner kind of its pods, e.g. Foo, Wordpress, Redis
}

func (a *App) typePrefix() string {
	switch a.Kind {
	case "sts":
		return "sts_"
	case "dp":
		return "dp_"
	case "tapp":
		return strings.ToLower(a.crKind()) + "_"
	case "foo":
		switch strings.ToLower(a.ownerKind()) {
		case "statefulset", "statefulsets":
			return "sts_"
		case "deployment", "replicaset":
			return "dp_"
		}
		return strings.ToLower(a.ownerKind()) + "_"
	}
	return "NULL_"
}

// crKind / crGroup / crRes describe the scalable custom resource of a Kind-tapp workload: two CRDs with a scale
// sub-resource exist in the cluster (a cache that mixes them up resolves every kind to the same resource).
func (a *App) crKind() string {
	if a.CRKind == "" {
		return "TApp"
	}
	return a.CRKind
}
func (a *App) crGroup() string {
	if a.crKind() == "Bar" {
		return "example.com"
	}
	return "apps.tkestack.io"
}
func (a *App) crRes() string { return "cr:" + strings.ToLower(a.crKind()) + "s" }

func (a *App) ownerKind() string {
	if a.OwnerKind == "" {
		return "Foo"
	}
	return a.OwnerKind
}

func (a *App) appNameInKey() string {
	if a.Kind == "bare" {
		return "NULL"
	}
	return a.Name
}

// poolPrefix is the documented prefix under which a deployment's / pool's reserved IPs are kept.
func (a *App) poolPrefix() string {
	if a.Pool != "" {
		return "pool__" + a.Pool + "_"
	}
	return a.typePrefix() + a.NS + "_" + a.appNameInKey() + "_"
}

func (a *App) keyOf(pod string) string {
	p := ""
	if a.Pool != "" {
		p = "pool__" + a.Pool + "_"
	}
	return p + a.typePrefix() + a.NS + "_" + a.appNameInKey() + "_" + pod
}

// effective policy: a pool annotation forces never (doc/float-ip.md)
func (a *App) effPolicy() string {
	if a.Pool != "" {
		return "never"
	}
	return a.Policy
}

// PodInfo is the world's view of a pod in API truth.
type PodInfo struct {
	NS, Name, UID string
	Phase         string
	Node          string
	App           *App
	Key           string
	IPs           []string // from the binding annotation
	IPInfos       []ipInfoJSON
	BoundStep     int
	Index         int        // ordinal for sts/tapp pods, -1 otherwise
	Ranges        [][]string // request_ip_range of this pod (the workload's template may change later)
	Terminating   bool       // deletionTimestamp set (graceful deletion in progress): the pod still exists and runs
}

func (p *PodInfo) key() string    { return p.NS + "/" + p.Name }
func (p *PodInfo) finished() bool { return p.Phase == "Succeeded" || p.Phase == "Failed" }
func (p *PodInfo) live() bool     { return !p.finished() }

type ipInfoJSON struct {
	IP      string `json:"ip"`
	Vlan    int    `json:"vlan"`
	Gateway string `json:"gateway"`
}

type cniArgsJSON struct {
	RequestIPRange [][]string `json:"request_ip_range,omitempty"`
	Common         struct {
		IPInfos []ipInfoJSON `json:"ipinfos,omitempty"`
	} `json:"common"`
}

// FipInfo is the decoded spec of a stored FloatingIP object.
type FipInfo struct {
	IP, Key  string
	Policy   int
	Node     string
	UID      string
	Reserved bool
}

type fipJSON struct {
	Metadata struct {
		Name   string            `json:"name"`
		Labels map[string]string `json:"labels"`
	} `json:"metadata"`
	Spec struct {
		Key       string `json:"key"`
		Attribute string `json:"attribute"`
		Policy    int    `json:"policy"`
	} `json:"spec"`
}

func decodeFip(o *simkube.Obj) *FipInfo {
	if o == nil {
		return nil
	}
	var f fipJSON
	if err := json.Unmarshal(o.JSON, &f); err != nil {
		panic(err)
	}
	fi := &FipInfo{IP: f.Metadata.Name, Key: f.Spec.Key, Policy: f.Spec.Policy}
	if f.Spec.Attribute != "" {
		var a struct{ NodeName, Uid string }
		_ = json.Unmarshal([]byte(f.Spec.Attribute), &a)
		fi.Node, fi.UID = a.NodeName, a.Uid
	}
	_, fi.Reserved = f.Metadata.Labels["reserved"]
	return fi
}

// Profile selects what a run of a property exercises.
type Profile struct {
	Ops          [2]int // min,max operations
	Cloud        int    // probability (of 4) that the cloud provider is on
	Faults       bool   // api.err faults allowed
	LostReply    bool
	Crash        bool
	Relist       bool
	Reload       bool
	Typo         bool // the configmap may be published with one mistyped range (the reload has to refuse it as a whole)
	Restore      bool // reloads may bring back the range dropped last (C03: lost records are adopted again)
	AdminRelease bool
	AdminList    bool
	PoolAPI      bool
	Reserve      bool
	Ranges       bool
	Collect      bool
	CloudErr     bool
	Kinds        []string
	Policies     []string
	Pools        bool
	Finish       bool
	Stall        bool
	Probe        string
	Hostile      bool
}

var defaultKinds = []string{"sts", "dp", "tapp", "foo", "bare"}

func profileFor(prop string) Profile {
	p := Profile{Ops: [2]int{10, 45}, Cloud: 1, Kinds: defaultKinds, Policies: []string{"", "immutable", "never"}, Pools: true, Finish: true}
	switch prop {
	case "C01":
		p.Faults, p.LostReply, p.Crash, p.Relist, p.Reload, p.AdminRelease, p.Stall = true, true, true, true, true, true, true
		// a dropped range coming back: a record lost while its pod runs is adopted again by the pod-IP sync pass, and the
		// adopted record has to protect the running pod like one written by bind (double-bound is judged per allocation)
		p.Restore = true
	case "C04":
		p.Relist, p.AdminRelease, p.Reload, p.LostReply, p.Stall = true, true, true, true, true
		p.Cloud = 2
	case "C10":
		p.Cloud = 4
		p.CloudErr, p.Relist, p.AdminRelease = true, true, true
		p.Stall = true
		p.Ranges = true // pods with several IPs: the provider is asked once per IP, each call may fail on its own
		// reloads, and a dropped range coming back: a record lost while its pod runs is adopted again by the pod-IP sync
		p.Reload, p.Restore = true, true
	case "C02":
		p.Ops = [2]int{15, 50}
		p.Stall = true
		p.Reload, p.Crash = true, true // histories include restarts and reloads: the tables are rebuilt from the store
		p.Typo = true
		p.Relist = true // a dropped watch: the informer re-lists and events arrive late or as tombstones
	case "C03":
		p.Relist, p.AdminRelease = true, true
		p.Ops = [2]int{15, 50}
		p.Stall = true
		p.Reload, p.Crash = true, true // histories include restarts and reloads: the tables are rebuilt from the store
		p.Restore = true
	case "C07":
		p.PoolAPI, p.Pools = true, true
		p.Kinds = []string{"dp", "dp", "dp", "sts"}
		p.Policies = []string{"", "immutable", "never", "never"}
		p.Stall = true
	case "C09":
		p.Reload, p.Reserve = true, true
		p.Typo = true
		p.Probe = "memcheck"
		p.Faults = true // not in the property's quantifier; a reload that failed once must still be retried (convergence clause)
	case "C05":
		p.Probe = "memcheck"
		p.Reload, p.AdminRelease = true, true
		p.Reserve = true // an administrator's labelled FloatingIP objects change the tables through watch events
		p.Ranges = true  // multi-IP requests: the rollback path of AllocateInSubnetsAndIPRange is part of "every operation"
		p.Ops = [2]int{6, 18}
	case "C06":
		p.Probe = "c06"
		p.Ranges = true
		p.Reload = true
	case "C11":
		p.Probe = "c11"
		p.AdminRelease = true
	case "C08":
		p.Ranges = true
		p.Ops = [2]int{8, 22}
		p.Kinds = []string{"sts", "tapp", "bare", "dp"}
	case "C18":
		p.Hostile = true
		p.AdminRelease, p.AdminList, p.PoolAPI, p.Reload, p.Ranges, p.Relist = true, true, true, true, true, true
	case "C19":
		p.Faults, p.Crash, p.Relist, p.Reload, p.AdminRelease, p.AdminList, p.PoolAPI, p.Reserve, p.Ranges, p.Collect = true, false, true, true, true, true, true, true, true, true
		p.Cloud = 2
		p.Stall = true
	}
	return p
}

// World is W1.
type World struct {
	S    *core.Sim
	C    *core.Choices
	K    *simkube.Kube
	prop string
	tier string
	prof Profile

	topo     *Topo
	confVers []ConfSet
	apps     []*App
	pods     map[string]*PodInfo // API truth, key ns/name
	podByUID map[string]*PodInfo // every pod ever created (kept after deletion)
	gone     map[string]bool     // uid -> deleted from API

	inst      *Instance
	proc      int
	ready     bool
	crashed   bool
	withCloud bool

	phase     int // 0 init, 1 work, 2 drain, 3 final checks, 4 post-resync drain, 5 done
	opsLeft   int
	opsDone   int
	busy      map[string]*core.Task // informer kind -> running handler task
	schedBusy map[string]*core.Task // pod uid -> scheduling attempt in flight
	inflight  []*core.Task          // admin/resync/... tasks in flight

	// faults
	faultMode int // 0 none, 1 single, 2 rate
	faultAt   int
	faultRate int
	lostReply bool
	apiCalls  int
	cloudErr  int // per-mille
	faultsOn  bool

	cloud    map[string]string // ip -> node as the provider sees it
	cloudLog []string

	key                            string // finding key of the violation
	summary                        []string
	memdump                        map[string][]memEntry
	finalStage                     int
	resyncDone                     bool
	dumpWanted                     string
	http                           []httpReport
	states                         []string
	opGap, lastOpStep, lastAdvStep int
	unsched                        map[string]bool
	M                              *modelState
	taskSeq                        int
	probe                          *probeState
	wantProbe                      string
	probeSeq                       int
	probeFaultsSaved               bool
	lostReplies                    int
	staleFips                      []*FipInfo          // entries of earlier listings an administrator may still act on
	poolBodies                     map[string][][]byte // pool name -> bodies of earlier create-or-update requests
	aheadNum                       int                 // of 8: how often kube-scheduler works on a pod galaxy-ipam's informer has not seen yet (per-run swarm parameter)
	everDropped                    map[string]bool
	adoptedBy                      map[string]string // ip -> uid of the live pod galaxy last wrote a record for (C01 scope of once-dropped IPs)
	typoActive                     bool              // the configmap holds a text with a mistyped range (refused as a whole by galaxy-ipam)
	cloudStale                     map[string]bool   // provider assignments whose record was dropped by a configuration change (C10)
	rebuilds                       []int             // steps at which galaxy-ipam listed the stored FloatingIPs (tables rebuilt from the store)
	memVer                         int               // configuration version the tables were last known to hold (raised when a reload or a start completes)
	inForceLB                      int               // oldest configuration version that can still be in force (C09)
	plan                           *faultPlan
	planFired                      bool
	recovering                     bool
	schedBefore                    map[string][]string
	schedTouched                   map[string]bool
	hostileSeq                     int
	settleRounds                   int
	periodicReload                 *core.Task
	stalled                        map[*core.Task]int // task -> scheduler step until which it is not scheduled (sched.stall)
	hostileConfActive              bool
}

func (w *World) fail(oracle, key, format string, a ...interface{}) {
	if w.S.Viol == nil {
		w.key = key
		w.S.Fail(oracle, format, a...)
	}
}

// ---------------------------------------------------------------------------------------------------------
// construction

func newWorld(s *core.Sim, prop, tier string) *World {
	w := &World{S: s, C: s.C, prop: prop, tier: tier, prof: profileFor(prop), pods: map[string]*PodInfo{}, podByUID: map[string]*PodInfo{},
		gone: map[string]bool{}, busy: map[string]*core.Task{}, schedBusy: map[string]*core.Task{}, cloud: map[string]string{}, memdump: map[string][]memEntry{}, unsched: map[string]bool{}, M: newModel(), schedBefore: map[string][]string{}, schedTouched: map[string]bool{}, stalled: map[*core.Task]int{}, poolBodies: map[string][][]byte{}}
	w.K = simkube.New(s)
	w.K.OnMutate = w.onMutate
	s.OnPanic = w.onPanic
	s.OnLockLeak = w.onLockLeak
	s.Hide = func(t *core.Task) bool {
		if t == w.periodicReload && t.AtSleep() && w.triggeredReloadInFlight() {
			// the real daemon reloads from one goroutine only: the periodic reload does not start next to a reload that
			// the world triggered through the hook (simulated time creeps forward with every call, so guarding the
			// explicit clock advance alone is not enough)
			return true
		}
		until, ok := w.stalled[t]
		if !ok {
			return false
		}
		if w.S.Steps >= until {
			delete(w.stalled, t)
			return false
		}
		return true
	}
	c := w.C
	w.topo = genTopo(c)
	w.confVers = append(w.confVers, w.topo.Snapshot())
	w.opsLeft = c.Range(w.prof.Ops[0], w.prof.Ops[1])
	w.withCloud = c.Choose(4) < w.prof.Cloud
	w.opGap = []int{0, 6, 20, 50}[c.Choose(4)]
	w.aheadNum = []int{1, 1, 3}[c.Choose(3)]
	if w.prof.Faults || w.prof.LostReply || w.prof.CloudErr {
		w.faultMode = c.Choose(3)
		switch w.faultMode {
		case 1:
			w.faultAt = 5 + c.Choose(120)
		case 2:
			w.faultRate = 5 + c.Choose(40)
		}
		if w.prof.LostReply {
			w.lostReply = c.Prob(1, 2)
		}
		if w.prof.CloudErr && w.faultMode != 0 {
			w.cloudErr = 50 + c.Choose(250)
		}
	}
	w.faultsOn = true
	// static cluster objects
	for _, n := range w.topo.Nodes {
		// a node reports several addresses; the internal one is what the node subnets are about, wherever it is listed
		addrs := []corev1.NodeAddress{{Type: corev1.NodeInternalIP, Address: n.IP}}
		switch c.Choose(4) {
		case 1:
			addrs = append([]corev1.NodeAddress{{Type: corev1.NodeHostName, Address: n.Name}}, addrs...)
		case 2:
			addrs = append([]corev1.NodeAddress{{Type: corev1.NodeExternalIP, Address: "10.2.0.77"}, {Type: corev1.NodeHostName, Address: n.Name}}, addrs...)
		case 3:
			addrs = append(addrs, corev1.NodeAddress{Type: corev1.NodeExternalIP, Address: "10.1.0.78"})
		}
		node := corev1.Node{TypeMeta: metav1.TypeMeta{Kind: "Node", APIVersion: "v1"}, ObjectMeta: metav1.ObjectMeta{Name: n.Name},
			Status: corev1.NodeStatus{Addresses: addrs}}
		w.mustCreate("nodes", node)
	}
	w.mustCreate("configmaps", corev1.ConfigMap{TypeMeta: metav1.TypeMeta{Kind: "ConfigMap", APIVersion: "v1"},
		ObjectMeta: metav1.ObjectMeta{Name: "floatingip-config", Namespace: "kube-system"}, Data: map[string]string{"floatingips": w.topo.JSON()}})
	// the TApp CRD (scale sub-resource with .spec.replicas) so that immutable works for custom workloads
	w.mustCreate("crds", extv1.CustomResourceDefinition{TypeMeta: metav1.TypeMeta{Kind: "CustomResourceDefinition", APIVersion: "apiextensions.k8s.io/v1"},
		ObjectMeta: metav1.ObjectMeta{Name: "tapps.apps.tkestack.io"},
		Spec: extv1.CustomResourceDefinitionSpec{Group: "apps.tkestack.io", Names: extv1.CustomResourceDefinitionNames{Kind: "TApp", Plural: "tapps"},
			Versions: []extv1.CustomResourceDefinitionVersion{{Name: "v1", Served: true, Storage: true,
				Subresources: &extv1.CustomResourceSubresources{Scale: &extv1.CustomResourceSubresourceScale{SpecReplicasPath: ".spec.replicas"}}}}}})
	// a second scalable custom resource
	w.mustCreate("crds", extv1.CustomResourceDefinition{TypeMeta: metav1.TypeMeta{Kind: "CustomResourceDefinition", APIVersion: "apiextensions.k8s.io/v1"},
		ObjectMeta: metav1.ObjectMeta{Name: "bars.example.com"},
		Spec: extv1.CustomResourceDefinitionSpec{Group: "example.com", Names: extv1.CustomResourceDefinitionNames{Kind: "Bar", Plural: "bars"},
			Versions: []extv1.CustomResourceDefinitionVersion{{Name: "v1", Served: true, Storage: true,
				Subresources: &extv1.CustomResourceSubresources{Scale: &extv1.CustomResourceSubresourceScale{SpecReplicasPath: ".spec.replicas"}}}}}})
	// initial population: a few workloads with their pods already created (not counted as operations)
	for i, n := 0, c.Range(1, 3); i < n; i++ {
		w.opCreateApp()
		a := w.apps[len(w.apps)-1]
		for j := 0; j < a.Replicas; j++ {
			if name := w.missingPod(a); name != "" {
				w.createPod(a, name)
			}
		}
	}
	w.K.Watch("pods", "deployments", "statefulsets", "pools", "crds", "cr:tapps", "cr:bars", "floatingips")
	return w
}

func (w *World) mustCreate(kind string, obj interface{}) *simkube.Obj {
	b, err := json.Marshal(obj)
	if err != nil {
		panic(err)
	}
	o, code, msg := w.K.Create(nil, kind, b)
	if code != 0 {
		panic(fmt.Sprintf("world create %s: %d %s", kind, code, msg))
	}
	return o
}

func (w *World) startProcess() {
	w.proc = w.S.NewProc()
	w.inst = &Instance{proc: w.proc}
	w.ready = false
	w.crashed = false
	inst := w.inst
	cloud := w.withCloud
	w.K.ResetViews()
	w.busy = map[string]*core.Task{}
	t := w.S.Spawn(fmt.Sprintf("init#%d", w.proc), w.proc, func() { startInstance(inst, cloud, 1) })
	t.Tag = "init"
}

// ---------------------------------------------------------------------------------------------------------
// truth tracking

type podJSON struct {
	Metadata struct {
		Name        string            `json:"name"`
		Namespace   string            `json:"namespace"`
		UID         string            `json:"uid"`
		Annotations map[string]string `json:"annotations"`
	} `json:"metadata"`
	Spec struct {
		NodeName string `json:"nodeName"`
	} `json:"spec"`
	Status struct {
		Phase string `json:"phase"`
	} `json:"status"`
}

func (w *World) onMutate(m *simkube.Mutation) {
	switch m.Kind {
	case "pods":
		w.onPodMutate(m)
	case "floatingips":
		w.onFipMutate(m)
	case "pools":
		w.onPoolMutate(m)
	}
}

// slowReply injects sched.stall at an arbitrary call of a galaxy-ipam task: the reply (or the goroutine) is slow, so
// the task sits between one of its reads and its next action while whole pod lifecycles go by.
func (w *World) slowReply(t *core.Task) {
	if !w.prof.Stall || !w.faultsOn || w.phase != 1 || !w.galaxyTask(t) || t.Tag == "init" || t.Tag == "probe" || w.stalled[t] != 0 {
		return
	}
	if w.C.Prob(1, 150) {
		w.stalled[t] = w.S.Steps + 40 + w.C.Choose(500)
		w.S.Stat("fault.sched.stall")
		w.S.Sig("F:slow:" + t.Tag)
	}
}

func (w *World) triggeredReloadInFlight() bool {
	for _, t := range w.inflight {
		if t.Tag == "reload" && !w.taskDone(t) {
			return true
		}
	}
	return false
}

// reloadInFlight: a configuration reload (triggered through the hook, or the periodic one) is running.
func (w *World) reloadInFlight() bool {
	if w.triggeredReloadInFlight() {
		return true
	}
	if t := w.periodicReload; t != nil && t.Proc == w.proc && !w.taskDone(t) && !t.Sleeping() {
		return true
	}
	return false
}

// taskMeta is attached to tasks the world spawns (scheduler-side only).
type taskMeta struct {
	start    int
	confRead int // configuration version the task last read from the configmap (-1 = none)
	podUID   string
}

func (w *World) onPodMutate(m *simkube.Mutation) {
	if m.Verb == "delete" {
		p := w.pods[m.Old.Key()]
		delete(w.pods, m.Old.Key())
		if p != nil {
			w.gone[p.UID] = true
		}
		return
	}
	var pj podJSON
	if err := json.Unmarshal(m.New.JSON, &pj); err != nil {
		panic(err)
	}
	p := w.pods[m.New.Key()]
	if p == nil || p.UID != m.New.UID {
		p = &PodInfo{NS: m.New.NS, Name: m.New.Name, UID: m.New.UID, Index: -1}
		w.pods[m.New.Key()] = p
		w.podByUID[p.UID] = p
	}
	p.Phase = pj.Status.Phase
	p.Node = pj.Spec.NodeName
	if a := pj.Metadata.Annotations[annArgs]; a != "" {
		var ca cniArgsJSON
		if err := json.Unmarshal([]byte(a), &ca); err == nil {
			p.IPInfos = ca.Common.IPInfos
			p.IPs = nil
			for _, ii := range ca.Common.IPInfos {
				p.IPs = append(p.IPs, strings.SplitN(ii.IP, "/", 2)[0])
			}
		}
	}
	if m.Verb == "bind" {
		p.BoundStep = w.S.Steps
		w.S.Stat("bind.applied")
		w.oracleOnBind(p, m)
	}
}

func (w *World) noteSchedTouched(m *simkube.Mutation) {
	if !w.armed("C08") {
		return
	}
	keys := map[string]bool{}
	if m.Old != nil {
		keys[decodeFip(m.Old).Key] = true
	}
	if m.New != nil {
		keys[decodeFip(m.New).Key] = true
	}
	for _, uid := range sortedKeys(w.schedBusy) {
		t := w.schedBusy[uid]
		p := w.podByUID[uid]
		if p != nil && keys[p.Key] && m.By != t {
			w.schedTouched[uid] = true
		}
	}
}

func (w *World) onFipMutate(m *simkube.Mutation) {
	w.noteSchedTouched(m)
	if w.probe != nil && len(w.probe.entries) > 0 {
		ip, key := "", ""
		if m.Old != nil {
			ip, key = m.Old.Name, decodeFip(m.Old).Key
		} else {
			ip, key = m.New.Name, decodeFip(m.New).Key
		}
		w.probe.fipMut = append(w.probe.fipMut, m.Verb+" "+ip+" "+key)
	}
	w.oracleOnFip(m)
}

// livePodsWithIP returns the live pods (exist, not finished) whose binding annotation carries ip.
func (w *World) livePodsWithIP(ip string) []*PodInfo {
	var out []*PodInfo
	for _, k := range w.sortedPodKeys() {
		p := w.pods[k]
		if !p.live() || p.Node == "" {
			continue
		}
		for _, x := range p.IPs {
			if x == ip {
				out = append(out, p)
			}
		}
	}
	return out
}

func (w *World) sortedPodKeys() []string {
	ks := make([]string, 0, len(w.pods))
	for k := range w.pods {
		ks = append(ks, k)
	}
	sort.Strings(ks)
	return ks
}

// configured reports whether ip is in the newest configuration version or any version galaxy may still have
// in force.
func (w *World) configured(ip string) bool {
	for _, cs := range w.confVers {
		if _, ok := cs[ip]; ok {
			return true
		}
	}
	return false
}

// inNewestConf: the IP is configured and was never taken out of the configuration since it first appeared (an IP
// that was dropped and brought back is out of scope for the clauses that use this: its record was legitimately lost).
func (w *World) inNewestConf(ip string) bool {
	_, ok := w.confVers[len(w.confVers)-1][ip]
	return ok && !w.everDropped[ip]
}

// inNewestConfRaw is plain membership in the newest published configuration.
func (w *World) inNewestConfRaw(ip string) bool {
	_, ok := w.confVers[len(w.confVers)-1][ip]
	return ok
}

// publishConf appends a configuration version and notes which IPs it takes out.
func (w *World) publishConf(cs ConfSet) {
	if n := len(w.confVers); n > 0 {
		for ip := range w.confVers[n-1] {
			if _, ok := cs[ip]; !ok {
				if w.everDropped == nil {
					w.everDropped = map[string]bool{}
				}
				w.everDropped[ip] = true
				delete(w.adoptedBy, ip)
				if w.cloud[ip] != "" {
					// galaxy-ipam drops the record without a provider call: the provider's assignment is no longer tracked
					if w.cloudStale == nil {
						w.cloudStale = map[string]bool{}
					}
					w.cloudStale[ip] = true
				}
			}
		}
	}
	w.confVers = append(w.confVers, cs)
}

// confSince: the IP is in every configuration version from lb on (lb: the version in force when an allocation was made).
func (w *World) confSince(ip string, lb int) bool {
	if lb < 0 {
		lb = 0
	}
	for i := lb; i < len(w.confVers); i++ {
		if _, ok := w.confVers[i][ip]; !ok {
			return false
		}
	}
	return true
}

// ---------------------------------------------------------------------------------------------------------
// environment calls

func (w *World) galaxyTask(t *core.Task) bool { return t != nil && t.Proc == w.proc && t.Proc != 0 }

func (w *World) Handle(t *core.Task, r *core.Req) core.Resp {
	switch {
	case simkube.IsAPI(r.Op):
		if w.galaxyTask(t) {
			w.apiCalls++
			w.K.Calls++
			if f := w.apiFault(t, r); f != nil {
				return *f
			}
			if resp, done := w.enumPoint(t, r); done {
				return resp
			}
		}
		resp := w.K.Handle(t, r)
		w.slowReply(t)
		if r.Op == "api.list" && len(r.A) > 0 && r.A[0] == "floatingips" && resp.Code == 0 && w.galaxyTask(t) {
			// only a (re)build of the tables lists the stored objects: a start or a reload
			w.rebuilds = append(w.rebuilds, w.S.Steps)
		}
		if r.Op == "api.get" && len(r.A) > 0 && r.A[0] == "configmaps" && resp.Code == 0 && t != nil {
			// remember which configuration version this task read
			if tm, ok := t.Data.(*taskMeta); ok && tm != nil {
				tm.confRead = len(w.confVers) - 1
			} else {
				t.Data = &taskMeta{start: w.S.Steps, confRead: len(w.confVers) - 1}
				if t.Tag == "" {
					t.Tag = "periodic-reload"
					w.periodicReload = t
				}
			}
		}
		if w.galaxyTask(t) && w.lostNow(r) {
			w.S.Stat("fault.api.lost-reply")
			w.lostReplies++
			w.S.Sig("F:lost:" + r.Op)
			return core.Resp{Code: simkube.CodeServerTimeout, Msg: "simulated: reply lost"}
		}
		return resp
	case strings.HasPrefix(r.Op, "view."):
		w.slowReply(t)
		return w.K.Handle(t, r)
	case strings.HasPrefix(r.Op, "cloud."):
		return w.handleCloud(t, r)
	case strings.HasPrefix(r.Op, "w."):
		return w.handleReport(t, r)
	}
	return core.Resp{Code: 400, Msg: "unknown op " + r.Op}
}

func (w *World) apiFault(t *core.Task, r *core.Req) *core.Resp {
	if !w.faultsOn || !w.prof.Faults || t.Tag == "init" {
		return nil
	}
	fire := false
	switch w.faultMode {
	case 1:
		fire = w.apiCalls == w.faultAt
	case 2:
		fire = w.C.Prob(w.faultRate, 1000)
	}
	if !fire {
		return nil
	}
	w.S.Stat("fault.api.err")
	w.S.Sig("F:err:" + r.Op)
	switch w.C.Choose(3) {
	case 0:
		return &core.Resp{Code: simkube.CodeServerTimeout, Msg: "simulated server timeout"}
	case 1:
		return &core.Resp{Code: simkube.CodeInternal, Msg: "simulated internal error"}
	}
	return &core.Resp{Code: simkube.CodeRefused, Msg: "simulated connection refused"}
}

func (w *World) lostNow(r *core.Req) bool {
	if !w.faultsOn || !w.lostReply || !simkube.IsMutating(r.Op) {
		return false
	}
	return w.C.Prob(15, 1000)
}

func (w *World) handleCloud(t *core.Task, r *core.Req) core.Resp {
	node, ip := r.A[0], r.A[1]
	if w.faultsOn && w.cloudErr > 0 && w.C.Prob(w.cloudErr, 1000) {
		w.S.Stat("fault.cloud.err")
		w.S.Sig("F:cloud:" + r.Op)
		return core.Resp{Code: 1 + w.C.Choose(3), Msg: "simulated provider failure"}
	}
	if r.Op == "cloud.assign" {
		w.S.Stat("cloud.assign")
		w.oracleOnCloudAssign(node, ip)
		delete(w.cloudStale, ip)
		w.cloud[ip] = node
		if w.everDropped[ip] && w.M.allocs[ip] == nil {
			// a bind that read its IP before a reload dropped the record assigns it afterwards: nothing tracks this assignment
			if w.cloudStale == nil {
				w.cloudStale = map[string]bool{}
			}
			w.cloudStale[ip] = true
		}
		w.cloudLog = append(w.cloudLog, fmt.Sprintf("%d assign %s %s", w.S.Steps, ip, node))
	} else {
		w.S.Stat("cloud.unassign")
		w.oracleOnCloudUnassign(t, node, ip)
		delete(w.cloudStale, ip)
		delete(w.cloud, ip)
		w.cloudLog = append(w.cloudLog, fmt.Sprintf("%d unassign %s %s", w.S.Steps, ip, node))
	}
	return core.Resp{}
}

func (w *World) handleReport(t *core.Task, r *core.Req) core.Resp {
	switch r.Op {
	case "w.ready":
		w.ready = true
		if w.phase == 0 {
			w.phase = 1
		}
		return core.Resp{}
	case "w.filtered":
		var fr filterReport
		_ = json.Unmarshal(r.B, &fr)
		node := w.onFiltered(&fr)
		if node != "" && w.prof.Stall && w.faultsOn && w.phase == 1 && t != nil && w.stalled[t] == 0 && w.C.Prob(1, 10) {
			// kube-scheduler takes its time between the extender's filter answer and its bind call (other plugins,
			// the binding cycle runs in another goroutine): whole resync passes and informer deliveries fit in between
			w.stalled[t] = w.S.Steps + 40 + w.C.Choose(400)
			w.S.Stat("fault.sched.stall")
			w.S.Sig("F:slow:filter-bind-gap")
		}
		return core.Resp{Msg: node}
	case "w.bound":
		var br bindReport
		_ = json.Unmarshal(r.B, &br)
		w.onBound(&br)
		return core.Resp{}
	case "w.memdump":
		var es []memEntry
		_ = json.Unmarshal(r.B, &es)
		w.memdump[r.A[0]] = es
		return core.Resp{}
	case "w.http":
		var hr httpReport
		_ = json.Unmarshal(r.B, &hr)
		w.http = append(w.http, hr)
		w.onHTTP(&hr)
		return core.Resp{}
	case "w.reloaded":
		// a reload that completed without error leaves the tables at the version it read (or at one with the same text)
		if tm, ok := t.Data.(*taskMeta); ok && tm != nil && len(r.A) == 2 && r.A[0] == "true" && r.A[1] == "" && tm.confRead > w.memVer {
			w.memVer = tm.confRead
		}
		return core.Resp{}
	case "w.resynced", "w.queuelen", "w.collected":
		return core.Resp{}
	case "w.crd-informer-synced":
		w.S.Stat("crd.informer-started-and-synced")
		return core.Resp{}
	case "w.probe.filtered":
		var fr filterReport
		_ = json.Unmarshal(r.B, &fr)
		if w.probe != nil {
			w.probe.fr = &fr
			w.onProbeFiltered(w.probe)
		}
		if fr.Err != "" || len(fr.Nodes) == 0 {
			return core.Resp{}
		}
		return core.Resp{Msg: fr.Nodes[w.C.Choose(len(fr.Nodes))]}
	case "w.probe.bound":
		var br bindReport
		_ = json.Unmarshal(r.B, &br)
		if w.probe != nil {
			w.probe.br = &br
		}
		return core.Resp{}
	case "w.probe.page", "w.probe.post":
		var hr httpReport
		_ = json.Unmarshal(r.B, &hr)
		if w.probe != nil {
			if r.Op == "w.probe.page" {
				w.probe.pages = append(w.probe.pages, hr)
			} else {
				w.probe.post = &hr
			}
		}
		return core.Resp{}
	case "w.probe.entry":
		if w.probe != nil {
			_ = json.Unmarshal(r.B, &w.probe.entries)
		}
		return core.Resp{}
	}
	return core.Resp{Code: 400, Msg: "unknown report " + r.Op}
}

// onFiltered picks the node kube-scheduler binds to ("" = unschedulable this round).
func (w *World) onFiltered(fr *filterReport) string {
	w.S.Stat("filter.calls")
	if fr.Err != "" {
		w.S.Stat("filter.err")
		w.S.Stat("filtererr." + classify(fr.Err))
		if strings.Contains(fr.Err, "not supported") {
			w.unsched[fr.UID] = true // kube-scheduler backs off for good in the time frame of a run
		}
		return ""
	}
	if len(fr.Nodes) == 0 {
		w.S.Stat("filter.nonode")
		return ""
	}
	w.oracleOnFiltered(fr)
	return fr.Nodes[w.C.Choose(len(fr.Nodes))]
}

func (w *World) onBound(br *bindReport) {
	if br.Err != "" {
		w.oracleC08Failed(br)
		w.S.Stat("bind.err")
		w.S.Stat("binderr." + classify(br.Err))
		if strings.Contains(br.Err, "waiting for delete event") {
			w.S.Stat("probe.uid-guard-refusal")
		}
	} else {
		w.S.Stat("bind.ok")
	}
}

func (w *World) onHTTP(hr *httpReport) {}

// ---------------------------------------------------------------------------------------------------------
// scheduling loop glue

func (w *World) AfterStep() {}

func (w *World) taskDone(t *core.Task) bool {
	for _, x := range w.S.Tasks() {
		if x == t {
			return false
		}
	}
	return true
}

func (w *World) gc() {
	for k, t := range w.busy {
		if w.taskDone(t) {
			delete(w.busy, k)
		}
	}
	for k, t := range w.schedBusy {
		if w.taskDone(t) {
			delete(w.schedBusy, k)
		}
	}
	var keep []*core.Task
	for _, t := range w.inflight {
		if !w.taskDone(t) {
			keep = append(keep, t)
		}
	}
	w.inflight = keep
}

func (w *World) Actions() []core.Action {
	w.gc()
	var acts []core.Action
	if w.inst == nil {
		if w.crashed {
			acts = append(acts, core.Action{Name: "restart", Do: func() { w.S.Stat("fault.restart"); w.S.Sig("F:restart"); w.startProcess() }})
		}
		return acts
	}
	if !w.ready {
		return nil
	}
	if pa, ok := w.probeActions(); ok {
		return pa
	}
	// informer deliveries (one handler at a time per informer)
	for _, kind := range w.K.PendingKinds() {
		kind := kind
		if w.busy[kind] != nil {
			continue
		}
		// the more events are pending, the more likely a delivery (informers normally keep up)
		for i, n := 0, w.K.Pending(kind); i < n && i < 4; i++ {
			acts = append(acts, core.Action{Name: "deliver:" + kind, Do: func() { w.deliver(kind) }})
		}
	}
	if w.phase == 1 {
		// the actors around galaxy-ipam are slower than galaxy-ipam itself: an operation is offered only every
		// opGap scheduling steps (a per-run swarm parameter) unless nothing else can run
		calm := len(w.S.Enabled()) == 0 && len(acts) == 0
		if w.wantProbe != "" {
			// a probe is waiting for quiescence: no new operations, no time jumps
			return acts
		}
		if w.opsLeft > 0 && (calm || w.S.Steps-w.lastOpStep >= w.opGap) {
			acts = append(acts, core.Action{Name: "op", Do: func() { w.lastOpStep = w.S.Steps; w.doOp() }})
		} else if w.opsLeft > 0 {
			// not offered now
		} else if len(w.schedBusy) == 0 && len(w.inflight) == 0 {
			w.phase = 2
			w.faultsOn = false
		}
		if _, ok := w.S.NextTimer(true); ok && w.prof.Stall && w.S.Steps-w.lastAdvStep >= 3*w.opGap+10 {
			acts = append(acts, core.Action{Name: "advance-time", Do: w.advanceTime})
		}
	}
	return acts
}

func (w *World) advanceTime() {
	w.lastAdvStep = w.S.Steps
	if w.reloadInFlight() {
		return // the real daemon reloads from one goroutine only: do not wake the periodic reload next to a triggered one
	}
	if ts, ok := w.S.NextTimer(true); ok {
		w.S.Stat("time.advance")
		w.S.AdvanceTo(ts)
	}
}

func (w *World) deliver(kind string) {
	ev := w.K.Deliver(kind)
	if ev == nil {
		return
	}
	w.S.Stat("informer.delivered")
	if kind == "deployments" || kind == "pools" {
		defer w.trackFilterWindows()
	}
	if kind == "deployments" || kind == "statefulsets" || kind == "cr:tapps" || kind == "cr:bars" {
		defer w.modelViewChanged()
	}
	if kind == "pools" {
		name := ev.Key[strings.Index(ev.Key, "/")+1:]
		if ev.New == nil {
			w.M.poolView[name] = append(w.M.poolView[name], sizePoint{w.S.Steps, -1})
		} else {
			var pj poolJSON
			_ = json.Unmarshal(ev.New.JSON, &pj)
			w.M.poolView[name] = append(w.M.poolView[name], sizePoint{w.S.Steps, pj.Size})
		}
	}
	if ev.Tombstone {
		w.S.Stat("probe.tombstone-delivery")
	}
	if w.inst == nil || !w.ready {
		return
	}
	inst := w.inst
	var oldJ, newJ []byte
	if ev.Old != nil {
		oldJ = ev.Old.JSON
	}
	if ev.New != nil {
		newJ = ev.New.JSON
	}
	typ := ev.Type.String()
	tomb := ev.Tombstone
	switch kind {
	case "pods":
		t := w.S.Spawn(fmt.Sprintf("podev:%s:%s", typ, ev.Key), w.proc, func() { podEventTask(inst, typ, oldJ, newJ, tomb) })
		t.Tag = "podev"
		w.busy[kind] = t
	case "floatingips":
		t := w.S.Spawn(fmt.Sprintf("fipev:%s:%s", typ, ev.Key), w.proc, func() { fipEventTask(inst, typ, oldJ, newJ) })
		t.Tag = "fipev"
		w.busy[kind] = t
	}
}

// Idle drives the end-of-run phases.
func (w *World) Idle() bool {
	w.gc()
	if len(w.stalled) > 0 {
		// nothing else can run: the stalled tasks resume
		w.stalled = map[*core.Task]int{}
		return true
	}
	if w.inst == nil && !w.crashed {
		return false
	}
	if w.inst == nil && w.crashed {
		// nothing else to do: restart now
		w.startProcess()
		return true
	}
	if w.probe != nil {
		return w.probeIdle()
	}
	if !w.ready && w.typoActive {
		// galaxy-ipam does not start with a configuration it has to refuse: the administrator notices and repairs the text
		w.fixTypo()
		return true
	}
	if !w.ready {
		// init is blocked on a timer (configmap poll)
		if ts, ok := w.S.NextTimer(false); ok {
			w.S.AdvanceTo(ts)
			return true
		}
		w.S.Infra = "instance never became ready"
		return false
	}
	// expire ordinary timers first (bind retries, unbind back-off)
	if ts, ok := w.S.NextTimer(false); ok {
		w.S.AdvanceTo(ts)
		return true
	}
	switch w.phase {
	case 1:
		// workload phase with nothing enabled: all remaining actors wait on something external
		if w.opsLeft > 0 {
			return true
		}
		w.phase = 2
		w.faultsOn = false
		if w.typoActive {
			w.fixTypo() // the mistyped text is repaired before the run is judged
		}
		return true
	case 2:
		if w.typoActive {
			w.fixTypo() // the mistyped text is repaired before the run is judged
			return true
		}
		if w.armed("C09") && w.settleRounds < 3 {
			// let the periodic configuration reload run (it retries every minute) before judging convergence
			w.settleRounds++
			w.S.AdvanceTo(core.ClockNanos() + int64(61e9))
			return true
		}
		if b := w.S.Blocked(); len(b) > 0 {
			if w.armed("C18") {
				w.fail("C18.wedged", "wedged", "tasks blocked forever on locks at quiescence (a lock is held by a task that ended or never returns): %s", taskNames(b))
			} else {
				w.fail("deadlock", "deadlock", "tasks blocked forever on locks at quiescence: %s", taskNames(b))
			}
			return false
		}
		w.phase = 3
		return w.finalChecks()
	case 3:
		return w.finalChecks()
	}
	return false
}

// fixTypo publishes the newest configuration version again, as valid text.
func (w *World) fixTypo() {
	js := w.topo.JSON()
	w.K.Patch(nil, "configmaps", "kube-system", "floatingip-config", func(m map[string]interface{}) {
		m["data"] = map[string]interface{}{"floatingips": js}
	})
	w.typoActive = false
	w.S.Logf("conf typo repaired -> %s", js)
}

func taskNames(ts []*core.Task) string {
	var n []string
	for _, t := range ts {
		n = append(n, t.Name)
	}
	return strings.Join(n, ",")
}

func (w *World) spawnGalaxy(name, tag string, fn func()) *core.Task {
	w.taskSeq++
	t := w.S.Spawn(fmt.Sprintf("%s~%d", name, w.taskSeq), w.proc, fn)
	t.Tag = tag
	t.Data = &taskMeta{start: w.S.Steps, confRead: -1}
	w.inflight = append(w.inflight, t)
	return t
}

// finalChecks is a small state machine: dump memory -> quiescent checks -> one resync pass -> drain -> dump ->
// checks again.
func (w *World) finalChecks() bool {
	inst := w.inst
	switch w.finalStage {
	case 0:
		w.finalStage = 1
		w.spawnGalaxy("dump:q1", "dump", func() { dumpTask(inst, "q1") })
		return true
	case 1:
		w.quiescentChecks("q1", false)
		if w.S.Viol != nil {
			return false
		}
		w.finalStage = 2
		w.spawnGalaxy("resync:final", "resync", func() { resyncTask(inst, true) })
		return true
	case 2:
		w.finalStage = 3
		w.spawnGalaxy("dump:q2", "dump", func() { dumpTask(inst, "q2") })
		return true
	case 3:
		w.quiescentChecks("q2", true)
		w.finalStage = 4
		return false
	}
	return false
}

// ---------------------------------------------------------------------------------------------------------
// helpers to build API objects

func (w *World) newPodObject(a *App, name string, index int) corev1.Pod {
	ann := map[string]string{}
	if a.Policy != "" {
		ann[annPolicy] = a.Policy
	}
	if a.Pool != "" {
		ann[annPool] = a.Pool
	}
	if len(a.Ranges) > 0 {
		ca := cniArgsJSON{RequestIPRange: encodeRanges(a.Ranges, w.neverConfigured)}
		b, _ := json.Marshal(ca)
		ann[annArgs] = string(b)
	}
	q := resource.NewQuantity(1, resource.DecimalSI)
	pod := corev1.Pod{TypeMeta: metav1.TypeMeta{Kind: "Pod", APIVersion: "v1"},
		ObjectMeta: metav1.ObjectMeta{Name: name, Namespace: a.NS, Annotations: ann, Labels: map[string]string{"app": a.Name}},
		Spec: corev1.PodSpec{Containers: []corev1.Container{{Name: "c", Resources: corev1.ResourceRequirements{
			Requests: corev1.ResourceList{corev1.ResourceName(resName): *q}}}}},
		Status: corev1.PodStatus{Phase: corev1.PodPending}}
	switch a.Kind {
	case "sts":
		pod.OwnerReferences = []metav1.OwnerReference{{Kind: "StatefulSet", Name: a.Name, APIVersion: "apps/v1", UID: types.UID("app-" + a.Name)}}
	case "dp":
		pod.OwnerReferences = []metav1.OwnerReference{{Kind: "ReplicaSet", Name: fmt.Sprintf("%s-rs%d", a.Name, a.rsGen), APIVersion: "apps/v1", UID: types.UID("rs-" + a.Name)}}
	case "tapp":
		pod.OwnerReferences = []metav1.OwnerReference{{Kind: a.crKind(), Name: a.Name, APIVersion: a.crGroup() + "/v1", UID: types.UID("app-" + a.Name)}}
	case "foo":
		pod.OwnerReferences = []metav1.OwnerReference{{Kind: a.ownerKind(), Name: a.Name, APIVersion: "example.com/v1", UID: types.UID("app-" + a.Name)}}
	}
	return pod
}

func (w *World) createAppObject(a *App) {
	w.noteReplicas(a)
	r := int32(a.Replicas)
	switch a.Kind {
	case "sts":
		w.mustCreate("statefulsets", appsv1.StatefulSet{TypeMeta: metav1.TypeMeta{Kind: "StatefulSet", APIVersion: "apps/v1"},
			ObjectMeta: metav1.ObjectMeta{Name: a.Name, Namespace: a.NS}, Spec: appsv1.StatefulSetSpec{Replicas: &r}})
	case "dp":
		w.mustCreate("deployments", appsv1.Deployment{TypeMeta: metav1.TypeMeta{Kind: "Deployment", APIVersion: "apps/v1"},
			ObjectMeta: metav1.ObjectMeta{Name: a.Name, Namespace: a.NS}, Spec: appsv1.DeploymentSpec{Replicas: &r}})
	case "tapp":
		w.mustCreate(a.crRes(), map[string]interface{}{"apiVersion": a.crGroup() + "/v1", "kind": a.crKind(),
			"metadata": map[string]interface{}{"name": a.Name, "namespace": a.NS}, "spec": map[string]interface{}{"replicas": a.Replicas}})
	}
	a.Exists = a.Kind == "sts" || a.Kind == "dp" || a.Kind == "tapp"
}

func appKindRes(a *App) string {
	switch a.Kind {
	case "sts":
		return "statefulsets"
	case "dp":
		return "deployments"
	case "tapp":
		return a.crRes()
	}
	return ""
}

func (w *World) setReplicas(a *App, n int) {
	a.Replicas = n
	w.noteReplicas(a)
	defer w.trackFilterWindows()
	kind := appKindRes(a)
	if kind == "" || !a.Exists {
		return
	}
	w.K.Patch(nil, kind, a.NS, a.Name, func(m map[string]interface{}) {
		spec, _ := m["spec"].(map[string]interface{})
		if spec == nil {
			spec = map[string]interface{}{}
			m["spec"] = spec
		}
		spec["replicas"] = n
	})
}

func (w *World) podsOf(a *App) []*PodInfo {
	var out []*PodInfo
	for _, k := range w.sortedPodKeys() {
		if p := w.pods[k]; p.App == a {
			out = append(out, p)
		}
	}
	return out
}

func itoa(i int) string { return strconv.Itoa(i) }

// classify buckets an error text for the evidence counters.
func classify(e string) string {
	for _, k := range []string{"waiting for delete event", "failed to find pod", "no enough available ips", "not supported", "reached pool", "wait for releasing",
		"has allocated", "connection refused", "server timeout", "internal error", "NoFIPConfigNode", "UnknowNode", "in cache has uid", "not found", "Conflict", "conflict",
		"the object has been modified", "cloud provider", "failed to find floatIP", "unsupported app type", "request ip ranges for deployment", "Timeout", "timeout"} {
		if strings.Contains(e, k) {
			return strings.ReplaceAll(k, " ", "-")
		}
	}
	if len(e) > 40 {
		e = e[:40]
	}
	return strings.ReplaceAll(e, " ", "-")
}

// onPanic: a panic inside galaxy code ends the request (net/http and the informer's handler wrapper recover
// it in the real daemon). It is a verdict only for C18; a panic inside the harness is infrastructure trouble.
func (w *World) onPanic(t *core.Task, msg string) {
	first := msg
	if i := strings.Index(first, "\n"); i > 0 {
		first = first[:i]
	}
	inGalaxy := strings.Contains(msg, "tkestack.io/galaxy/pkg/") || strings.Contains(msg, "tkestack.io/galaxy/cni/")
	if !inGalaxy || strings.Contains(first, "verifsim") {
		w.S.Infra = fmt.Sprintf("task %s panicked outside galaxy code: %s", t.Name, tailStr(msg, 1500))
		w.S.Stop()
		return
	}
	site := panicSite(msg)
	w.S.Stat("panic." + site)
	if w.armed("C18") {
		w.fail("C18.panic", "panic@"+site, "task %s panicked: %s at %s", t.Name, first, site)
	}
}

func (w *World) onLockLeak(t *core.Task, held int) {
	w.S.Stat("lockleak")
	if w.armed("C18") {
		w.fail("C18.lock-leak", "lock-leak", "task %s ended while holding %d lock(s)", t.Name, held)
	}
}

func tailStr(s string, n int) string {
	if len(s) > n {
		return s[:n]
	}
	return s
}

// panicSite extracts the first galaxy frame (function name) of a panic stack.
func panicSite(msg string) string {
	for _, l := range strings.Split(msg, "\n") {
		l = strings.TrimSpace(l)
		if strings.HasPrefix(l, "tkestack.io/galaxy/pkg/") || strings.HasPrefix(l, "tkestack.io/galaxy/cni/") {
			if i := strings.LastIndex(l, "("); i > 0 {
				l = l[:i]
			}
			l = strings.TrimPrefix(l, "tkestack.io/galaxy/")
			return l
		}
	}
	return "unknown"
}

// enumMatches selects the API calls that are injection points of the fault enumeration.
func (w *World) enumMatches(t *core.Task, r *core.Req) bool {
	if t.Tag == "init" || t.Tag == "probe" || t.Tag == "dump" || !w.faultsOn {
		return false
	}
	switch w.prop {
	case "C05":
		return true
	case "C08":
		return r.Op == "api.create" && len(r.A) > 0 && r.A[0] == "floatingips"
	}
	return false
}

// enumPoint counts injection points and fires the planned fault at the k-th one.
func (w *World) enumPoint(t *core.Task, r *core.Req) (core.Resp, bool) {
	if !w.armed("C05", "C08") || !w.enumMatches(t, r) {
		return core.Resp{}, false
	}
	w.S.Stats["enum.points"]++
	if w.plan == nil || w.planFired || w.S.Stats["enum.points"] != w.plan.k {
		return core.Resp{}, false
	}
	w.planFired = true
	switch w.plan.mode {
	case 1:
		w.S.Stat("fault.api.err")
		w.S.Sig("F:err@" + r.Op)
		return core.Resp{Code: simkube.CodeInternal, Msg: "simulated internal error (enumerated fault)"}, true
	case 2:
		w.S.Sig("F:crash-before@" + r.Op)
		w.crashForRecovery()
		return core.Resp{Code: core.CodeDead}, true
	case 3:
		resp := w.K.Handle(t, r)
		w.S.Sig("F:crash-after@" + r.Op)
		w.crashForRecovery()
		return resp, true
	}
	return core.Resp{}, false
}

// crashForRecovery kills galaxy-ipam; the rest of the run is: restart, drain, checks.
func (w *World) crashForRecovery() {
	w.opCrash()
	w.opsLeft = 0
	w.wantProbe = ""
	w.probe = nil
	w.recovering = true
	w.faultsOn = false
}

// encodeRanges writes each list of the request the way users do: runs of consecutive addresses as one "first~last"
// string, single addresses as they are (the model keeps the explicit lists).
// neverConfigured: the address is in no configuration version published so far (the generator never fills the gaps it
// leaves between ranges, so it never will be).
func (w *World) neverConfigured(ip string) bool {
	for _, cs := range w.confVers {
		if _, ok := cs[ip]; ok {
			return false
		}
	}
	return true
}

func encodeRanges(lists [][]string, unconfigured func(string) bool) [][]string {
	last := func(ip string) int {
		n, _ := strconv.Atoi(ip[strings.LastIndex(ip, ".")+1:])
		return n
	}
	var out [][]string
	for _, l := range lists {
		sorted := append([]string(nil), l...)
		sort.Slice(sorted, func(i, j int) bool {
			pi, pj := sorted[i][:strings.LastIndex(sorted[i], ".")], sorted[j][:strings.LastIndex(sorted[j], ".")]
			if pi != pj {
				return pi < pj
			}
			return last(sorted[i]) < last(sorted[j])
		})
		var enc []string
		for i := 0; i < len(sorted); {
			j := i
			for j+1 < len(sorted) && sorted[j+1][:strings.LastIndex(sorted[j+1], ".")] == sorted[i][:strings.LastIndex(sorted[i], ".")] {
				// the next address continues the run if it is the neighbour, or if everything between the two is an
				// address that no pool configures (one range string may then span two pools of a shared pod subnet)
				gapFree := true
				for h := last(sorted[j]) + 1; h < last(sorted[j+1]); h++ {
					if h-last(sorted[j]) > 3 || !unconfigured(sorted[j][:strings.LastIndex(sorted[j], ".")+1]+strconv.Itoa(h)) {
						gapFree = false
						break
					}
				}
				if !gapFree {
					break
				}
				j++
			}
			if j > i {
				enc = append(enc, sorted[i]+"~"+sorted[j])
			} else {
				enc = append(enc, sorted[i])
			}
			i = j + 1
		}
		out = append(out, enc)
	}
	return out
}
