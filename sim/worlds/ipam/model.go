package main

// Reference model of the documented float-IP policy (doc/float-ip.md) and the bookkeeping the history oracles
// need. It is driven only by API truth and by the actions of the actors around galaxy-ipam; it deliberately
// knows nothing about galaxy's retry counts, lock order or code paths.

import (
	"encoding/json"
	"fmt"
	"sort"
	"strings"

	"tkestack.io/galaxy/verifsim/core"
	"tkestack.io/galaxy/verifsim/simkube"
)

// Ident is an allocation identity (documented key) and the pods that carried it.
type Ident struct {
	Key     string
	App     *App
	NS, Pod string
	Index   int
	UIDs    []string
}

// Alloc is the current allocation epoch of one stored IP (from the step its object got its current key).
type Alloc struct {
	IP, Key      string
	Step         int
	ConfLB       int // configuration version in force (lower bound) when the allocation was made
	Creator      *core.Task
	PodGoneSince bool // latched: the identity's pod was absent or finished at some instant since Step
	AppGoneSince bool // latched: the owning workload did not exist at some instant since Step
	MinReplicas  int  // smallest replica count of the workload observed since Step
	EverBound    bool
	Reserved     bool // labelled reserved by an administrator
	UID          string
	BindTime     bool // allocated by a scheduling attempt after its Filter call had returned (i.e. in Bind)
	BindReason   string
	MaxHeld      int // largest number of IPs the deployment held under its prefix at any instant since Step
}

type sizePoint struct {
	step int
	size int // -1 = no Pool object
}

type modelState struct {
	idents            map[string]*Ident
	allocs            map[string]*Alloc
	adminRel          map[string]bool          // ip|key -> an administrator asked for its release
	poolSize          map[string][]sizePoint   // pool name -> history of sizes in API truth
	poolView          map[string][]sizePoint   // pool name -> history of sizes in the lister view
	filterWin         map[string]*filterWindow // pod uid -> open Filter window
	foreignDelete     map[string]int           // app/pool prefix -> step of the last delete under it by the release API, a reload or the world
	replicaHist       map[*App][]sizePoint
	replicaViewHist   map[*App][]sizePoint // what the lister showed (a point per delivery that changed it)
	lostReservation   map[string]string
	lostReservationIP map[string]string
	mixedUIDs         map[string]bool // identity -> its key held IPs recorded for two different incarnations at some instant
	multiIP           map[string]bool // identity -> its key held several IPs at once at some instant
}

type filterWindow struct {
	app              *App
	hadReserve       bool // an unowned IP was stored under the app/pool prefix at every step of the window
	tookReserved     bool // the pod was given one of those reserved IPs during this attempt
	tookIP           string
	maxReplicas      int  // largest replica count (API truth or lister view) seen during the window
	heldOwn          bool // the pod's identity already held an IP when the filter call started: the call had nothing to decide
	gateClosed       bool // the deployment's pods held >= replicas IPs at every step of the window
	hadIPAfterFilter bool // the identity held an IP when the filter call returned
	closed           bool
	start            int
}

func newModel() *modelState {
	return &modelState{idents: map[string]*Ident{}, allocs: map[string]*Alloc{}, adminRel: map[string]bool{}, poolSize: map[string][]sizePoint{}, poolView: map[string][]sizePoint{},
		filterWin: map[string]*filterWindow{}, foreignDelete: map[string]int{}, replicaHist: map[*App][]sizePoint{}, replicaViewHist: map[*App][]sizePoint{}, mixedUIDs: map[string]bool{}, multiIP: map[string]bool{}, lostReservation: map[string]string{}, lostReservationIP: map[string]string{}}
}

func (w *World) livePodWithKey(key string) *PodInfo {
	for _, k := range w.sortedPodKeys() {
		if p := w.pods[k]; p.Key == key && p.live() {
			return p
		}
	}
	return nil
}

func (w *World) appExists(a *App) bool {
	if a == nil {
		return false
	}
	switch a.Kind {
	case "sts", "dp", "tapp":
		return a.Exists
	}
	return !a.Deleted
}

func (w *World) modelPodCreated(p *PodInfo) {
	id := w.M.idents[p.Key]
	if id == nil {
		id = &Ident{Key: p.Key, App: p.App, NS: p.NS, Pod: p.Name, Index: p.Index}
		w.M.idents[p.Key] = id
	}
	id.UIDs = append(id.UIDs, p.UID)
}

func (w *World) modelPodEnds(p *PodInfo) {
	for _, ip := range sortedKeys(w.M.allocs) {
		if a := w.M.allocs[ip]; a.Key == p.Key && (a.UID == "" || a.UID == p.UID) {
			a.PodGoneSince = true
		}
	}
}

// noteAllocUID records the pod incarnation an allocation is recorded for (the UID stored with the IP). An
// allocation made for an incarnation that is already gone (stale scheduling attempt) may be released.
func (w *World) noteAllocUID(al *Alloc, uid string) {
	al.UID = uid
	if uid == "" {
		if w.M.idents[al.Key] != nil && w.livePodWithKey(al.Key) == nil {
			al.PodGoneSince = true
		}
		return
	}
	if p := w.podByUID[uid]; p == nil || w.gone[uid] || p.finished() {
		al.PodGoneSince = true
	}
}

func (w *World) modelAppChanged(a *App) {
	for _, ip := range sortedKeys(w.M.allocs) {
		al := w.M.allocs[ip]
		id := w.M.idents[al.Key]
		var app *App
		if id != nil {
			app = id.App
		} else {
			app = w.appOfPrefix(al.Key)
		}
		if app != a {
			continue
		}
		if !w.appExists(a) {
			al.AppGoneSince = true
		}
		if a.Replicas < al.MinReplicas {
			al.MinReplicas = a.Replicas
		}
	}
}

// trackHeld keeps, for allocations of immutable deployments, the largest population of the app prefix.
func (w *World) trackHeld() {
	counts := map[string]int{}
	for _, ip := range sortedKeys(w.M.allocs) {
		al := w.M.allocs[ip]
		id := w.M.idents[al.Key]
		if id == nil || id.App.Kind != "dp" {
			continue
		}
		pre := id.App.poolPrefix()
		n, ok := counts[pre]
		if !ok {
			n = w.countUnderPrefix(pre)
			counts[pre] = n
		}
		if n > al.MaxHeld {
			al.MaxHeld = n
		}
	}
}

func (w *World) appOfPrefix(key string) *App {
	for _, a := range w.apps {
		if a.poolPrefix() == key {
			return a
		}
	}
	return nil
}

// newAlloc starts an epoch for ip under key.
func (w *World) newAlloc(ip, key string, by *core.Task, reserved bool) *Alloc {
	al := &Alloc{IP: ip, Key: key, Step: w.S.Steps, Creator: by, MinReplicas: 1 << 30, Reserved: reserved, ConfLB: w.memVer}
	if id := w.M.idents[key]; id != nil {
		al.PodGoneSince = w.livePodWithKey(key) == nil
		al.AppGoneSince = !w.appExists(id.App)
		al.MinReplicas = id.App.Replicas
		// what galaxy-ipam's lister shows may be older than the truth
		if vr, ok := w.viewReplicas(id.App); !ok {
			al.AppGoneSince = true
		} else if vr < al.MinReplicas {
			al.MinReplicas = vr
		}
	}
	w.M.allocs[ip] = al
	return al
}

func (w *World) countUnderPrefix(prefix string) int {
	n := 0
	for _, o := range w.K.List("floatingips", "") {
		if f := decodeFip(o); strings.HasPrefix(f.Key, prefix) {
			n++
		}
	}
	return n
}

func (w *World) unownedUnderPrefix(prefix string) int {
	n := 0
	for _, o := range w.K.List("floatingips", "") {
		if f := decodeFip(o); f.Key == prefix {
			n++
		}
	}
	return n
}

func (w *World) storeIPsOfKey(key string) []string {
	var out []string
	for _, o := range w.K.List("floatingips", "") {
		if f := decodeFip(o); f.Key == key {
			out = append(out, f.IP)
		}
	}
	sort.Strings(out)
	return out
}

// releaseJustified answers "may this IP be released now?" for a Delete issued by galaxy-ipam.
func (w *World) releaseJustified(al *Alloc, by *core.Task) (bool, string) {
	if !w.confSince(al.IP, al.ConfLB) {
		return true, "not configured any more (or taken out of the configuration since it was allocated)"
	}
	if w.M.adminRel[al.IP+"|"+al.Key] {
		return true, "administrator asked for it"
	}
	if al.Creator != nil && al.Creator == by && !al.EverBound {
		return true, "rollback by the operation that allocated it"
	}
	id := w.M.idents[al.Key]
	if id == nil {
		if app := w.appOfPrefix(al.Key); app != nil && (app.effPolicy() == "never") {
			return false, "IP reserved under a never/pool prefix is only released by an administrator"
		}
		return true, "not a tracked identity"
	}
	switch id.App.effPolicy() {
	case "":
		if al.PodGoneSince {
			return true, ""
		}
		return false, "default policy: the pod has neither been deleted nor finished since the IP was allocated"
	case "never":
		return false, "never policy (or named pool): only an administrator may release"
	case "immutable":
		if !al.PodGoneSince {
			return false, "immutable policy: the pod has neither been deleted nor finished since the IP was allocated"
		}
		if al.AppGoneSince {
			return true, ""
		}
		switch id.App.Kind {
		case "sts", "tapp":
			if al.MinReplicas <= id.Index {
				return true, ""
			}
			return false, fmt.Sprintf("immutable policy: workload exists and was never scaled below pod index %d (min replicas %d)", id.Index, al.MinReplicas)
		case "dp":
			// the oracle runs right after the object was removed from the store: count it back in
			held := w.countUnderPrefix(id.App.poolPrefix()) + 1
			// galaxy counts and releases under the deployment lock; only an actor outside that lock (the release API, a
			// reload) can have removed an IP between the count and this delete: then the earlier, larger count stands
			if al.MaxHeld > held && by != nil && w.M.foreignDelete[id.App.poolPrefix()] >= by.Born {
				held = al.MaxHeld
			}
			if al.MinReplicas == 0 || held > al.MinReplicas {
				return true, ""
			}
			return false, fmt.Sprintf("immutable policy: the deployment holds no more IPs than replicas (%d <= %d)", held, al.MinReplicas)
		}
		return true, "immutable on a workload kind without replicas is treated as default"
	}
	return true, ""
}

// mustBeHeld answers, at quiescence after a resync pass, whether an IP stored under a pod key whose pod is
// gone or finished is reserved by policy.
func (w *World) reservedByPolicy(id *Ident) (bool, string) {
	switch id.App.effPolicy() {
	case "never":
		return true, ""
	case "immutable":
		switch id.App.Kind {
		case "sts", "tapp":
			if w.appExists(id.App) && id.Index < id.App.Replicas {
				return true, ""
			}
			return false, "immutable: workload deleted or scaled below this pod"
		case "dp":
			return true, "" // kept either under the pod key or re-keyed to the app prefix: both are reservations
		}
		return false, "immutable is not supported for this workload kind (treated as default)"
	}
	return false, "default policy releases on delete/finish"
}

// ---- pool sizes ------------------------------------------------------------------------------------------

type poolJSON struct {
	Metadata struct {
		Name string `json:"name"`
	} `json:"metadata"`
	Size int `json:"size"`
}

func (w *World) notePoolSize(name string, size int) {
	w.M.poolSize[name] = append(w.M.poolSize[name], sizePoint{w.S.Steps, size})
}

func (w *World) onPoolMutate(m *simkube.Mutation) {
	if m.New == nil {
		w.notePoolSize(m.Old.Name, -1)
		return
	}
	var p poolJSON
	_ = json.Unmarshal(m.New.JSON, &p)
	w.notePoolSize(m.New.Name, p.Size)
}

// maxPoolSizeSince returns the largest size in force since step (API truth or lister view), and whether the
// pool was unsized (no Pool object visible) at some instant in the window.
func (w *World) maxPoolSizeSince(name string, step int) (int, bool) {
	m1, u1 := maxSizeSince(w.M.poolSize[name], step)
	m2, u2 := maxSizeSince(w.M.poolView[name], step) // what the lister showed in the window
	if m2 > m1 {
		m1 = m2
	}
	return m1, u1 || u2
}

func maxSizeSince(h []sizePoint, step int) (int, bool) {
	if len(h) == 0 {
		return 0, true
	}
	max, unsized := -1, false
	// the value in force at `step` is the last point at or before it
	started := false
	for i, pt := range h {
		inWindow := pt.step >= step
		if !inWindow && (i+1 == len(h) || h[i+1].step > step) {
			inWindow = true // value in force when the window opened
		}
		if !inWindow {
			continue
		}
		started = true
		if pt.size < 0 {
			unsized = true
		} else if pt.size > max {
			max = pt.size
		}
	}
	if !started || h[0].step > step {
		unsized = true // no Pool object existed when the window opened
	}
	return max, unsized
}

// noteReplicas records a workload's replica count (API truth) for window queries.
func (w *World) noteReplicas(a *App) {
	w.M.replicaHist[a] = append(w.M.replicaHist[a], sizePoint{w.S.Steps, a.Replicas})
}

// maxReplicasSince returns the largest replica count in force since step.
func (w *World) maxReplicasSince(a *App, step int) int {
	m, _ := maxSizeSince(w.M.replicaHist[a], step)
	if m < 0 {
		m = a.Replicas
	}
	return m
}

// viewReplicas returns the workload's replicas as the informer view shows them (false if the view has no such object).
func (w *World) viewReplicas(a *App) (int, bool) {
	kind := appKindRes(a)
	if kind == "" {
		return a.Replicas, !a.Deleted
	}
	o := w.K.ViewGet(kind, a.NS, a.Name)
	if o == nil {
		return 0, false
	}
	var d struct {
		Spec struct {
			Replicas *int `json:"replicas"`
		} `json:"spec"`
	}
	_ = json.Unmarshal(o.JSON, &d)
	if d.Spec.Replicas == nil {
		return 1, true
	}
	return *d.Spec.Replicas, true
}

// modelViewChanged is called when a workload event reaches the informer view.
func (w *World) modelViewChanged() {
	for _, a := range w.apps {
		vr, ok := w.viewReplicas(a)
		if !ok {
			vr = -1
		}
		if h := w.M.replicaViewHist[a]; len(h) == 0 || h[len(h)-1].size != vr {
			w.M.replicaViewHist[a] = append(h, sizePoint{w.S.Steps, vr})
		}
	}
	for _, ip := range sortedKeys(w.M.allocs) {
		al := w.M.allocs[ip]
		id := w.M.idents[al.Key]
		var app *App
		if id != nil {
			app = id.App
		} else {
			app = w.appOfPrefix(al.Key)
		}
		if app == nil {
			continue
		}
		if vr, ok := w.viewReplicas(app); !ok {
			al.AppGoneSince = true
		} else if vr < al.MinReplicas {
			al.MinReplicas = vr
		}
	}
}
