package main

// Task-side code of world W1: construction of a galaxy-ipam instance from the simulated clients, and the
// bodies of the tasks the world spawns. Everything here runs on task goroutines and talks to the world only
// through core.Call / core.CallNow.

import (
	"bytes"
	"encoding/json"
	"fmt"
	"net/http"
	"net/http/httptest"
	"sort"
	"strings"
	"tkestack.io/galaxy/pkg/ipam/crd"

	"github.com/emicklei/go-restful"
	"github.com/prometheus/client_golang/prometheus"
	corev1 "k8s.io/api/core/v1"
	"k8s.io/client-go/tools/cache"
	"tkestack.io/galaxy/pkg/api/k8s/eventhandler"
	"tkestack.io/galaxy/pkg/api/k8s/schedulerapi"
	"tkestack.io/galaxy/pkg/ipam/api"
	"tkestack.io/galaxy/pkg/ipam/apis/galaxy/v1alpha1"
	galaxyinformer "tkestack.io/galaxy/pkg/ipam/client/informers/externalversions/galaxy/v1alpha1"
	"tkestack.io/galaxy/pkg/ipam/cloudprovider/rpc"
	ipamcontext "tkestack.io/galaxy/pkg/ipam/context"
	"tkestack.io/galaxy/pkg/ipam/floatingip"
	"tkestack.io/galaxy/pkg/ipam/schedulerplugin"
	"tkestack.io/galaxy/verifsim/core"
	"tkestack.io/galaxy/verifsim/kubeclient"
)

// Instance is one incarnation of galaxy-ipam. Its fields are written by the init task and read by tasks that
// start after InitDone.
type Instance struct {
	proc       int
	plugin     *schedulerplugin.FloatingIPPlugin
	ipam       floatingip.IPAM
	podHandler *eventhandler.PodEventHandler
	fipInf     *fipInformer
	container  *restful.Container
	stop       chan struct{}
}

// fipInformer captures the handlers crdIpam registers for reserved FloatingIP objects.
type fipInformer struct {
	galaxyinformer.FloatingIPInformer
	inf *sharedInformer
}

func (f *fipInformer) Informer() cache.SharedIndexInformer { return f.inf }

type sharedInformer struct {
	cache.SharedIndexInformer
	handlers []cache.ResourceEventHandler
}

func (s *sharedInformer) AddEventHandler(h cache.ResourceEventHandler) {
	s.handlers = append(s.handlers, h)
}

// simCloud is the task-side stub of the cloud provider.
type simCloud struct{}

func (simCloud) AssignIP(in *rpc.AssignIPRequest) (*rpc.AssignIPReply, error) {
	r := core.Call(core.Req{Op: "cloud.assign", A: []string{in.NodeName, in.IPAddress}})
	switch r.Code {
	case 0:
		return &rpc.AssignIPReply{Success: true}, nil
	case 2:
		return &rpc.AssignIPReply{Success: false, Msg: "simulated failure"}, nil
	case 3:
		return nil, nil
	}
	return nil, fmt.Errorf("rpc error: code = Unavailable desc = %s", r.Msg)
}

func (simCloud) UnAssignIP(in *rpc.UnAssignIPRequest) (*rpc.UnAssignIPReply, error) {
	r := core.Call(core.Req{Op: "cloud.unassign", A: []string{in.NodeName, in.IPAddress}})
	switch r.Code {
	case 0:
		return &rpc.UnAssignIPReply{Success: true}, nil
	case 2:
		return &rpc.UnAssignIPReply{Success: false, Msg: "simulated failure"}, nil
	case 3:
		return nil, nil
	}
	return nil, fmt.Errorf("rpc error: code = Unavailable desc = %s", r.Msg)
}

// startInstance is the body of the init task.
func startInstance(inst *Instance, withCloud bool, resyncMinutes uint) {
	ctx := &ipamcontext.IPAMContext{
		Client:            kubeclient.NewClientset(),
		GalaxyClient:      kubeclient.NewGalaxyClientset(),
		PodLister:         kubeclient.PodLister{},
		NodeLister:        kubeclient.NodeLister{},
		StatefulSetLister: kubeclient.StatefulSetLister{},
		DeploymentLister:  kubeclient.DeploymentLister{},
		PoolLister:        kubeclient.PoolLister{},
		ExtensionLister:   kubeclient.CRDLister{},
	}
	inst.fipInf = &fipInformer{inf: &sharedInformer{}}
	ctx.FIPInformer = inst.fipInf
	plugin, err := schedulerplugin.NewFloatingIPPlugin(schedulerplugin.Conf{ResyncInterval: resyncMinutes}, ctx)
	if err != nil {
		panic(err)
	}
	// the real pkg/ipam/crd cache (lazy informer per custom resource, first sync awaited under its lock) on a
	// simulated informer factory
	plugin.VerifSetCrdCache(crd.VerifNewCrdCache(kubeclient.NewDynFactory(), kubeclient.CRDLister{}))
	if withCloud {
		plugin.VerifSetCloudProvider(simCloud{})
	}
	inst.plugin = plugin
	inst.ipam = plugin.GetIpam()
	inst.podHandler = eventhandler.NewPodEventHandler(plugin)
	inst.stop = make(chan struct{})
	if err := plugin.Init(); err != nil {
		panic(fmt.Sprintf("plugin.Init: %v", err))
	}
	plugin.Run(inst.stop)
	// the API routes of pkg/ipam/server.startAPIServer, on an in-process container (no sockets)
	ws := new(restful.WebService)
	ws.Path("/v1").Consumes(restful.MIME_JSON).Produces(restful.MIME_JSON)
	c := api.NewController(plugin.GetIpam(), ctx.PodLister, plugin.Release)
	ws.Route(ws.GET("/ip").To(c.ListIPs))
	ws.Route(ws.POST("/ip").To(c.ReleaseIPs))
	pc := api.PoolController{PoolLister: ctx.PoolLister, Client: ctx.GalaxyClient, LockPoolFunc: plugin.LockDpPool, IPAM: plugin.GetIpam()}
	ws.Route(ws.GET("/pool/{name}").To(pc.Get))
	ws.Route(ws.POST("/pool").To(pc.CreateOrUpdate))
	ws.Route(ws.DELETE("/pool/{name}").To(pc.Delete))
	inst.container = restful.NewContainer()
	inst.container.Add(ws)
	core.InitDone()
	core.CallNow(core.Req{Op: "w.ready"})
}

func report(op string, v interface{}) core.Resp {
	b, err := json.Marshal(v)
	if err != nil {
		panic(err)
	}
	return core.CallNow(core.Req{Op: op, B: b})
}

// filterReport is what the kube-scheduler model tells the world after Filter.
type filterReport struct {
	PodKey string   `json:"pod"`
	UID    string   `json:"uid"`
	Nodes  []string `json:"nodes"`
	Failed []string `json:"failed"`
	Err    string   `json:"err"`
}

type bindReport struct {
	PodKey string `json:"pod"`
	UID    string `json:"uid"`
	Node   string `json:"node"`
	Err    string `json:"err"`
}

// schedTask models one scheduling attempt of kube-scheduler for a pod: Filter, pick a node, Bind.
func schedTask(inst *Instance, podJSON []byte, nodesJSON []byte, forceNode string) {
	var pod corev1.Pod
	var nodes []corev1.Node
	if err := json.Unmarshal(podJSON, &pod); err != nil {
		panic(err)
	}
	if err := json.Unmarshal(nodesJSON, &nodes); err != nil {
		panic(err)
	}
	podKey := pod.Namespace + "/" + pod.Name
	node := forceNode
	if node == "" {
		filtered, failed, err := inst.plugin.Filter(&pod, nodes)
		fr := filterReport{PodKey: podKey, UID: string(pod.UID)}
		for i := range filtered {
			fr.Nodes = append(fr.Nodes, filtered[i].Name)
		}
		for n := range failed {
			fr.Failed = append(fr.Failed, n)
		}
		sort.Strings(fr.Failed)
		if err != nil {
			fr.Err = err.Error()
		}
		r := report("w.filtered", fr)
		node = r.Msg
		if node == "" {
			return
		}
	}
	err := inst.plugin.Bind(&schedulerapi.ExtenderBindingArgs{PodName: pod.Name, PodNamespace: pod.Namespace, PodUID: pod.UID, Node: node})
	br := bindReport{PodKey: podKey, UID: string(pod.UID), Node: node}
	if err != nil {
		br.Err = err.Error()
	}
	report("w.bound", br)
}

// podEventTask runs the real pod event handler for one informer event.
func podEventTask(inst *Instance, typ string, oldJSON, newJSON []byte, tombstone bool) {
	dec := func(b []byte) *corev1.Pod {
		if b == nil {
			return nil
		}
		p := &corev1.Pod{}
		if err := json.Unmarshal(b, p); err != nil {
			panic(err)
		}
		return p
	}
	switch typ {
	case "ADDED":
		inst.podHandler.OnAdd(dec(newJSON))
	case "MODIFIED":
		inst.podHandler.OnUpdate(dec(oldJSON), dec(newJSON))
	case "DELETED":
		if tombstone {
			inst.podHandler.OnDelete(cache.DeletedFinalStateUnknown{Key: "tombstone", Obj: dec(oldJSON)})
		} else {
			inst.podHandler.OnDelete(dec(oldJSON))
		}
	}
}

// fipEventTask runs the handlers crdIpam registered on the FloatingIP informer.
func fipEventTask(inst *Instance, typ string, oldJSON, newJSON []byte) {
	dec := func(b []byte) *v1alpha1.FloatingIP {
		if b == nil {
			return nil
		}
		p := &v1alpha1.FloatingIP{}
		if err := json.Unmarshal(b, p); err != nil {
			panic(err)
		}
		return p
	}
	for _, h := range inst.fipInf.inf.handlers {
		switch typ {
		case "ADDED":
			h.OnAdd(dec(newJSON))
		case "MODIFIED":
			h.OnUpdate(dec(oldJSON), dec(newJSON))
		case "DELETED":
			h.OnDelete(dec(oldJSON))
		}
	}
}

// memEntry is one row of the in-memory allocation table as seen through the public IPAM interface.
type memEntry struct {
	IP      string   `json:"ip"`
	Key     string   `json:"key"`
	Policy  uint16   `json:"policy"`
	Node    string   `json:"node"`
	UID     string   `json:"uid"`
	Labels  bool     `json:"reserved"`
	Subnets []string `json:"subnets"`
	Mask    string   `json:"mask"`
	Gw      string   `json:"gw"`
	Vlan    uint16   `json:"vlan"`
}

// dumpTask reports the in-memory table (ByPrefix("")) to the world.
func dumpTask(inst *Instance, tag string) {
	all, err := inst.ipam.ByPrefix("")
	if err != nil {
		panic(err)
	}
	out := make([]memEntry, 0, len(all))
	for _, f := range all {
		_, res := f.Labels["reserved"]
		out = append(out, memEntry{IP: f.IP.String(), Key: f.Key, Policy: f.Policy, Node: f.NodeName, UID: f.PodUid, Labels: res,
			Subnets: f.NodeSubnets.List(), Mask: f.IPInfo.IP.Mask.String(), Gw: f.IPInfo.Gateway.String(), Vlan: f.IPInfo.Vlan})
	}
	sort.Slice(out, func(i, j int) bool { return out[i].IP < out[j].IP })
	b, _ := json.Marshal(out)
	core.CallNow(core.Req{Op: "w.memdump", A: []string{tag}, B: b})
}

type httpReport struct {
	Tag    string `json:"tag"`
	Method string `json:"method"`
	URL    string `json:"url"`
	Code   int    `json:"code"`
	Body   string `json:"body"`
}

// doHTTP sends one request through the real restful handlers (in-process, no socket).
func doHTTP(inst *Instance, method, url string, body []byte) (int, string) {
	req := httptest.NewRequest(method, url, bytes.NewReader(body))
	req.Header.Set("Content-Type", "application/json")
	req.Header.Set("Accept", "application/json")
	rec := httptest.NewRecorder()
	inst.container.ServeHTTP(rec, req)
	return rec.Code, rec.Body.String()
}

// httpTask sends one request and reports the answer to the world.
func httpTask(inst *Instance, tag, method, url string, body []byte) {
	code, rb := doHTTP(inst, method, url, body)
	report("w.http", httpReport{Tag: tag, Method: method, URL: url, Code: code, Body: rb})
}

var _ = http.StatusOK

func resyncTask(inst *Instance, withSync bool) {
	err := inst.plugin.VerifResyncPod()
	if withSync {
		inst.plugin.VerifSyncPodIPs()
	}
	msg := ""
	if err != nil {
		msg = err.Error()
	}
	core.CallNow(core.Req{Op: "w.resynced", A: []string{msg}})
}

func syncOnlyTask(inst *Instance) {
	inst.plugin.VerifSyncPodIPs()
	core.CallNow(core.Req{Op: "w.resynced", A: []string{""}})
}

func reloadTask(inst *Instance) {
	ok, err := inst.plugin.VerifUpdateConfigMap()
	msg := ""
	if err != nil {
		msg = err.Error()
	}
	core.CallNow(core.Req{Op: "w.reloaded", A: []string{fmt.Sprint(ok), msg}})
}

func collectTask(inst *Instance) {
	ch := make(chan prometheus.Metric, 4096) // large enough for two metrics per pool: Collect never blocks
	inst.ipam.Collect(ch)
	close(ch)
	n := 0
	for range ch {
		n++
	}
	core.CallNow(core.Req{Op: "w.collected", A: []string{fmt.Sprint(n)}})
}

func queueLenTask(inst *Instance) {
	core.CallNow(core.Req{Op: "w.queuelen", A: []string{fmt.Sprint(inst.plugin.VerifUnreleasedLen())}})
}

var _ = strings.TrimSpace
