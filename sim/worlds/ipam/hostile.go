package main

// Hostile inputs (C18): pod objects, HTTP requests and configuration texts that are structurally deliverable
// but unusual. The oracles are the simulator's own: a task that panics, a task that never reaches a scheduling
// point again (watchdog), a task that ends holding a lock, and a follow-up ordinary operation (a memory dump,
// which needs the table lock) that must complete.

import (
	"encoding/json"
	"fmt"

	corev1 "k8s.io/api/core/v1"
	"k8s.io/apimachinery/pkg/api/resource"
	metav1 "k8s.io/apimachinery/pkg/apis/meta/v1"
	"k8s.io/apimachinery/pkg/types"
)

var hostileArgs = []string{
	`not json`,
	`{"request_ip_range":[["255.255.255.250~255.255.255.255"]]}`,
	`{"request_ip_range":[["192.168.1.9~192.168.1.2"]]}`,
	`{"request_ip_range":[["10.0.0.0~10.0.255.255"]]}`,
	`{"request_ip_range":[[]]}`,
	`{"request_ip_range":[]}`,
	`{"request_ip_range":[["192.168.1.2"],["192.168.1.2"]]}`,
	`{"request_ip_range":[["0.0.0.0~0.0.0.5"]]}`,
	`{"request_ip_range":[["192.168.1.2~192.168.1.4"],["192.168.1.3~192.168.1.6"]]}`,
	`{"common":{"ipinfos":[{"ip":null,"vlan":0,"gateway":null}]}}`,
	`{"common":{"ipinfos":[{"vlan":2}]}}`,
	`{"common":{"ipinfos":[{"ip":"192.168.1.2/24","vlan":0,"gateway":"192.168.1.1"},{"ip":"300.1.1.1/24"}]}}`,
	`{"common":{"ipinfos":[{"ip":"192.168.1.3/24","vlan":70000,"gateway":"192.168.1.1"}]}}`,
	`{"common":{}}`,
	`null`,
	`{}`,
	``,
}

// hostileJunk are JSON tokens of the wrong type or shape for the slot they are put into.
var hostileJunk = []string{`7`, `0`, `-1`, `12`, `1.5`, `1e9`, `true`, `null`, `""`, `"a"`, `"~"`, `"1.2.3.4~"`, `"~1.2.3.4"`, `{}`, `[]`, `[[]]`,
	`"192.168.1.2~192.168.1.2~192.168.1.3"`, `"192.168.1.2/24"`, `" 192.168.1.2 "`, `"192.168.1.2~192.168.1"`, `"::1"`, `"::1~::2"`, `{"ip":7}`}

var hostileArgTemplates = []string{
	`{"request_ip_range":[[%s]]}`, `{"request_ip_range":[%s]}`, `{"request_ip_range":%s}`, `{"request_ip_range":[["192.168.1.2",%s]]}`,
	`{"request_ip_range":[["192.168.1.2"],[%s]]}`, `{"common":{"ipinfos":[%s]}}`, `{"common":%s}`, `{"common":{"ipinfos":%s}}`,
	`{"common":{"ipinfos":[{"ip":%s,"vlan":0,"gateway":"192.168.1.1"}]}}`, `{"common":{"ipinfos":[{"ip":"192.168.1.2/24","vlan":%s,"gateway":"192.168.1.1"}]}}`,
	`{"common":{"ipinfos":[{"ip":"192.168.1.2/24","vlan":0,"gateway":%s}]}}`, `%s`,
}

// hostileArg is a value for the args annotation: half of the time from the fixed catalogue, otherwise a template with a
// token of the wrong type or shape in one slot (numbers, booleans, null, objects, arrays, malformed range strings).
func hostileArg(c interface{ Choose(int) int }) string {
	if c.Choose(2) == 0 {
		return hostileArgs[c.Choose(len(hostileArgs))]
	}
	return fmt.Sprintf(hostileArgTemplates[c.Choose(len(hostileArgTemplates))], hostileJunk[c.Choose(len(hostileJunk))])
}

var hostileOwners = [][]metav1.OwnerReference{
	nil,
	{{Kind: "", Name: ""}},
	{{Kind: "ReplicaSet", Name: "norsdash"}},
	{{Kind: "ReplicaSet", Name: "-"}},
	{{Kind: "ReplicaSet", Name: "a-b"}, {Kind: "StatefulSet", Name: "x"}},
	{{Kind: "My_Kind", Name: "with_underscore"}},
	{{Kind: "StatefulSet", Name: "web"}},
	{{Kind: "TApp", Name: "t"}},
	{{Kind: "DaemonSet", Name: "ds"}},
}

var hostileNames = []string{"p", "web-", "web-99999999999999999999", "a-b-c-0", "x-0", "web--1", "n-007"}

func (w *World) opHostilePod() {
	c := w.C
	w.hostileSeq++
	name := fmt.Sprintf("%s-h%d", pick(c, hostileNames), w.hostileSeq)
	if c.Prob(1, 2) {
		name = pick(c, hostileNames) + fmt.Sprint(w.hostileSeq)
	}
	ann := map[string]string{}
	if c.Prob(3, 4) {
		ann[annArgs] = hostileArg(c)
	}
	switch c.Choose(5) {
	case 0:
		ann[annPolicy] = "junk"
	case 1:
		ann[annPolicy] = "immutable"
	case 2:
		ann[annPolicy] = "never"
	}
	switch c.Choose(6) {
	case 0:
		ann[annPool] = "a_b"
	case 1:
		ann[annPool] = ""
	case 2:
		ann[annPool] = "pool__x_"
	}
	if c.Prob(1, 6) {
		ann = nil
	}
	q := resource.NewQuantity(1, resource.DecimalSI)
	pod := corev1.Pod{TypeMeta: metav1.TypeMeta{Kind: "Pod", APIVersion: "v1"},
		ObjectMeta: metav1.ObjectMeta{Name: name, Namespace: pick(c, []string{"ns1", "ns2"}), Annotations: ann, OwnerReferences: pick(c, hostileOwners)},
		Spec: corev1.PodSpec{Containers: []corev1.Container{{Name: "c", Resources: corev1.ResourceRequirements{
			Requests: corev1.ResourceList{corev1.ResourceName(resName): *q}}}}},
		Status: corev1.PodStatus{Phase: corev1.PodPhase(pick(c, []string{"Pending", "Running", "Succeeded", "Unknown", ""}))}}
	for i := range pod.OwnerReferences {
		pod.OwnerReferences[i].UID = types.UID("o")
		pod.OwnerReferences[i].APIVersion = "v1"
	}
	if c.Prob(1, 8) {
		pod.Spec.Containers = nil
	}
	b, _ := json.Marshal(pod)
	o, code, _ := w.K.Create(nil, "pods", b)
	if code != 0 {
		return
	}
	if p := w.pods[o.Key()]; p != nil {
		p.Key = "hostile"
	}
	w.S.Stat("hostile.pod")
	// the scheduler sends it to the extender; later the kubelet may mark it running (UpdatePod -> syncPodIP)
	inst := w.inst
	podJ, nodesJ := o.JSON, w.nodesJSON()
	node := ""
	if c.Prob(1, 3) && len(w.topo.Nodes) > 0 {
		node = pick(c, w.topo.Nodes).Name // bind without filter, as a retrying scheduler may do
	}
	t := w.spawnGalaxy("hostile-sched:"+o.Key(), "sched", func() { schedTask(inst, podJ, nodesJ, node) })
	t.Data = &taskMeta{start: w.S.Steps, confRead: -1}
	w.wantProbe = "memcheck"
}

var hostileHTTP = [][3]string{
	{"GET", "/v1/ip?page=-1&size=99999999999999999999&sort=%00", ""},
	{"GET", "/v1/ip?keyword=%25&page=99999&size=0", ""},
	{"GET", "/v1/ip?appType=&podName=_&namespace=_&appName=_&poolName=_", ""},
	{"GET", "/v1/ip?appType=a_b", ""},
	{"POST", "/v1/ip", ``},
	{"POST", "/v1/ip", `{`},
	{"POST", "/v1/ip", `{"ips":null}`},
	{"POST", "/v1/ip", `{"ips":[{"ip":""}]}`},
	{"POST", "/v1/ip", `{"ips":[{"ip":"1.2.3.4","appType":"x_y","podName":"_","namespace":"_"}]}`},
	{"POST", "/v1/ip", `{"ips":[{"ip":"192.168.1.2"},{"ip":"192.168.1.2"}]}`},
	{"POST", "/v1/ip", `{"ips":[{"ip":"::1","poolName":"p"}]}`},
	{"POST", "/v1/ip", `[1,2,3]`},
	{"POST", "/v1/pool", ``},
	{"POST", "/v1/pool", `{"name":""}`},
	{"POST", "/v1/pool", `{"name":"a_b","size":-5,"preAllocateIP":true}`},
	{"POST", "/v1/pool", `{"name":"big","size":2147483647,"preAllocateIP":true}`},
	{"POST", "/v1/pool", `{"name":"blue","size":"x"}`},
	{"GET", "/v1/pool/%20", ""},
	{"GET", "/v1/pool/a_b", ""},
	{"DELETE", "/v1/pool/nonexistent", ""},
	{"DELETE", "/v1/pool/", ""},
	{"PUT", "/v1/ip", `{}`},
}

func (w *World) opHostileHTTP() {
	h := pick(w.C, hostileHTTP)
	inst := w.inst
	w.S.Stat("hostile.http")
	var body []byte
	if h[2] != "" || h[0] == "POST" {
		body = []byte(h[2])
	}
	w.spawnGalaxy("hostile-http", "api", func() { httpTask(inst, "hostile", h[0], h[1], body) })
	w.wantProbe = "memcheck"
}

var hostileConf = []string{
	`not json`,
	`{}`,
	`null`,
	`[null]`,
	`[{}]`,
	`[{"nodeSubnets":[],"ips":["192.168.1.2"],"subnet":"192.168.1.0/24","gateway":"192.168.1.1"}]`,
	`[{"nodeSubnets":["10.1.0.0/24"],"ips":["192.168.9.2"],"subnet":"192.168.1.0/24","gateway":"192.168.1.1"}]`,
	`[{"nodeSubnets":["10.1.0.0/24"],"ips":["192.168.1.5~192.168.1.2"],"subnet":"192.168.1.0/24","gateway":"192.168.1.1"}]`,
	`[{"nodeSubnets":["10.1.0.0/24"],"ips":["192.168.1.2","192.168.1.3"],"subnet":"192.168.1.0/24","gateway":"192.168.1.1"}]`,
	`[{"nodeSubnets":["10.1.0.0/24"],"ips":["255.255.255.250~255.255.255.255"],"subnet":"255.255.255.0/24","gateway":"255.255.255.1"}]`,
	`[{"nodeSubnets":["10.1.0.0/24"],"ips":["192.168.1.2~192.168.1.4"],"subnet":"192.168.1.0/24","gateway":"192.168.1.1"},{"nodeSubnets":["10.1.0.0/24"],"ips":["192.168.1.3~192.168.1.6"],"subnet":"192.168.1.0/24","gateway":"192.168.1.1"}]`,
	`[{"routableSubnet":"10.1.0.0/24","ips":["192.168.1.2"],"subnet":"192.168.1.0/24","gateway":"192.168.1.1","vlan":99999}]`,
	`[{"nodeSubnets":["10.1.0.0/24"],"ips":["192.168.1.2"],"subnet":"192.168.1.0/24"}]`,
	`[{"nodeSubnets":["10.1.0.0/24"],"ips":["x"],"subnet":"192.168.1.0/24","gateway":"192.168.1.1"}]`,
}

func (w *World) opHostileConf() {
	js := pick(w.C, hostileConf)
	w.S.Stat("hostile.conf")
	w.K.Patch(nil, "configmaps", "kube-system", "floatingip-config", func(m map[string]interface{}) {
		m["data"] = map[string]interface{}{"floatingips": js}
	})
	// a configuration that galaxy may accept changes the set of configured IPs in a way the model does not track:
	// forget the model's notion of "configured" for the rest of the run by adding an empty version
	w.confVers = append(w.confVers, ConfSet{})
	w.hostileConfActive = true
	inst := w.inst
	w.spawnGalaxy("reload", "reload", func() { reloadTask(inst) })
	w.wantProbe = "memcheck"
}
