package main

// Workload operations of W1: the actors around galaxy-ipam (workload controllers, kubelet, kube-scheduler,
// administrators). Each operation is drawn from the choice stream; operations that involve galaxy code spawn
// a task, the others mutate the API server directly.

import (
	"encoding/json"
	"fmt"
	"sort"
	"strings"

	"tkestack.io/galaxy/verifsim/core"
)

type opFn struct {
	name   string
	weight int
	ok     func() bool
	do     func()
}

func (w *World) opTable() []opFn {
	p := w.prof
	ops := []opFn{
		{"create-app", 3, func() bool { return len(w.apps) < 4 }, w.opCreateApp},
		{"reconcile", 14, func() bool { return w.reconcilable() != nil }, w.opReconcile},
		{"schedule", 30, func() bool { return len(w.schedulable()) > 0 }, w.opSchedule},
		{"kubelet-run", 8, func() bool {
			return len(w.podsWhere(func(p *PodInfo) bool { return p.Node != "" && p.Phase == "Pending" })) > 0
		}, w.opKubeletRun},
		{"delete-pod", 6, func() bool { return len(w.pods) > 0 }, w.opDeletePod},
		{"finish-termination", 3, func() bool { return len(w.podsWhere(func(p *PodInfo) bool { return p.Terminating })) > 0 }, w.opFinishTermination},
		{"scale", 3, func() bool { return len(w.liveApps()) > 0 }, w.opScale},
		{"delete-app", 1, func() bool { return len(w.liveApps()) > 0 }, w.opDeleteApp},
		{"rolling-update", 2, func() bool { return len(w.appsOfKind("dp")) > 0 }, w.opRollingUpdate},
		{"resync", 3, func() bool { return true }, w.opResync},
	}
	if p.Probe != "" {
		ops = append(ops, opFn{"probe-" + p.Probe, 10, func() bool { return w.wantProbe == "" }, func() { w.wantProbe = p.Probe }})
	}
	if p.Ranges {
		ops = append(ops, opFn{"add-range", 4, func() bool { return len(w.rangeApps()) > 0 }, w.opAddRange})
	}
	if p.Hostile {
		ops = append(ops, opFn{"hostile-pod", 14, func() bool { return w.wantProbe == "" }, w.opHostilePod})
		ops = append(ops, opFn{"hostile-http", 8, func() bool { return w.wantProbe == "" }, w.opHostileHTTP})
		ops = append(ops, opFn{"hostile-conf", 2, func() bool { return w.wantProbe == "" }, w.opHostileConf})
	}
	if p.Finish {
		ops = append(ops, opFn{"finish-pod", 5, func() bool {
			return len(w.podsWhere(func(p *PodInfo) bool { return p.Node != "" && p.live() })) > 0
		}, w.opFinishPod})
	}
	if p.AdminRelease {
		ops = append(ops, opFn{"api-release", 6, func() bool { return len(w.K.List("floatingips", "")) > 0 }, w.opAPIRelease})
	}
	if p.AdminList {
		ops = append(ops, opFn{"api-list", 3, func() bool { return true }, w.opAPIList})
	}
	if p.Reload {
		rw := 2
		if p.Restore {
			rw = 5
		}
		ops = append(ops, opFn{"reload", rw, func() bool { return true }, w.opReload})
	}
	if p.Restore {
		// the periodic pod-IP sync pass on its own (it adopts the annotated IPs of running pods whose record was lost)
		ops = append(ops, opFn{"pod-ip-sync", 3, func() bool { return len(w.everDropped) > 0 }, func() {
			inst := w.inst
			w.spawnGalaxy("resync", "resync", func() { syncOnlyTask(inst) })
		}})
	}
	if p.Typo {
		ops = append(ops, opFn{"reload-typo", 1, func() bool { return true }, w.opTypoConf})
	}
	if p.Crash {
		ops = append(ops, opFn{"crash", 1, func() bool { return true }, w.opCrash})
	}
	if p.Relist {
		ops = append(ops, opFn{"relist", 2, func() bool { return true }, w.opRelist})
	}
	if p.Collect {
		ops = append(ops, opFn{"collect", 3, func() bool { return true }, w.opCollect})
	}
	if p.PoolAPI {
		ops = append(ops, opFn{"pool-api", 5, func() bool { return true }, w.opPoolAPI})
	}
	if p.Reserve {
		ops = append(ops, opFn{"reserve-fip", 3, func() bool { return true }, w.opReserveFip})
	}
	return ops
}

func (w *World) doOp() {
	var en []opFn
	total := 0
	for _, o := range w.opTable() {
		if o.ok() {
			en = append(en, o)
			total += o.weight
		}
	}
	if len(en) == 0 {
		w.opsLeft = 0
		return
	}
	w.maybeStall()
	x := w.C.Choose(total)
	for _, o := range en {
		if x < o.weight {
			w.opsLeft--
			w.opsDone++
			w.S.Stat("op." + o.name)
			if len(w.summary) < 60 {
				w.summary = append(w.summary, o.name)
			}
			w.S.Logf("op   %s", o.name)
			o.do()
			return
		}
		x -= o.weight
	}
}

func (w *World) podsWhere(f func(*PodInfo) bool) []*PodInfo {
	var out []*PodInfo
	for _, k := range w.sortedPodKeys() {
		if p := w.pods[k]; f(p) {
			out = append(out, p)
		}
	}
	return out
}

func (w *World) liveApps() []*App {
	var out []*App
	for _, a := range w.apps {
		if !a.Deleted {
			out = append(out, a)
		}
	}
	return out
}

func (w *World) appsOfKind(k string) []*App {
	var out []*App
	for _, a := range w.apps {
		if !a.Deleted && a.Kind == k {
			out = append(out, a)
		}
	}
	return out
}

func pick[T any](c *core.Choices, xs []T) T { return xs[c.Choose(len(xs))] }

// ---- workload controllers -----------------------------------------------------------------------------

func (w *World) opCreateApp() {
	c := w.C
	a := &App{Kind: pick(c, w.prof.Kinds), NS: pick(c, []string{"ns1", "ns2"}), Policy: pick(c, w.prof.Policies)}
	a.Name = fmt.Sprintf("%s%d", map[string]string{"sts": "web", "dp": "api", "tapp": "job", "foo": "foo", "bare": "solo"}[a.Kind], len(w.apps))
	if a.Kind == "tapp" && c.Prob(1, 2) {
		a.CRKind = "Bar" // the cluster has two scalable custom resources
	}
	if a.Kind == "foo" && (w.prop == "C11" || w.prop == "C18") {
		// "any owner kind": kinds whose lower-case form ends in s / ss, digits
		a.OwnerKind = pick(c, []string{"Foo", "Wordpress", "Redis", "Harness", "Db2"})
		if w.prop == "C11" && c.Prob(1, 4) {
			// spellings the key format maps onto the two built-in prefixes: a pod owned directly by a Deployment, and
			// other spellings of StatefulSet
			a.OwnerKind = pick(c, []string{"Deployment", "StatefulSets", "statefulset", "Replicaset"})
		}
	}
	if w.prop == "C11" {
		// DNS-1123 edge shapes: inner dashes, names ending in -<n>, digits first, long names
		shapes := []string{"%s", "a-1-%s", "x-y-2-%s", "0%s", "%s-9", "n234567890123456789012345678901234567890-%s"}
		a.Name = fmt.Sprintf(pick(c, shapes), a.Name)
	}
	a.Replicas = c.Range(1, 3)
	if a.Kind == "bare" {
		a.Replicas = 1
	}
	if a.Kind == "dp" && w.prof.Pools && c.Prob(1, 3) {
		a.Pool = pick(c, []string{"blue", "green"})
		if w.prop == "C11" && c.Prob(1, 6) {
			a.Pool = pick(c, []string{"p-1", "a_b"}) // "any pool name": an annotation value is free text
		}
		if (w.prop == "C04" || w.prop == "C01") && c.Prob(1, 8) {
			a.Pool = "a_b" // keys built from such a name cannot be decoded; whatever cannot be decoded must be left alone
		}
	}
	if a.Kind != "dp" && w.prof.Pools && (w.prop == "C02" || w.prop == "C03" || w.prop == "C04" || w.prop == "C01") && c.Prob(1, 6) {
		// "every pod using a named IP pool": the pool annotation on a statefulset / custom-resource / bare pod (kept like
		// never, under the pod's own key inside the pool's prefix)
		a.Pool = pick(c, []string{"blue", "green"})
		w.S.Stat("pool.on-non-deployment-workload")
	}
	if w.prof.Ranges && (c.Prob(1, 3) || w.prop == "C08" && c.Prob(3, 4)) && !(a.Kind == "dp" && a.effPolicy() != "") {
		a.Ranges = w.genRanges()
	}
	if w.prop == "C07" && a.Kind == "dp" && a.Pool != "" && c.Prob(1, 4) {
		// two features that are each fine alone: a pool annotation and requested ranges on one deployment pod (galaxy
		// refuses such pods; if it ever stopped refusing them, bind would allocate one uncapped IP per range)
		a.Ranges = w.genRanges()
		w.S.Stat("c07.pooled-dp-with-ranges")
		if w.K.Get("pools", "kube-system", a.Pool) == nil {
			// ... in a pool that has a (small) size and nothing pre-allocated
			w.mustCreate("pools", map[string]interface{}{"apiVersion": "galaxy.k8s.io/v1alpha1", "kind": "Pool",
				"metadata": map[string]interface{}{"name": a.Pool, "namespace": "kube-system"}, "size": c.Range(1, 2), "preAllocateIP": false})
		}
	}
	w.apps = append(w.apps, a)
	w.createAppObject(a)
}

// genRanges builds 1..3 pairwise-disjoint request_ip_range lists over the configured IPs (and sometimes
// an unconfigured one).
func (w *World) genRanges() [][]string {
	var ips []string
	for ip := range w.confVers[len(w.confVers)-1] {
		ips = append(ips, ip)
	}
	sort.Strings(ips)
	if len(ips) == 0 {
		return nil
	}
	k := w.C.Range(1, 3)
	var out [][]string
	used := map[string]bool{}
	for i := 0; i < k; i++ {
		var list []string
		n := w.C.Range(1, 2)
		for j := 0; j < n; j++ {
			at := w.C.Choose(len(ips))
			ip := ips[at]
			if used[ip] {
				continue
			}
			used[ip] = true
			list = append(list, ip)
			// sometimes a run of neighbouring addresses (written as one "a~b" range in the annotation)
			for k := 1; k <= 2 && at+k < len(ips) && w.C.Prob(1, 3); k++ {
				if nb := ips[at+k]; !used[nb] {
					used[nb] = true
					list = append(list, nb)
				}
			}
		}
		if len(list) > 0 {
			out = append(out, list)
		}
	}
	return out
}

// reconcilable returns an app that lacks pods.
func (w *World) reconcilable() *App {
	for _, a := range w.liveApps() {
		if w.missingPod(a) != "" {
			return a
		}
	}
	return nil
}

func (w *World) missingPod(a *App) string {
	pods := w.podsOf(a)
	switch a.Kind {
	case "sts", "tapp":
		have := map[string]bool{}
		for _, p := range pods {
			have[p.Name] = true
		}
		for i := 0; i < a.Replicas; i++ {
			n := fmt.Sprintf("%s-%d", a.Name, i)
			if !have[n] {
				return n
			}
		}
	case "dp", "foo":
		n := 0
		for _, p := range pods {
			if p.live() {
				n++
			}
		}
		if n < a.Replicas {
			a.podSeq++
			if a.Kind == "dp" {
				return fmt.Sprintf("%s-rs%d-p%d", a.Name, a.rsGen, a.podSeq)
			}
			return fmt.Sprintf("%s-%d", a.Name, a.podSeq) // Foo controller names pods name-<n>
		}
	case "bare":
		if len(pods) == 0 && a.podSeq == 0 {
			a.podSeq++
			return a.Name + "-0"
		}
	}
	return ""
}

func (w *World) opReconcile() {
	var cands []*App
	for _, a := range w.liveApps() {
		if w.hasMissing(a) {
			cands = append(cands, a)
		}
	}
	if len(cands) == 0 {
		return
	}
	a := pick(w.C, cands)
	name := w.missingPod(a)
	if name == "" {
		return
	}
	w.createPod(a, name)
}

// hasMissing is missingPod without consuming a sequence number.
func (w *World) hasMissing(a *App) bool {
	seq := a.podSeq
	n := w.missingPod(a)
	a.podSeq = seq
	return n != ""
}

func (w *World) createPod(a *App, name string) {
	idx := -1
	if a.Kind == "sts" || a.Kind == "tapp" {
		fmt.Sscanf(name[strings.LastIndex(name, "-")+1:], "%d", &idx)
	}
	pod := w.newPodObject(a, name, idx)
	w.mustCreate("pods", pod)
	p := w.pods[a.NS+"/"+name]
	p.App = a
	p.Key = a.keyOf(name)
	p.Index = idx
	p.Ranges = append([][]string(nil), a.Ranges...)
	w.oracleOnPodCreated(p)
}

// ---- kube-scheduler ------------------------------------------------------------------------------------

func (w *World) schedulable() []*PodInfo {
	return w.podsWhere(func(p *PodInfo) bool {
		return p.Node == "" && p.live() && !p.Terminating && w.schedBusy[p.UID] == nil && !w.unsched[p.UID]
	})
}

func (w *World) nodesJSON() []byte {
	objs := w.K.List("nodes", "")
	var sb strings.Builder
	sb.WriteByte('[')
	for i, o := range objs {
		if i > 0 {
			sb.WriteByte(',')
		}
		sb.Write(o.JSON)
	}
	sb.WriteByte(']')
	return []byte(sb.String())
}

func (w *World) opSchedule() {
	cands := w.schedulable()
	if len(cands) == 0 {
		return
	}
	// kube-scheduler mostly works on pods galaxy-ipam's informer has seen too; sometimes it is ahead
	var seen []*PodInfo
	for _, p := range cands {
		if o := w.K.ViewGet("pods", p.NS, p.Name); o != nil && o.UID == p.UID {
			seen = append(seen, p)
		}
	}
	if !w.C.Prob(w.aheadNum, 8) {
		cands = seen
	}
	if len(cands) == 0 {
		// nothing the informer has seen yet: let it catch up instead
		if w.busy["pods"] == nil && w.K.Pending("pods") > 0 {
			w.deliver("pods")
		}
		return
	}
	p := pick(w.C, cands)
	o := w.K.Get("pods", p.NS, p.Name)
	inst := w.inst
	podJ, nodesJ := o.JSON, w.nodesJSON()
	t := w.S.Spawn("sched:"+p.key()+"#"+p.UID, w.proc, func() { schedTask(inst, podJ, nodesJ, "") })
	t.Tag = "sched"
	t.Data = &taskMeta{start: w.S.Steps, confRead: -1, podUID: p.UID}
	w.schedBusy[p.UID] = t
	w.openFilterWindow(p)
	w.schedBefore[p.UID] = w.storeIPsOfKey(p.Key)
	w.schedTouched[p.UID] = false
}

// ---- kubelet -------------------------------------------------------------------------------------------

func (w *World) setPhase(p *PodInfo, phase string) {
	w.K.Patch(nil, "pods", p.NS, p.Name, func(m map[string]interface{}) {
		st, _ := m["status"].(map[string]interface{})
		if st == nil {
			st = map[string]interface{}{}
			m["status"] = st
		}
		st["phase"] = phase
		if phase == "Running" && len(p.IPs) > 0 {
			st["podIP"] = p.IPs[0]
		}
	})
}

func (w *World) opKubeletRun() {
	c := w.podsWhere(func(p *PodInfo) bool { return p.Node != "" && p.Phase == "Pending" })
	if len(c) > 0 {
		w.setPhase(pick(w.C, c), "Running")
	}
}

func (w *World) opFinishPod() {
	c := w.podsWhere(func(p *PodInfo) bool { return p.Node != "" && p.live() })
	if len(c) > 0 {
		p := pick(w.C, c)
		w.oracleOnPodEnds(p, "finished")
		w.setPhase(p, pick(w.C, []string{"Succeeded", "Failed"}))
	}
}

func (w *World) deletePod(p *PodInfo, why string) {
	w.oracleOnPodEnds(p, why)
	w.K.Delete(nil, "pods", p.NS, p.Name)
}

func (w *World) opDeletePod() {
	ks := w.sortedPodKeys()
	if len(ks) == 0 {
		return
	}
	p := w.pods[pick(w.C, ks)]
	if !p.Terminating && p.Node != "" && p.live() && w.C.Prob(1, 3) {
		// graceful deletion: the API server only sets the deletion timestamp; the pod exists, keeps running and keeps its
		// IP until the kubelet has stopped it and the object is removed (a later delete-pod / finish-termination)
		p.Terminating = true
		w.K.Patch(nil, "pods", p.NS, p.Name, func(m map[string]interface{}) {
			md, _ := m["metadata"].(map[string]interface{})
			if md != nil {
				md["deletionTimestamp"] = "2026-01-01T00:00:00Z"
				md["deletionGracePeriodSeconds"] = 30
			}
		})
		w.S.Stat("pod.graceful-deletion-started")
		return
	}
	w.deletePod(p, "deleted")
}

// opFinishTermination: the kubelet has stopped a gracefully deleted pod, the object goes away.
func (w *World) opFinishTermination() {
	ps := w.podsWhere(func(p *PodInfo) bool { return p.Terminating })
	if len(ps) == 0 {
		return
	}
	w.deletePod(pick(w.C, ps), "deleted")
}

func (w *World) opScale() {
	a := pick(w.C, w.liveApps())
	if a.Kind == "bare" {
		return
	}
	n := w.C.Range(0, 3)
	w.setReplicas(a, n)
	w.modelAppChanged(a)
	w.trimPods(a)
}

// trimPods deletes the pods a controller would delete after a scale-down.
func (w *World) trimPods(a *App) {
	pods := w.podsOf(a)
	switch a.Kind {
	case "sts", "tapp":
		for _, p := range pods {
			if p.Index >= a.Replicas {
				w.deletePod(p, "scaled-down")
			}
		}
	default:
		var live []*PodInfo
		for _, p := range pods {
			if p.live() {
				live = append(live, p)
			}
		}
		for len(live) > a.Replicas {
			i := w.C.Choose(len(live))
			w.deletePod(live[i], "scaled-down")
			live = append(live[:i], live[i+1:]...)
		}
	}
}

func (w *World) opDeleteApp() {
	a := pick(w.C, w.liveApps())
	a.Deleted = true
	podsFirst := w.C.Prob(1, 2)
	del := func() {
		if kind := appKindRes(a); kind != "" && a.Exists {
			w.K.Delete(nil, kind, a.NS, a.Name)
			a.Exists = false
		}
		w.oracleOnAppDeleted(a)
	}
	if !podsFirst {
		del()
	}
	for _, p := range w.podsOf(a) {
		w.deletePod(p, "app-deleted")
	}
	if podsFirst {
		del()
	}
}

// opRollingUpdate starts a new ReplicaSet generation for a deployment: one old pod is deleted; the controller
// model then creates its replacement under the new ReplicaSet name.
func (w *World) opRollingUpdate() {
	a := pick(w.C, w.appsOfKind("dp"))
	a.rsGen++
	old := w.podsOf(a)
	for _, p := range old {
		if p.live() {
			w.deletePod(p, "rolled")
			break
		}
	}
}

// ---- galaxy-ipam internal triggers ---------------------------------------------------------------------

func (w *World) opResync() {
	inst := w.inst
	sync := w.C.Prob(1, 2)
	w.spawnGalaxy("resync", "resync", func() { resyncTask(inst, sync) })
}

func (w *World) opCollect() {
	inst := w.inst
	w.spawnGalaxy("collect", "collect", func() { collectTask(inst) })
}

func (w *World) opReload() {
	var hot map[string]bool
	if w.prof.Restore {
		hot = map[string]bool{}
		for _, p := range w.podsWhere(func(p *PodInfo) bool { return p.Node != "" && p.live() }) {
			for _, ip := range p.IPs {
				hot[ip] = true
			}
		}
	}
	w.typoActive = false
	desc := w.topo.mutate(w.C, w.prof.Restore, hot)
	w.publishConf(w.topo.Snapshot())
	js := w.topo.JSON()
	w.K.Patch(nil, "configmaps", "kube-system", "floatingip-config", func(m map[string]interface{}) {
		m["data"] = map[string]interface{}{"floatingips": js}
	})
	w.S.Logf("conf %s -> %s", desc, js)
	w.S.Stat("reload." + desc)
	// C19: the real daemon reloads from exactly one goroutine (the periodic loop), a second concurrent reload would
	// be an artefact of the harness
	if w.C.Prob(2, 3) && !w.armed("C19") && !w.reloadInFlight() {
		inst := w.inst
		w.spawnGalaxy("reload", "reload", func() { reloadTask(inst) })
	}
}

// opTypoConf publishes the current configuration with one mistyped range. galaxy-ipam has to refuse such a text as a
// whole and keep the configuration in force (it is not a configuration version of the model); the next reload
// operation publishes a valid text again.
func (w *World) opTypoConf() {
	var pools []map[string]interface{}
	if err := json.Unmarshal([]byte(w.topo.JSON()), &pools); err != nil || len(pools) == 0 {
		return
	}
	type site struct{ p, i int }
	var sites []site
	for pi, pm := range pools {
		if ips, ok := pm["ips"].([]interface{}); ok {
			for i := range ips {
				sites = append(sites, site{pi, i})
			}
		}
	}
	if len(sites) == 0 {
		return
	}
	st := sites[w.C.Choose(len(sites))]
	ips := pools[st.p]["ips"].([]interface{})
	str, _ := ips[st.i].(string)
	first, last := str, str
	if k := strings.Index(str, "~"); k >= 0 {
		first, last = str[:k], str[k+1:]
	}
	var bad string
	switch w.C.Choose(4) {
	case 0:
		bad = first + "~" // the end is missing
	case 1:
		bad = first + "-" + last // wrong separator
	case 2:
		bad = first[:strings.LastIndex(first, ".")] + ".300" // not an address
	default:
		if first != last {
			bad = last + "~" + first // end before start
		} else {
			bad = first + "~" + first[:strings.LastIndex(first, ".")]
		}
	}
	ips[st.i] = bad
	b, _ := json.Marshal(pools)
	js := string(b)
	w.K.Patch(nil, "configmaps", "kube-system", "floatingip-config", func(m map[string]interface{}) {
		m["data"] = map[string]interface{}{"floatingips": js}
	})
	w.typoActive = true
	w.S.Logf("conf typo (%s for %s) -> %s", bad, str, js)
	w.S.Stat("reload.typo")
	if w.C.Prob(2, 3) && !w.armed("C19") && !w.reloadInFlight() {
		inst := w.inst
		w.spawnGalaxy("reload", "reload", func() { reloadTask(inst) })
	}
}

func (w *World) opCrash() {
	if w.inst == nil {
		return
	}
	w.S.Stat("fault.crash")
	w.S.Sig("F:crash")
	n := w.S.Kill(w.proc)
	w.S.Logf("crash: killed %d tasks of process %d", n, w.proc)
	w.inst = nil
	w.ready = false
	w.crashed = true
	w.busy = map[string]*core.Task{}
	w.schedBusy = map[string]*core.Task{}
	w.inflight = nil
}

func (w *World) opRelist() {
	w.S.Stat("fault.informer.relist")
	w.S.Sig("F:relist")
	w.K.RelistQueue("pods")
}

// ---- administrator -------------------------------------------------------------------------------------

type releaseEntry struct {
	IP        string `json:"ip"`
	Namespace string `json:"namespace,omitempty"`
	AppName   string `json:"appName,omitempty"`
	PodName   string `json:"podName,omitempty"`
	PoolName  string `json:"poolName,omitempty"`
	AppType   string `json:"appType,omitempty"`
}

// opAPIRelease posts a release request for a stored FloatingIP, built the way an administrator would build it
// from the key fields.
func (w *World) opAPIRelease() {
	fips := w.K.List("floatingips", "")
	if len(fips) == 0 {
		return
	}
	f := decodeFip(pick(w.C, fips))
	// half of the time the administrator goes for an IP that is reserved for an identity whose pod is currently gone
	// (the interesting race: the pod comes back while the release is in progress)
	if w.C.Prob(1, 2) {
		var reserved []*FipInfo
		for _, o := range fips {
			if x := decodeFip(o); isPodKey(x.Key) && w.M.idents[x.Key] != nil && w.livePodWithKey(x.Key) == nil {
				reserved = append(reserved, x)
			}
		}
		if len(reserved) > 0 {
			f = pick(w.C, reserved)
		}
	}
	// the administrator may act on a listing taken earlier: the entry then names an owner the IP no longer has, and
	// must not release the IP from whoever holds it now
	w.staleFips = append(w.staleFips, decodeFip(pick(w.C, fips)))
	if len(w.staleFips) > 1 && w.C.Prob(1, 4) {
		f = w.staleFips[w.C.Choose(len(w.staleFips)-1)]
		w.S.Stat("admin.release-from-old-listing")
		if cur := w.storeFip(f.IP); cur == nil || cur.Key != f.Key {
			w.S.Stat("admin.release-entry-outdated")
		}
	}
	e, ok := entryFromKey(f.IP, f.Key)
	if !ok {
		return
	}
	body, _ := json.Marshal(map[string]interface{}{"ips": []releaseEntry{e}})
	inst := w.inst
	w.oracleOnAdminRelease(f)
	w.spawnGalaxy("api-release:"+f.IP, "api", func() { httpTask(inst, "release", "POST", "/v1/ip", body) })
}

// entryFromKey decodes a documented key into the API fields.
func entryFromKey(ip, key string) (releaseEntry, bool) {
	e := releaseEntry{IP: ip}
	rest := key
	if strings.HasPrefix(key, "pool__") {
		parts := strings.SplitN(key[len("pool__"):], "_", 2)
		if len(parts) != 2 {
			return e, false
		}
		e.PoolName = parts[0]
		rest = parts[1]
		if rest == "" {
			return e, true
		}
	}
	parts := strings.Split(rest, "_")
	if len(parts) != 4 {
		return e, false
	}
	switch parts[0] {
	case "dp":
		e.AppType = "deployment"
	case "sts":
		e.AppType = "statefulset"
	default:
		e.AppType = parts[0]
	}
	e.Namespace, e.AppName, e.PodName = parts[1], parts[2], parts[3]
	return e, true
}

func (w *World) opAPIList() {
	inst := w.inst
	url := "/v1/ip?size=" + itoa(w.C.Range(1, 5)) + "&page=" + itoa(w.C.Choose(3))
	if w.C.Prob(1, 2) {
		url += "&sort=" + strings.ReplaceAll(pick(w.C, []string{"namespace asc", "namespace desc", "podname", "podname desc", "policy", "policy desc", "ip desc", "ip"}), " ", "%20")
	}
	if w.C.Prob(1, 4) {
		url += "&keyword=" + pick(w.C, []string{"sts", "dp_", "pool__", "a"})
	}
	w.spawnGalaxy("api-list", "api", func() { httpTask(inst, "list", "GET", url, nil) })
}

func (w *World) opPoolAPI() {
	inst := w.inst
	name := pick(w.C, []string{"blue", "green"})
	switch w.C.Choose(5) {
	case 4:
		// the administrator applies the Pool object itself (kubectl apply): the size is in force, nothing is pre-allocated
		size, pre := w.C.Range(0, 4), w.C.Prob(1, 2)
		if w.K.Get("pools", "kube-system", name) == nil {
			w.mustCreate("pools", map[string]interface{}{"apiVersion": "galaxy.k8s.io/v1alpha1", "kind": "Pool",
				"metadata": map[string]interface{}{"name": name, "namespace": "kube-system"}, "size": size, "preAllocateIP": pre})
		} else {
			w.K.Patch(nil, "pools", "kube-system", name, func(m map[string]interface{}) { m["size"] = size; m["preAllocateIP"] = pre })
		}
		b, _ := json.Marshal(map[string]interface{}{"name": name, "size": size, "preAllocateIP": pre})
		w.poolBodies[name] = append(w.poolBodies[name], b)
		w.S.Stat("pool.applied-directly")
	case 0:
		w.spawnGalaxy("pool-get", "api", func() { httpTask(inst, "pool-get", "GET", "/v1/pool/"+name, nil) })
	case 1:
		w.spawnGalaxy("pool-del", "api", func() { httpTask(inst, "pool-del", "DELETE", "/v1/pool/"+name, nil) })
	default:
		body, _ := json.Marshal(map[string]interface{}{"name": name, "size": w.C.Range(0, 4), "preAllocateIP": w.C.Prob(1, 2)})
		if old := w.poolBodies[name]; len(old) > 0 && w.C.Prob(1, 3) {
			// a client re-applies a desired state it posted earlier (automation, a retry): the request may equal a
			// version of the Pool that is no longer the stored one
			body = old[w.C.Choose(len(old))]
			w.S.Stat("pool.reapplied-earlier-request")
		} else {
			w.poolBodies[name] = append(w.poolBodies[name], body)
		}
		w.spawnGalaxy("pool-set", "api", func() { httpTask(inst, "pool-set", "POST", "/v1/pool", body) })
		if w.C.Prob(1, 3) {
			// a second client applies another size for the same pool at the same moment (two administrators, or a
			// retry racing the original request): create-or-update must leave the pool within a size that was stored
			body2, _ := json.Marshal(map[string]interface{}{"name": name, "size": w.C.Range(0, 4), "preAllocateIP": w.C.Prob(1, 2)})
			w.spawnGalaxy("pool-set", "api", func() { httpTask(inst, "pool-set", "POST", "/v1/pool", body2) })
			w.S.Stat("pool.concurrent-set")
		}
	}
}

func (w *World) opReserveFip() {
	// an administrator reserves (or un-reserves) an IP with a labelled FloatingIP object
	var ips []string
	for ip := range w.confVers[len(w.confVers)-1] {
		ips = append(ips, ip)
	}
	sort.Strings(ips)
	if len(ips) == 0 {
		return
	}
	ip := pick(w.C, ips)
	if o := w.K.Get("floatingips", "", ip); o != nil {
		if f := decodeFip(o); f.Reserved {
			w.K.Delete(nil, "floatingips", "", ip)
			w.S.Stat("admin.unreserve")
		}
		return
	}
	w.mustCreate("floatingips", map[string]interface{}{"apiVersion": "galaxy.k8s.io/v1alpha1", "kind": "FloatingIP",
		"metadata": map[string]interface{}{"name": ip, "labels": map[string]interface{}{"reserved": ""}},
		// the attribute of a hand-made object is free text: empty, a note, or something that is not JSON at all
		"spec": map[string]interface{}{"key": "admin-reserved", "attribute": pick(w.C, []string{"", "", "reserved for the db team", "{", "10.49.27.3"}), "policy": 2, "updateTime": nil}})
	w.S.Stat("admin.reserve")
}

// rangeApps: workloads whose pods may request IP ranges.
func (w *World) rangeApps() []*App {
	var out []*App
	for _, a := range w.liveApps() {
		if !(a.Kind == "dp" && a.effPolicy() != "") && a.Kind != "foo" {
			out = append(out, a)
		}
	}
	return out
}

// opAddRange changes the ranges future pods of a workload request (a template update): one more pairwise-disjoint
// list is appended. Identities that still hold IPs from earlier incarnations then own some ranges and not others.
func (w *World) opAddRange() {
	a := pick(w.C, w.rangeApps())
	used := map[string]bool{}
	for _, l := range a.Ranges {
		for _, ip := range l {
			used[ip] = true
		}
	}
	var ips []string
	for ip := range w.confVers[len(w.confVers)-1] {
		if !used[ip] {
			ips = append(ips, ip)
		}
	}
	sort.Strings(ips)
	if len(ips) == 0 || len(a.Ranges) >= 3 {
		return
	}
	list := []string{pick(w.C, ips)}
	if w.C.Prob(1, 2) && len(ips) > 1 {
		if x := pick(w.C, ips); x != list[0] {
			list = append(list, x)
		}
	}
	a.Ranges = append(append([][]string(nil), a.Ranges...), list)
	// the rolling update of the template re-creates the pods: delete one live pod so that its successor asks for the new ranges
	for _, p := range w.podsOf(a) {
		if p.live() {
			w.deletePod(p, "template-changed")
			break
		}
	}
}

// maybeStall injects sched.stall: one galaxy-ipam task (a resync pass, an unbind, an API request, a scheduling
// attempt ...) is not scheduled for a while, as under a GC pause, a slow API call or a loaded node. This is what makes
// "between its check and its write" windows long enough for whole pod lifecycles to fit in.
func (w *World) maybeStall() {
	if !w.prof.Stall || w.phase != 1 || !w.C.Prob(1, 5) {
		return
	}
	var cands []*core.Task
	for _, t := range w.S.Tasks() {
		if t.Proc == w.proc && t.Proc != 0 && t.Tag != "init" && w.stalled[t] == 0 {
			cands = append(cands, t)
		}
	}
	if len(cands) == 0 {
		return
	}
	t := pick(w.C, cands)
	w.stalled[t] = w.S.Steps + 30 + w.C.Choose(400)
	w.S.Stat("fault.sched.stall")
	w.S.Sig("F:stall:" + t.Tag)
}
