package main

import (
	"encoding/json"
	"fmt"
	"net"
	"sort"
	"strings"

	"tkestack.io/galaxy/verifsim/core"
)

// PoolCfg is one floatingip pool of the generated configuration.
type PoolCfg struct {
	NodeSubnets []string `json:"nodeSubnets"`
	IPs         []string `json:"ips"`
	Subnet      string   `json:"subnet"`
	Gateway     string   `json:"gateway"`
	Vlan        int      `json:"vlan,omitempty"`
	ranges      [][2]int // host numbers inside the /24
	sub         int      // pod subnet index
}

// Node is a cluster node.
type Node struct {
	Name   string
	IP     string
	Subnet string // node subnet it lies in ("" = outside every configured subnet)
}

// Topo is the generated cluster topology.
type Topo struct {
	Subnets []string
	Pools   []*PoolCfg
	Nodes   []Node
	cursor  map[int]int
	dropped []droppedRange // ranges taken out by a shrink, most recent last (a later reload may bring one back)
}

type droppedRange struct {
	pool *PoolCfg
	r    [2]int
}

func podIP(sub, host int) string { return fmt.Sprintf("192.168.%d.%d", sub, host) }

func (p *PoolCfg) rebuild() {
	p.IPs = nil
	for _, r := range p.ranges {
		if r[0] == r[1] {
			p.IPs = append(p.IPs, podIP(p.sub, r[0]))
		} else {
			p.IPs = append(p.IPs, podIP(p.sub, r[0])+"~"+podIP(p.sub, r[1]))
		}
	}
}

// AllIPs expands the pool's ranges.
func (p *PoolCfg) AllIPs() []string {
	var out []string
	for _, r := range p.ranges {
		for h := r[0]; h <= r[1]; h++ {
			out = append(out, podIP(p.sub, h))
		}
	}
	return out
}

func genTopo(c *core.Choices) *Topo {
	t := &Topo{cursor: map[int]int{}}
	all := []string{"10.1.0.0/24", "10.2.0.0/24", "10.3.0.7/32"}
	nSub := c.Range(1, 3)
	t.Subnets = all[:nSub]
	for i, s := range t.Subnets {
		if strings.HasSuffix(s, "/32") {
			t.Nodes = append(t.Nodes, Node{Name: fmt.Sprintf("node%d-0", i+1), IP: "10.3.0.7", Subnet: s})
			continue
		}
		n := c.Range(1, 2)
		for j := 0; j < n; j++ {
			t.Nodes = append(t.Nodes, Node{Name: fmt.Sprintf("node%d-%d", i+1, j), IP: fmt.Sprintf("10.%d.0.%d", i+1, 10+j), Subnet: s})
		}
	}
	if c.Prob(1, 3) {
		t.Nodes = append(t.Nodes, Node{Name: "node-out", IP: "10.9.0.5"})
	}
	nPools := c.Range(1, 4)
	for i := 0; i < nPools; i++ {
		p := &PoolCfg{}
		p.sub = c.Range(1, 3)
		if t.cursor[p.sub] == 0 {
			t.cursor[p.sub] = 2
		}
		p.Subnet = fmt.Sprintf("192.168.%d.0/24", p.sub)
		p.Gateway = fmt.Sprintf("192.168.%d.1", p.sub)
		p.Vlan = c.Choose(3)
		// node subnets: a non-empty subset (1 or 2)
		first := c.Choose(len(t.Subnets))
		p.NodeSubnets = []string{t.Subnets[first]}
		if len(t.Subnets) > 1 && c.Prob(1, 3) {
			second := (first + 1 + c.Choose(len(t.Subnets)-1)) % len(t.Subnets)
			p.NodeSubnets = append(p.NodeSubnets, t.Subnets[second])
		}
		nr := c.Range(1, 2)
		for j := 0; j < nr; j++ {
			t.addRange(c, p)
		}
		p.rebuild()
		t.Pools = append(t.Pools, p)
	}
	return t
}

func (t *Topo) addRange(c *core.Choices, p *PoolCfg) {
	ln := 1 + c.Choose(3)
	start := t.cursor[p.sub]
	if start+ln > 250 {
		return
	}
	p.ranges = append(p.ranges, [2]int{start, start + ln - 1})
	t.cursor[p.sub] = start + ln + 1 // leave a gap so that ranges are not mergeable
}

// JSON renders the floatingips configuration (pool order as stored; galaxy sorts by gateway itself).
func (t *Topo) JSON() string {
	var ps []*PoolCfg
	for _, p := range t.Pools {
		if len(p.ranges) > 0 {
			ps = append(ps, p)
		}
	}
	if ps == nil {
		ps = []*PoolCfg{}
	}
	b, _ := json.Marshal(ps)
	return string(b)
}

// ConfSet is the set of IPs of one configuration version with the pool each belongs to.
type ConfSet map[string]*PoolCfg

func (t *Topo) Snapshot() ConfSet {
	cs := ConfSet{}
	for _, p := range t.Pools {
		cp := *p
		cp.ranges = append([][2]int(nil), p.ranges...)
		cp.NodeSubnets = append([]string(nil), p.NodeSubnets...)
		for _, ip := range cp.AllIPs() {
			cs[ip] = &cp
		}
	}
	return cs
}

// mutate changes the configuration (for reload operations). Returns a description.
func (t *Topo) mutate(c *core.Choices, restore bool, hot map[string]bool) string {
	n := 5
	if restore {
		n = 6 // profiles without the restore step keep their choice stream
	}
	k := c.Choose(n)
	if restore && len(t.dropped) > 0 && c.Prob(1, 2) {
		k = 5 // an edit that took a range out is usually noticed and undone soon
	}
	switch k {
	case 5: // restore: the range dropped last comes back (an administrator undoing a mistaken edit); allocations of
		// running pods in it were dropped meanwhile and have to be adopted again
		if n := len(t.dropped); n > 0 {
			d := t.dropped[n-1]
			t.dropped = t.dropped[:n-1]
			d.pool.ranges = append(d.pool.ranges, d.r)
			sort.Slice(d.pool.ranges, func(a, b int) bool { return d.pool.ranges[a][0] < d.pool.ranges[b][0] })
			d.pool.rebuild()
			return "restore"
		}
		return "restore-skip"
	case 4: // change the mask of a node subnet (every node stays inside): the node subnets of the pools change
		i := c.Choose(len(t.Subnets))
		old := t.Subnets[i]
		var nw string
		switch {
		case strings.HasSuffix(old, ".0/24"):
			nw = strings.TrimSuffix(old, "/24") + "/25"
		case strings.HasSuffix(old, ".0/25"):
			nw = strings.TrimSuffix(old, "/25") + "/24"
		default:
			return "remask-skip"
		}
		t.Subnets[i] = nw
		for _, p := range t.Pools {
			for k, s := range p.NodeSubnets {
				if s == old {
					p.NodeSubnets[k] = nw
				}
			}
		}
		for k := range t.Nodes {
			if t.Nodes[k].Subnet == old {
				t.Nodes[k].Subnet = nw
			}
		}
		return "remask"
	case 0: // grow: add a range to a pool
		p := t.Pools[c.Choose(len(t.Pools))]
		t.addRange(c, p)
		p.rebuild()
		return "grow"
	case 1: // shrink: drop a range
		if restore && len(hot) > 0 && c.Prob(2, 3) {
			// prefer a range some bound pod has its address in (the record of a running pod is lost)
			type cand struct {
				p *PoolCfg
				i int
			}
			var cs []cand
			for _, p := range t.Pools {
				for i, r := range p.ranges {
					for h := r[0]; h <= r[1]; h++ {
						if hot[podIP(p.sub, h)] {
							cs = append(cs, cand{p, i})
							break
						}
					}
				}
			}
			if len(cs) > 0 {
				x := cs[c.Choose(len(cs))]
				t.dropped = append(t.dropped, droppedRange{x.p, x.p.ranges[x.i]})
				x.p.ranges = append(x.p.ranges[:x.i], x.p.ranges[x.i+1:]...)
				x.p.rebuild()
				return "shrink-hot"
			}
		}
		p := t.Pools[c.Choose(len(t.Pools))]
		if len(p.ranges) > 0 {
			i := c.Choose(len(p.ranges))
			t.dropped = append(t.dropped, droppedRange{p, p.ranges[i]})
			p.ranges = append(p.ranges[:i], p.ranges[i+1:]...)
			p.rebuild()
		}
		return "shrink"
	case 2: // move a range to another pool of the same pod subnet
		p := t.Pools[c.Choose(len(t.Pools))]
		var others []*PoolCfg
		for _, q := range t.Pools {
			if q != p && q.sub == p.sub {
				others = append(others, q)
			}
		}
		if len(p.ranges) > 0 && len(others) > 0 {
			q := others[c.Choose(len(others))]
			i := c.Choose(len(p.ranges))
			r := p.ranges[i]
			p.ranges = append(p.ranges[:i], p.ranges[i+1:]...)
			q.ranges = append(q.ranges, r)
			sort.Slice(q.ranges, func(a, b int) bool { return q.ranges[a][0] < q.ranges[b][0] })
			// moving may make two ranges adjacent: keep the configuration valid by checking gaps
			ok := true
			for k := 1; k < len(q.ranges); k++ {
				if q.ranges[k][0] <= q.ranges[k-1][1]+1 {
					ok = false
				}
			}
			if !ok { // undo
				for k := range q.ranges {
					if q.ranges[k] == r {
						q.ranges = append(q.ranges[:k], q.ranges[k+1:]...)
						break
					}
				}
				p.ranges = append(p.ranges, r)
				sort.Slice(p.ranges, func(a, b int) bool { return p.ranges[a][0] < p.ranges[b][0] })
			}
			p.rebuild()
			q.rebuild()
		}
		return "move"
	default: // reorder pools
		if len(t.Pools) > 1 {
			i := c.Choose(len(t.Pools) - 1)
			t.Pools[i], t.Pools[i+1] = t.Pools[i+1], t.Pools[i]
		}
		return "reorder"
	}
}

// SubnetOfNode returns the node subnet a node lies in under the current (latest published) configuration.
func (t *Topo) SubnetOfNode(name string) string {
	for _, n := range t.Nodes {
		if n.Name == name {
			return n.Subnet
		}
	}
	return ""
}

// NodeIn says whether the node's address lies in one of the listed node subnets. Routability is judged by
// containment, not by the spelling of the subnet, because a reload may change a node subnet's mask.
func (t *Topo) NodeIn(name string, subnets []string) bool {
	for _, n := range t.Nodes {
		if n.Name != name {
			continue
		}
		ip := net.ParseIP(n.IP)
		for _, s := range subnets {
			if _, cidr, err := net.ParseCIDR(s); err == nil && cidr.Contains(ip) {
				return true
			}
		}
	}
	return false
}
