package main

// Probes: checks that are only meaningful when nothing is in flight. A probe is requested by a workload
// operation, starts once the system is quiet (no runnable task, no pending ordinary timer, no handler busy),
// and while it runs the world offers no other action: everything else is frozen, no fault is injected.

import (
	"encoding/json"
	"fmt"
	"net/url"
	"sort"
	"strings"

	corev1 "k8s.io/api/core/v1"
	"tkestack.io/galaxy/pkg/api/k8s/schedulerapi"
	"tkestack.io/galaxy/verifsim/core"
)

type probeState struct {
	kind     string // memcheck, c06, c11
	task     *core.Task
	tag      string
	pod      *PodInfo
	before   []string // store IPs of the pod's key before the probe
	fr       *filterReport
	br       *bindReport
	pages    []httpReport
	post     *httpReport
	entries  []map[string]interface{}
	fipMut   []string // FloatingIP mutations observed during the probe: verb ip key
	omit     bool
	want     []string
	haveWant bool
}

func (w *World) quiet() bool {
	if len(w.S.Enabled()) > 0 || len(w.inflight) > 0 || len(w.schedBusy) > 0 || len(w.busy) > 0 {
		return false
	}
	if _, ok := w.S.NextTimer(false); ok {
		return false
	}
	return true
}

// probeActions is consulted first by Actions: non-nil result replaces the normal action list.
func (w *World) probeActions() ([]core.Action, bool) {
	if w.probe != nil {
		return nil, true // frozen while a probe runs
	}
	if w.wantProbe == "" {
		return nil, false
	}
	if !w.quiet() {
		// let things settle: deliveries are still offered by the caller, operations are not
		return nil, false
	}
	if w.K.Pending("floatingips") > 0 || w.K.Pending("pods") > 0 {
		return nil, false
	}
	kind := w.wantProbe
	return []core.Action{{Name: "probe:" + kind, Do: func() { w.startProbe(kind) }}}, true
}

func (w *World) startProbe(kind string) {
	w.wantProbe = ""
	w.probeSeq++
	inst := w.inst
	tag := fmt.Sprintf("p%d", w.probeSeq)
	pr := &probeState{kind: kind, tag: tag}
	w.S.Stat("probe.run." + kind)
	savedFaults := w.faultsOn
	w.faultsOn = false
	w.probeFaultsSaved = savedFaults
	switch kind {
	case "memcheck":
		pr.task = w.S.Spawn("probe:memcheck:"+tag, w.proc, func() { dumpTask(inst, tag) })
	case "c06":
		p := w.pickProbePod()
		if p == nil {
			w.faultsOn = savedFaults
			return
		}
		pr.pod = p
		// the IPs the identity holds that pertain to this request: all of them without requested ranges, otherwise
		// those inside a requested range (an IP left over from an earlier template is not handed to this pod)
		for _, ip := range w.storeIPsOfKey(p.Key) {
			in := len(p.Ranges) == 0
			for _, l := range p.Ranges {
				if hasStr(l, ip) {
					in = true
				}
			}
			if in {
				pr.before = append(pr.before, ip)
			}
		}
		o := w.K.Get("pods", p.NS, p.Name)
		podJ, nodesJ := o.JSON, w.nodesJSON()
		pr.task = w.S.Spawn("probe:c06:"+tag+":"+p.key(), w.proc, func() { c06Task(inst, tag, podJ, nodesJ) })
	case "c11":
		size := w.C.Range(1, 4)
		pr.omit = w.C.Prob(1, 2)
		pick := w.C.Choose(64)
		omit := pr.omit
		// "sorted by IP" has four spellings in the API: ascending (also the default and the bare field name) and descending
		sortBy := pick2(w.C, []string{"ip asc", "ip desc", "ip", "", "IP DESC"})
		pr.task = w.S.Spawn("probe:c11:"+tag, w.proc, func() { c11Task(inst, tag, size, pick, omit, sortBy) })
	}
	pr.task.Tag = "probe"
	pr.task.Data = &taskMeta{start: w.S.Steps, confRead: -1}
	w.probe = pr
}

// probeIdle is called from Idle while a probe is active; it evaluates the probe once its task has ended.
func (w *World) probeIdle() bool {
	pr := w.probe
	if pr == nil {
		return false
	}
	if !w.taskDone(pr.task) {
		if b := w.S.Blocked(); len(b) > 0 {
			if w.armed("C18") {
				w.fail("C18.wedged", "wedged", "a follow-up ordinary operation can never complete, blocked on locks: %s", taskNames(b))
			} else {
				w.fail("deadlock", "deadlock", "probe blocked forever: %s", taskNames(b))
			}
			return false
		}
		return true
	}
	w.probe = nil
	w.faultsOn = w.probeFaultsSaved
	switch pr.kind {
	case "memcheck":
		w.evalMemcheck(pr.tag)
	case "c06":
		w.evalC06(pr)
	case "c11":
		w.evalC11(pr)
	}
	return w.S.Viol == nil
}

// ---- memory vs store -------------------------------------------------------------------------------------

// confInForce returns the newest configuration version whose IP set equals the set of IPs in the dump.
func (w *World) confInForce(mem []memEntry) ConfSet {
	cs, _ := w.confInForceIdx(mem)
	return cs
}

// confInForceIdx also returns the index of the version (-1 if none matches).
func (w *World) confInForceIdx(mem []memEntry) (ConfSet, int) {
	// identify the version by the full mapping ip -> (node subnets, gateway, vlan): "move" and "reorder" reloads
	// keep the IP set and change only the pools
	sig := func(subnets []string, gw string, vlan int) string {
		s := append([]string(nil), subnets...)
		sort.Strings(s)
		return strings.Join(s, ",") + "|" + gw + "|" + fmt.Sprint(vlan)
	}
	ips := map[string]string{}
	for _, e := range mem {
		ips[e.IP] = sig(e.Subnets, e.Gw, int(e.Vlan))
	}
	for i := len(w.confVers) - 1; i >= 0; i-- {
		cs := w.confVers[i]
		if len(cs) != len(ips) {
			continue
		}
		same := true
		for ip, p := range cs {
			if ips[ip] != sig(p.NodeSubnets, p.Gateway, p.Vlan) {
				same = false
				break
			}
		}
		if same {
			return cs, i
		}
	}
	return nil, -1
}

// evalMemcheck compares the in-memory table with the persisted objects on every IP that is both in the
// configuration in force (the dump) and in the newest configuration.
func (w *World) evalMemcheck(tag string) {
	mem := w.memdump[tag]
	if mem == nil {
		w.S.Infra = "memory dump " + tag + " missing"
		return
	}
	w.S.Stat("probe.memcheck")
	if !w.armed("C05", "C09", "C08") {
		return
	}
	if w.lostReplies > 0 {
		return // after a lost reply only a restart can restore equality (DESIGN §4 C05)
	}
	if _, idx := w.confInForceIdx(mem); idx > w.inForceLB {
		w.inForceLB = idx // the tables match this version: older ones can no longer be in force
	}
	if _, idx := w.confInForceIdx(mem); idx < 0 && !w.hostileConfActive {
		// nothing is in flight, yet the tables (allocated + unallocated, with the pool of each IP) correspond to no
		// configuration version that was ever published: a reload left them half swapped
		w.fail(w.prop+".tables-match-no-configuration", "tables-match-no-configuration",
			"with nothing in flight the in-memory tables hold %d IPs whose ip->(node subnets, gateway, vlan) mapping equals none of the %d configuration versions", len(mem), len(w.confVers))
		return
	}
	for _, e := range mem {
		if !w.inNewestConf(e.IP) {
			continue
		}
		f := w.storeFip(e.IP)
		var diff string
		switch {
		case f == nil && e.Key != "":
			diff = fmt.Sprintf("memory records owner %q, the store has no object", e.Key)
		case f != nil && e.Key == "":
			diff = fmt.Sprintf("the store records owner %q, memory has the IP as unallocated", f.Key)
		case f != nil && (e.Key != f.Key || int(e.Policy) != f.Policy || e.Node != f.Node || e.UID != f.UID):
			diff = fmt.Sprintf("memory {key %q policy %d node %q uid %q} vs store {key %q policy %d node %q uid %q}",
				e.Key, e.Policy, e.Node, e.UID, f.Key, f.Policy, f.Node, f.UID)
		case f != nil && e.Labels != f.Reserved:
			diff = fmt.Sprintf("reserved label differs: memory %v store %v", e.Labels, f.Reserved)
		}
		if diff != "" {
			oracle, key := w.prop+".memory-store-differ", "memory-store-differ"
			w.fail(oracle, key, "after all operations completed, IP %s: %s", e.IP, diff)
			return
		}
	}
}

// ---- C06: filter/bind agreement -------------------------------------------------------------------------

func (w *World) pickProbePod() *PodInfo {
	c := w.podsWhere(func(p *PodInfo) bool {
		if p.Node != "" || !p.live() || w.unsched[p.UID] || p.App == nil {
			return false
		}
		o := w.K.ViewGet("pods", p.NS, p.Name)
		return o != nil && o.UID == p.UID
	})
	if len(c) == 0 {
		return nil
	}
	return pick(w.C, c)
}

func c06Task(inst *Instance, tag string, podJSON, nodesJSON []byte) {
	dumpTask(inst, tag)
	var pod corev1.Pod
	var nodes []corev1.Node
	_ = json.Unmarshal(podJSON, &pod)
	_ = json.Unmarshal(nodesJSON, &nodes)
	filtered, failed, err := inst.plugin.Filter(&pod, nodes)
	fr := filterReport{PodKey: pod.Namespace + "/" + pod.Name, UID: string(pod.UID)}
	for i := range filtered {
		fr.Nodes = append(fr.Nodes, filtered[i].Name)
	}
	for n := range failed {
		fr.Failed = append(fr.Failed, n)
	}
	sort.Strings(fr.Failed)
	if err != nil {
		fr.Err = err.Error()
	}
	r := report("w.probe.filtered", fr)
	if r.Msg == "" {
		return
	}
	berr := inst.plugin.Bind(&schedulerapi.ExtenderBindingArgs{PodName: pod.Name, PodNamespace: pod.Namespace, PodUID: pod.UID, Node: r.Msg})
	br := bindReport{PodKey: fr.PodKey, UID: fr.UID, Node: r.Msg}
	if berr != nil {
		br.Err = berr.Error()
	}
	report("w.probe.bound", br)
}

func (w *World) poolOf(cs ConfSet, ip string) *PoolCfg { return cs[ip] }

func hasStr(xs []string, s string) bool {
	for _, x := range xs {
		if x == s {
			return true
		}
	}
	return false
}

// expectedNodesFresh: for a pod that holds no IP and has the default policy, the nodes that still have a free
// routable IP (per requested range list).
func (w *World) expectedNodesFresh(cs ConfSet, ranges [][]string) []string {
	free := func(ip string) bool { return w.K.Get("floatingips", "", ip) == nil }
	subnetsOf := func(cands []string) map[string]bool {
		out := map[string]bool{}
		for _, ip := range cands {
			if p := cs[ip]; p != nil && free(ip) {
				for _, s := range p.NodeSubnets {
					out[s] = true
				}
			}
		}
		return out
	}
	var set map[string]bool
	if len(ranges) == 0 {
		var all []string
		for ip := range cs {
			all = append(all, ip)
		}
		set = subnetsOf(all)
	} else {
		for i, list := range ranges {
			s := subnetsOf(list)
			if i == 0 {
				set = s
			} else {
				for k := range set {
					if !s[k] {
						delete(set, k)
					}
				}
			}
		}
	}
	var nodes []string
	for _, n := range w.topo.Nodes {
		var subs []string
		for k := range set {
			subs = append(subs, k)
		}
		if w.topo.NodeIn(n.Name, subs) {
			nodes = append(nodes, n.Name)
		}
	}
	sort.Strings(nodes)
	return nodes
}

func (w *World) evalC06(pr *probeState) {
	if !w.armed("C06") || pr.fr == nil {
		return
	}
	mem := w.memdump[pr.tag]
	cs := w.confInForce(mem)
	// When the tables match one published configuration the clauses are judged against it. When they match none (a
	// reload in flight when the run was cut, or tables that mis-attribute an IP), a clause fails only if it fails
	// under every published configuration: no configuration that may be in force justifies what was observed.
	css := []ConfSet{cs}
	if cs == nil {
		w.S.Stat("c06.conf-in-force-unknown")
		css = w.confVers
	}
	p := pr.pod
	fr := pr.fr
	w.S.Stat("c06.probes")
	if fr.Err != "" {
		return // filter refused the pod: nothing is approved
	}
	got := append([]string(nil), fr.Nodes...)
	sort.Strings(got)
	// a pod that already holds an IP is only offered nodes from which that IP is routable
	var msg string
	for _, c := range css {
		msg = ""
		for _, ip := range pr.before {
			pool := c[ip]
			if pool == nil {
				continue
			}
			for _, n := range got {
				if !w.topo.NodeIn(n, pool.NodeSubnets) {
					msg = fmt.Sprintf("pod %s holds IP %s (node subnets %v) but filter offered node %s (%s)", p.key(), ip, pool.NodeSubnets, n, w.topo.SubnetOfNode(n))
				}
			}
		}
		if msg == "" {
			break
		}
	}
	if msg != "" {
		w.fail("C06.offered-unroutable-node", "offered-unroutable-node", "%s", msg)
		return
	}
	if cs != nil && len(pr.before) == 0 && p.App.effPolicy() == "" && pr.haveWant {
		want := pr.want // computed at the instant filter returned (before the bind allocated anything)
		if strings.Join(want, ",") != strings.Join(got, ",") {
			w.fail("C06.filter-node-set", "filter-node-set",
				"fresh default-policy pod %s (ranges %v): filter offered %v, nodes with a free routable IP are %v", p.key(), p.Ranges, got, want)
			return
		}
		w.S.Stat("c06.exact-node-set-checked")
	}
	if pr.br == nil {
		return
	}
	if pr.br.Err != "" {
		if strings.Contains(pr.br.Err, "waiting for delete event") {
			w.S.Stat("c06.documented-refusal")
			return
		}
		w.fail("C06.approved-node-not-bindable", "approved-node-not-bindable",
			"filter offered node %s for pod %s and nothing changed, but bind failed: %s", pr.br.Node, p.key(), pr.br.Err)
		return
	}
	// the binding: every IP belongs to a pool routable from the node; mask, gateway and VLAN are the pool's
	nodeSub := w.topo.SubnetOfNode(pr.br.Node)
	cur := w.pods[p.key()]
	if cur == nil || cur.UID != p.UID || len(cur.IPInfos) == 0 {
		w.fail("C06.bound-without-ip", "bound-without-ip", "bind of %s to %s succeeded but the pod carries no IP", p.key(), pr.br.Node)
		return
	}
	var clause string
	for _, c := range css {
		clause, msg = "", ""
		for _, ii := range cur.IPInfos {
			parts := strings.SplitN(ii.IP, "/", 2)
			pool := c[parts[0]]
			if pool == nil {
				clause, msg = "bound-unconfigured-ip", fmt.Sprintf("pod %s bound with %s which is in no configured pool", p.key(), ii.IP)
				break
			}
			if !w.topo.NodeIn(pr.br.Node, pool.NodeSubnets) {
				clause, msg = "bound-unroutable-ip", fmt.Sprintf("pod %s bound to %s (%s) with IP %s of a pool routable from %v", p.key(), pr.br.Node, nodeSub, ii.IP, pool.NodeSubnets)
				break
			}
			wantMask := pool.Subnet[strings.Index(pool.Subnet, "/")+1:]
			if len(parts) != 2 || parts[1] != wantMask || ii.Gateway != pool.Gateway || ii.Vlan != pool.Vlan {
				clause, msg = "ipinfo-differs-from-pool", fmt.Sprintf("pod %s bound with %+v, its pool is subnet %s gateway %s vlan %d", p.key(), ii, pool.Subnet, pool.Gateway, pool.Vlan)
				break
			}
		}
		if clause == "" {
			break
		}
	}
	if clause != "" {
		w.fail("C06."+clause, clause, "%s", msg)
		return
	}
	w.S.Stat("c06.bind-checked")
}

// ---- C11: list / release agreement ----------------------------------------------------------------------

type listResp struct {
	Last          bool                     `json:"last"`
	TotalElements int                      `json:"totalElements"`
	Content       []map[string]interface{} `json:"content"`
}

func pick2(c *core.Choices, l []string) string { return l[c.Choose(len(l))] }

func c11Task(inst *Instance, tag string, size, pick int, omitAppType bool, sortBy string) {
	var all []map[string]interface{}
	for page := 0; page < 200; page++ {
		u := fmt.Sprintf("/v1/ip?size=%d&page=%d", size, page)
		if sortBy != "" {
			u += "&sort=" + url.QueryEscape(sortBy)
		}
		code, body := doHTTP(inst, "GET", u, nil)
		report("w.probe.page", httpReport{Tag: tag, Method: "GET", URL: u, Code: code, Body: body})
		var lr listResp
		if code != 200 || json.Unmarshal([]byte(body), &lr) != nil {
			return
		}
		all = append(all, lr.Content...)
		if lr.Last {
			break
		}
	}
	var alloc []map[string]interface{}
	for _, e := range all {
		if s, _ := e["podName"].(string); s != "" {
			alloc = append(alloc, e)
		} else if s, _ := e["poolName"].(string); s != "" {
			alloc = append(alloc, e)
		} else if s, _ := e["appName"].(string); s != "" {
			alloc = append(alloc, e)
		}
	}
	if len(alloc) == 0 {
		return
	}
	// post back 1-3 distinct listed entries in one request (an administrator releasing several IPs at once)
	n := 1 + (pick/7)%3
	if n > len(alloc) {
		n = len(alloc)
	}
	var posts []interface{}
	var chosen []map[string]interface{}
	for j := 0; j < n; j++ {
		e := alloc[(pick+j*5)%len(alloc)]
		dup := false
		for _, c := range chosen {
			if c["ip"] == e["ip"] {
				dup = true
			}
		}
		if dup {
			continue
		}
		chosen = append(chosen, e)
		post := map[string]interface{}{}
		for _, k := range []string{"ip", "namespace", "appName", "podName", "poolName", "appType"} {
			if v, ok := e[k]; ok {
				post[k] = v
			}
		}
		if omitAppType && post["appType"] == "statefulset" {
			delete(post, "appType") // documented: omitted means statefulset
		}
		posts = append(posts, post)
	}
	eb, _ := json.Marshal(chosen)
	core.CallNow(core.Req{Op: "w.probe.entry", B: eb})
	body, _ := json.Marshal(map[string]interface{}{"ips": posts})
	code, rb := doHTTP(inst, "POST", "/v1/ip", body)
	report("w.probe.post", httpReport{Tag: tag, Method: "POST", URL: "/v1/ip", Code: code, Body: rb})
}

func (w *World) evalC11(pr *probeState) {
	if !w.armed("C11") {
		return
	}
	w.S.Stat("c11.probes")
	// union of pages vs the allocated set
	seen := map[string]int{}
	var order []string
	byIP := map[string]map[string]interface{}{}
	for _, pg := range pr.pages {
		var lr listResp
		if pg.Code != 200 || json.Unmarshal([]byte(pg.Body), &lr) != nil {
			w.fail("C11.list-failed", "list-failed", "GET %s -> %d %s", pg.URL, pg.Code, pg.Body)
			return
		}
		for _, e := range lr.Content {
			ip, _ := e["ip"].(string)
			seen[ip]++
			order = append(order, ip)
			byIP[ip] = e
		}
	}
	for _, o := range w.K.List("floatingips", "") {
		f := decodeFip(o)
		if w.memHas(pr, f.IP) && seen[f.IP] != 1 {
			w.fail("C11.paging", "paging", "allocated IP %s (key %q) appears %d times in the paged list (%d pages)", f.IP, f.Key, seen[f.IP], len(pr.pages))
			return
		}
	}
	for _, ip := range sortedKeys(seen) {
		if n := seen[ip]; n > 1 {
			w.fail("C11.paging", "paging-duplicate", "IP %s appears %d times in the paged list", ip, n)
			return
		}
	}
	// entries decode back to the identity the key was built from
	for _, o := range w.K.List("floatingips", "") {
		f := decodeFip(o)
		e := byIP[f.IP]
		id := w.M.idents[f.Key]
		if e == nil || id == nil {
			continue
		}
		want := map[string]string{"namespace": id.NS, "appName": id.App.appNameInKey(), "podName": id.Pod, "poolName": id.App.Pool, "appType": appTypeOf(id.App)}
		for _, k := range sortedKeys(want) {
			v := want[k]
			got, _ := e[k].(string)
			if got != v {
				key := "key-decode:" + k
				if strings.Contains(id.App.Pool, "_") {
					key = "pool-name-with-underscore"
				}
				w.fail("C11.key-decode", key, "IP %s key %q lists %s=%q, the pod it was built from has %q", f.IP, f.Key, k, got, v)
				return
			}
		}
	}
	if len(pr.entries) == 0 || pr.post == nil {
		return
	}
	listed := map[string]map[string]interface{}{}
	for _, e := range pr.entries {
		ip, _ := e["ip"].(string)
		listed[ip] = e
	}
	// the post-back never touches an IP that was not posted
	for _, m := range pr.fipMut {
		parts := strings.SplitN(m, " ", 3)
		if listed[parts[1]] == nil {
			w.fail("C11.released-other-ip", "released-other-ip", "posting listed entries %v back mutated FloatingIP %s (%s)", sortedKeys(listed), parts[1], m)
			return
		}
	}
	for _, ip := range sortedKeys(listed) {
		e := listed[ip]
		releasable, _ := e["releasable"].(bool)
		gone := w.K.Get("floatingips", "", ip) == nil
		if releasable && !gone {
			key := "listed-releasable-not-released"
			if pr.omit && e["appType"] == "statefulset" {
				key += ":appType-omitted"
			}
			if f := w.storeFip(ip); f != nil && strings.HasPrefix(f.Key, "pool__") && strings.Count(strings.SplitN(f.Key, "_dp_", 2)[0], "_") > 3 {
				key = "pool-name-with-underscore"
			}
			w.fail("C11.listed-releasable-not-released", key,
				"the list reports %v as releasable, posting it back (with %d other entries, appType omitted for statefulsets: %v) answered %d %s and did not release it",
				e, len(listed)-1, pr.omit, pr.post.Code, pr.post.Body)
			return
		}
		if !releasable && gone {
			w.fail("C11.released-not-releasable", "released-not-releasable", "the list reports %v as not releasable, yet posting it back released it", e)
			return
		}
	}
	w.S.Stat("c11.postback-checked")
}

func (w *World) memHas(pr *probeState, ip string) bool { return true }

func appTypeOf(a *App) string {
	switch a.Kind {
	case "sts":
		return "statefulset"
	case "dp":
		return "deployment"
	case "bare":
		return "NULL"
	case "tapp":
		return strings.ToLower(a.crKind())
	case "foo":
		switch a.typePrefix() {
		case "sts_":
			return "statefulset"
		case "dp_":
			return "deployment"
		}
		return strings.ToLower(a.ownerKind())
	}
	return a.Kind
}

// onProbeFiltered is called at the instant the probe's Filter call returned.
func (w *World) onProbeFiltered(pr *probeState) {
	if pr.pod == nil || pr.pod.App == nil {
		return
	}
	if cs := w.confInForce(w.memdump[pr.tag]); cs != nil {
		pr.want = w.expectedNodesFresh(cs, pr.pod.Ranges)
		pr.haveWant = true
	}
}
