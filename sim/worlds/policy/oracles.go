package main

// Oracles of C15 and C16. Only the clauses of the property named on the command line are armed.
//
// C15 (four clauses of one property):
//   C15.missing-reference  event oracle, at the instant the kernel refuses a rule batch (iptables-restore, or an
//                          iptables -A/-I) because a chain, jump target or set it names does not exist;
//   C15.foreign-modified   event oracle, after every command that changed kernel state, and again at the end:
//                          the foreign part of iptables-save/ipset save differs from the start of the run;
//   C15.not-converged      quiescent: after one full synchronisation the galaxy-owned part differs from the model;
//   C15.not-idempotent     quiescent: a second full synchronisation changed the kernel state.
//
// C16.semantics            quiescent, on the state after the full synchronisation: the packet walk over the saved
//                          rules and sets disagrees with the reference evaluator for some flow.
//
// Known-finding explanations (DESIGN §6): a failure that the reference model reproduces with named deviation
// switches turned on is reported with finding key = those switch names (joined by "+"); anything else gets a
// key starting with "unexplained". Switches of C16: D6, D11, D12, D13 (model.go). Switches of C15:
//   D8  "stale-policy-chain-in-use": at the start of a synchronisation some rule still jumps to a GLX-PLCY chain
//       that no current policy owns. galaxy then submits "-X" for it in the same batch as all policy chains, the
//       kernel refuses the batch ("Too many links") and nothing of it is applied; the pod chains written next may
//       name policy chains that were never created. With the switch on, the model makes no statement about
//       that synchronisation (and about the one after it, which only then gets rid of the chain).
//   S1  "dead-pod-chain-kept": chains (and their dispatch rules) of pods that are not pods of this node any more
//       are nobody's to clean: a full synchronisation visits living pods only. With the switch on, such chains
//       and the dispatch rules jumping to them are exempt from the comparison.
//   S3  "old-address-dispatch-kept": a dispatch rule for a living pod that carries an address the pod no longer
//       has is never removed while the pod stays selected (SyncPodChains only ensures the rule for the current
//       address), and when the pod stops being selected deletePodChains removes ONE dispatch rule per pass and
//       cannot delete the still referenced chain. With the switch on, the chain of a living pod for which a
//       dispatch chain held an old-address rule or more than one rule when the synchronisation started, and
//       the dispatch rules jumping to it, are exempt.

import (
	"fmt"
	"sort"
	"strings"

	"tkestack.io/galaxy/verifsim/simkernel"
)

func (w *World) onKernelEvent(ev *simkernel.Event) {
	w.S.Stat("op.exec." + ev.Tool)
	if ev.Reject != simkernel.RejNone {
		w.S.Stat("kernel.reject." + ev.Reject.String())
	}
	if w.S.TraceOn {
		if ev.Tool == "iptables-restore" {
			w.S.Logf("kern iptables-restore %v <<%s>>", ev.Args, strings.ReplaceAll(strings.TrimSpace(ev.Stdin), "\n", " | "))
		}
		if ev.Exit != 0 {
			w.S.Logf("kern %s %v -> exit %d reject=%s subject=%s line=%d: %s", ev.Tool, ev.Args, ev.Exit, ev.Reject, ev.Subject, ev.Line, strings.TrimSpace(ev.Out))
		}
	}
	if ev.Reject == simkernel.RejSyntax {
		// the kernel model does not understand something galaxy submitted: never a verdict
		w.S.Infra = fmt.Sprintf("simulated kernel cannot parse %s %v: %s", ev.Tool, ev.Args, strings.TrimSpace(ev.Out))
		w.S.Stop()
		return
	}
	// bookkeeping for the D8 explanation
	if ev.Tool == "iptables-restore" && (ev.Reject == simkernel.RejTooManyLinks || ev.Reject == simkernel.RejNoTarget) {
		w.damaged, w.rebuildClean = true, false
	}
	if ev.Tool == "iptables-restore" {
		switch {
		case ev.Reject == simkernel.RejTooManyLinks && strings.HasPrefix(ev.Subject, "GLX-PLCY-"):
			w.d8Active, w.d8Seen = true, true
			w.S.Stat("probe.policy-batch-refused-too-many-links")
		case ev.Exit == 0 && strings.Contains(ev.Stdin, ":GLX-PLCY-"):
			w.d8Active = false
		}
	}
	if ev.Tool == "ipset" && ev.Reject == simkernel.RejSetExists {
		w.typeConflict = true
		w.S.Stat("probe.ipset-create-refused-type-conflict")
	}
	if !w.armed("C15") {
		return
	}
	if w.stage == 2 && ev.Changed {
		w.changed2 = append(w.changed2, fmt.Sprintf("%s %v", ev.Tool, ev.Args))
	}
	// clause 4: a batch of rules that names a chain or set which does not exist at that point
	batch := ev.Tool == "iptables-restore" || (ev.Tool == "iptables" && len(ev.Args) > 0 && (ev.Args[0] == "-A" || ev.Args[0] == "-I"))
	if batch && (ev.Reject == simkernel.RejNoChain || ev.Reject == simkernel.RejNoTarget || ev.Reject == simkernel.RejNoSet) {
		what := fmt.Sprintf("%s refused (%s %q", ev.Tool, ev.Reject, ev.Subject)
		if ev.Line > 0 {
			what += fmt.Sprintf(", line %d", ev.Line)
		}
		what += ")"
		if w.typeConflict {
			w.fail("C15.missing-reference", "set-type-conflict", "%s after `ipset create` was refused (a set of another type holds the name), which makes syncRules return before any policy chain is written: %s",
				what, strings.ReplaceAll(strings.TrimSpace(ev.Stdin), "\n", " | "))
		} else if w.d8Active {
			w.fail("C15.missing-reference", "D8", "%s after the policy-chain batch was refused with \"Too many links\" (stale policy chain still in use): %s",
				what, strings.ReplaceAll(strings.TrimSpace(ev.Stdin), "\n", " | "))
		} else {
			w.fail("C15.missing-reference", "unexplained", "%s: %s %v <<%s>>", what, ev.Tool, ev.Args, strings.ReplaceAll(strings.TrimSpace(ev.Stdin), "\n", " | "))
		}
		return
	}
	// clause 3: foreign state is never modified
	if ev.Changed {
		w.checkForeign(fmt.Sprintf("%s %v", ev.Tool, ev.Args))
	}
}

func (w *World) checkForeign(at string) {
	if !w.armed("C15") {
		return
	}
	if f := foreignText(w.Kern); f != w.foreign0 {
		key := "foreign-modified"
		d := firstDiffLine(w.foreign0, f)
		w.fail("C15.foreign-modified", key, "foreign chains/rules/sets changed by %s: %s", at, d)
	}
}

func firstDiffLine(a, b string) string {
	la, lb := strings.Split(a, "\n"), strings.Split(b, "\n")
	for i := 0; i < len(la) || i < len(lb); i++ {
		x, y := "", ""
		if i < len(la) {
			x = la[i]
		}
		if i < len(lb) {
			y = lb[i]
		}
		if x != y {
			return fmt.Sprintf("line %d: %q became %q", i+1, x, y)
		}
	}
	return "no difference"
}

// staleRefs lists the GLX-PLCY chains that some rule jumps to although no current policy owns them: the
// precondition of switch D8.
func staleRefs(o *Observed, e *Expected) []string {
	seen := map[string]bool{}
	for _, c := range sortedKeys(o.Chains) {
		for _, r := range o.Chains[c] {
			if strings.HasPrefix(r.Target, "GLX-PLCY-") {
				if _, ok := e.PolChain[r.Target]; !ok {
					seen[r.Target] = true
				}
			}
		}
	}
	return sortedKeys(seen)
}

func (w *World) beforeFinalSync() {
	w.k0 = observe(w.Kern)
	if w.k0.perr != "" {
		w.S.Infra = w.k0.perr
		w.S.Stop()
	}
}

// bestDiff compares against the model under each setting of the semantic switch that changes compiled state
// (D6): whether galaxy's peers mean what the API says is C16's question, not C15's.
func (w *World) bestDiff(o *Observed) ([]DiffItem, *Expected, Switches) {
	var best []DiffItem
	var bestE *Expected
	var bestS Switches
	for i, sw := range []Switches{{}, {D6: true}} {
		e := compile(w.cl, sw)
		d := diff(e, o)
		if i == 0 || len(d) < len(best) {
			best, bestE, bestS = d, e, sw
		}
		if len(d) == 0 {
			break
		}
	}
	return best, bestE, bestS
}

func (w *World) localPodChains() map[string]*Pod {
	out := map[string]*Pod{}
	for _, p := range w.cl.podList() {
		if p.local() {
			out[podChainName(p)] = p
		}
	}
	return out
}

// oldAddressChains returns the pod chains of living pods of this node for which, when the synchronisation
// started, a dispatch chain held a rule with an address the pod does not have (any more), or more than one
// rule: the precondition of switch S3.
func (w *World) oldAddressChains() map[string]bool {
	out := map[string]bool{}
	local := w.localPodChains()
	for _, dc := range []string{ingressDispatch, egressDispatch} {
		n := map[string]int{}
		for _, r := range w.k0.Chains[dc] {
			pod := local[r.Target]
			if pod == nil {
				continue
			}
			n[r.Target]++
			a := r.Dst
			if dc == egressDispatch {
				a = r.Src
			}
			if n[r.Target] > 1 || a == nil || a.Bits != 32 || simkernel.U32ToIP(a.IP) != pod.IP {
				out[r.Target] = true
			}
		}
	}
	return out
}

// explainConvergence removes the differences that the listed C15 switches predict and names the switches used.
func (w *World) explainConvergence(d []DiffItem, e *Expected, o *Observed) (rest []DiffItem, used []string) {
	local := w.localPodChains()
	oldAddr := w.oldAddressChains()
	s1, s3 := false, false
	for _, x := range d {
		switch {
		case x.Kind == "extra-pod-chain" && local[x.Object] == nil:
			s1 = true
		case x.Kind == "extra-dispatch" && strings.HasPrefix(x.Target, "GLX-POD-") && local[x.Target] == nil:
			s1 = true
		case x.Kind == "extra-dispatch" && oldAddr[x.Target]:
			// a rule for an address the pod no longer has is never removed while the pod is selected, and when
			// the pod stops being selected deletePodChains removes one dispatch rule per pass, so the chain
			// (which cannot be deleted while referenced) and the remaining rules outlive the pass
			s3 = true
		case x.Kind == "extra-pod-chain" && oldAddr[x.Object]:
			s3 = true
		default:
			rest = append(rest, x)
		}
	}
	if s1 {
		used = append(used, "S1")
	}
	if s3 {
		used = append(used, "S3")
	}
	return rest, used
}

func (w *World) afterFirstSync() {
	o := observe(w.Kern)
	if o.perr != "" {
		w.S.Infra = o.perr
		return
	}
	w.k1text = w.Kern.SaveAll()
	d, e, sw := w.bestDiff(o)
	w.states = append(w.states, fmt.Sprintf("pol=%d podchains=%d sets=%d d6=%v prior=%s", len(e.PolChain), len(e.Pods), len(e.Sets), sw.D6, w.priorDesc))
	if len(d) == 0 {
		w.S.Stat("c15.converged")
	} else {
		w.unconverged = diffKinds(d)
		w.S.Stat("c15.unconverged")
	}
	rest, used, stale0, conflict := w.explainAll(d, e, o)
	if w.armed("C15") {
		w.checkForeign("end of synchronisation")
		if len(d) > 0 {
			w.failNotConverged("after a full synchronisation", d, rest, used, stale0, conflict)
			return
		}
	}
	if w.armed("C16") {
		if len(d) > 0 {
			// A node that did not reach the expected state for a reason C15 already reports as a known finding
			// (stale leftovers: D8, S1, S3) is not judged a second time here. Any other difference from the
			// expected compiled state does NOT excuse the rules: they are judged as they are (a wrong
			// compilation is exactly what C16 is about).
			if len(rest) == 0 {
				w.S.Stat("c16.skipped-c15-known")
				w.c16Skipped = true
				return
			}
			w.S.Stat("c16.judged-although-unconverged")
		}
		w.judgeFlows(o, "after one full synchronisation")
	}
}

// explainAll: which differences do the listed C15 switches predict? (w.k0 = the state the synchronisation started from)
func (w *World) explainAll(d []DiffItem, e *Expected, o *Observed) (rest []DiffItem, used, stale0, conflict []string) {
	stale0 = staleRefs(w.k0, e)
	if w.convPendingNow && (w.damagedAtStart || !w.rebuildClean) && len(stale0) == 0 {
		// a synchronisation of the history that started from, or itself met, a refused batch: D8's aftermath
		stale0 = []string{"(a rule batch was refused since the last clean synchronisation)"}
	}
	conflict = typeConflicts(w.k0, e)
	if len(d) == 0 {
		return
	}
	rest = d
	if len(conflict) > 0 {
		// createIPSet returns at the refused create: sets after it (map order) are not reconciled, syncRules
		// returns before the policy batch and before the stale sets are destroyed - D8's consequences plus sets
		rest = explainD8(rest, e)
		var r2 []DiffItem
		for _, x := range rest {
			switch x.Kind {
			case "set-type", "set-members", "missing-set":
			default:
				r2 = append(r2, x)
			}
		}
		rest = r2
		used = append(used, "set-type-conflict")
	}
	if len(stale0) > 0 {
		rest = explainD8(rest, e)
		used = append(used, "D8")
	}
	var u2 []string
	rest, u2 = w.explainConvergence(rest, e, o)
	if len(stale0) == 0 && len(conflict) == 0 {
		used = u2 // with D8 in play the key stays "D8" (S1/S3 leftovers ride along, as before)
	}
	return
}

func (w *World) failNotConverged(when string, d, rest []DiffItem, used, stale0, conflict []string) {
	switch {
	case len(rest) > 0:
		w.fail("C15.not-converged", "unexplained:"+diffKinds(rest), "%s (prior state %s; switches that explain other differences: %v): %s",
			when, w.priorDesc, used, diffText(rest, 8))
	case len(conflict) > 0:
		w.fail("C15.not-converged", "set-type-conflict", "%s: a set of another type held a name galaxy needs when the synchronisation started (%s): %s",
			when, strings.Join(conflict, ","), diffText(d, 6))
	case len(stale0) > 0:
		w.fail("C15.not-converged", "D8", "%s: a stale policy chain was still in use when the synchronisation started (%s): %s",
			when, strings.Join(stale0, ","), diffText(d, 6))
	default:
		w.fail("C15.not-converged", strings.Join(used, "+"), "%s: %s", when, diffText(d, 6))
	}
}

// checkSyncConverged is C15's convergence clause for the full synchronisations that happen DURING the history: every
// policy handler (Add/Update/DeletePolicy run syncNetworkPolices + rules + pods) and every periodic Run is "a full
// synchronisation", and what it must arrive at is what the informer views showed while it ran (handlers run one at
// a time, so the views did not move). Judged as soon as the task has ended, before anything else happens.
func (w *World) checkSyncConverged() {
	what := w.convWhat
	w.convPending = false
	o := observe(w.Kern)
	if o.perr != "" {
		w.S.Infra = o.perr
		w.S.Stop()
		return
	}
	savedCl, savedK0 := w.cl, w.k0
	w.cl, w.k0 = w.view, w.convK0
	defer func() { w.cl, w.k0 = savedCl, savedK0 }()
	d, e, _ := w.bestDiff(o)
	if len(d) == 0 {
		w.S.Stat("c15.converged-in-history")
		return
	}
	w.S.Stat("c15.unconverged-in-history")
	w.convPendingNow = true
	rest, used, stale0, conflict := w.explainAll(d, e, o)
	w.convPendingNow = false
	w.failNotConverged("after the full synchronisation run by "+what, d, rest, used, stale0, conflict)
}

// typeConflicts lists the sets that exist under a name the current policies need, with another type.
func typeConflicts(o *Observed, e *Expected) []string {
	var out []string
	for _, n := range sortedKeys(e.Sets) {
		if os := o.Sets[n]; os != nil && os.Type != e.Sets[n].Type {
			out = append(out, n)
		}
	}
	return out
}

// explainD8 removes the differences switch D8 predicts. The policy-chain batch of the synchronisation was
// refused as a whole, so: stale policy chains and their (in use) sets are still there, new policy chains are
// missing, existing ones keep their old rules; and the chain of a pod that must jump to a missing policy chain
// could not be written - its batch is refused too and SyncPodChains returns before touching the pod's dispatch
// rules. Nothing else: in particular D8 never keeps the chain of a pod that no policy selects any more.
func explainD8(d []DiffItem, e *Expected) []DiffItem {
	missing := map[string]bool{}
	for _, x := range d {
		if x.Kind == "missing-policy-chain" {
			missing[x.Object] = true
		}
	}
	podHit := map[string]bool{}
	for n, ep := range e.Pods {
		for _, j := range ep.Jumps {
			if missing[j] {
				podHit[n] = true
			}
		}
	}
	var rest []DiffItem
	for _, x := range d {
		switch x.Kind {
		case "extra-policy-chain", "extra-set", "missing-policy-chain", "policy-rules":
			continue
		case "missing-pod-chain", "pod-chain-rules":
			if podHit[x.Object] {
				continue
			}
		case "missing-dispatch", "extra-dispatch":
			if podHit[x.Target] {
				continue
			}
		}
		rest = append(rest, x)
	}
	return rest
}

func (w *World) afterSecondSync() {
	if w.armed("C16") && !w.c16Skipped && w.S.Viol == nil && w.S.Infra == "" {
		// a second synchronisation of the unchanged state: if it changed anything, what the rules mean now is
		// judged as well (identical state, identical verdicts otherwise)
		if w.Kern.SaveAll() != w.k1text {
			w.S.Stat("c16.second-sync-changed-state")
			o := observe(w.Kern)
			if o.perr != "" {
				w.S.Infra = o.perr
				return
			}
			w.judgeFlows(o, "after a second full synchronisation of the unchanged state")
		}
		if w.S.Viol == nil && w.S.Infra == "" {
			w.judgeNodeTraffic(observe(w.Kern))
		}
		return
	}
	if !w.armed("C15") {
		return
	}
	w.checkForeign("end of second synchronisation")
	if w.S.Viol != nil {
		return
	}
	k2 := w.Kern.SaveAll()
	if k2 == w.k1text && len(w.changed2) > 0 {
		// same state at the end, but not because nothing was done: commands of the second synchronisation changed the
		// kernel state on the way (a member or rule removed and put back) - traffic saw the intermediate states
		w.fail("C15.not-idempotent", "unexplained-transient", "a second full synchronisation of the unchanged state changed the kernel %d time(s) before arriving at the same state: %s",
			len(w.changed2), strings.Join(firstN(w.changed2, 3), " ; "))
		return
	}
	if k2 != w.k1text {
		// reached only when the first synchronisation converged, i.e. from a state without the precondition of
		// any listed switch: nothing explains a change here
		w.fail("C15.not-idempotent", "unexplained", "a second full synchronisation changed the kernel state: %s", firstDiffLine(w.k1text, k2))
	}
}

// ---------------------------------------------------------------------------------------------------------
// C16

// dispatchOrder returns the FORWARD rules that hand packets to galaxy's dispatch chains, in chain order, and
// which direction comes first.
func dispatchOrder(o *Observed) (targets []string, first string) {
	for _, r := range o.Chains["FORWARD"] {
		if r.Target == ingressDispatch || r.Target == egressDispatch {
			targets = append(targets, r.Target)
		}
	}
	first = "egress"
	if len(targets) > 0 && targets[0] == ingressDispatch {
		first = "ingress"
	}
	return
}

// walkFlow is the packet walk: a NEW connection's first packet crossing the node (FORWARD hook: pod<->pod and
// pod<->external traffic is routed), visiting galaxy's dispatch chains in the order FORWARD jumps to them. Foreign
// FORWARD rules are not galaxy's and are skipped. DROP anywhere = refused; ACCEPT or falling through = admitted.
func (w *World) walkFlow(targets []string, f Flow) (bool, error) {
	src, _ := ipToU32(f.Src)
	dst, _ := ipToU32(f.Dst)
	for _, t := range targets {
		p := &simkernel.Packet{Src: src, Dst: dst, Proto: f.Proto, SPort: 40000, DPort: f.Port, State: "NEW"}
		v, err := w.Kern.Walk("filter", t, p)
		if err != nil {
			return false, err
		}
		switch v {
		case simkernel.Accept:
			return true, nil
		case simkernel.Drop:
			return false, nil
		}
	}
	return true, nil
}

func (w *World) judgeFlows(o *Observed, when string) {
	targets, first := dispatchOrder(o)
	fl := flows(w.cl)
	got := make([]bool, len(fl))
	for i, f := range fl {
		a, err := w.walkFlow(targets, f)
		if err != nil {
			w.S.Infra = "packet walk: " + err.Error()
			return
		}
		got[i] = a
		if a {
			w.flowsAllowed++
		} else {
			w.flowsDenied++
		}
	}
	w.flowsJudged = len(fl)
	w.S.Stats["c16.flows"] += len(fl)
	w.S.Stats["c16.flows-denied"] += w.flowsDenied
	// pure model first, then the subsets of listed switches, fewest switches first
	masks := make([]int, 0, 16)
	for m := 0; m < 1<<len(switchNames); m++ {
		masks = append(masks, m)
	}
	sort.SliceStable(masks, func(i, j int) bool { return popcount(masks[i]) < popcount(masks[j]) })
	var pureMis []string
	for _, m := range masks {
		ref := newRefModel(w.cl, switchesFromMask(m), first)
		mis := 0
		for i, f := range fl {
			if ref.allowed(f) != got[i] {
				mis++
				if m == 0 && len(pureMis) < 4 {
					pureMis = append(pureMis, fmt.Sprintf("%s: rules %s, policy semantics %s", w.describeFlow(f), verdict(got[i]), verdict(!got[i])))
				}
			}
		}
		if mis == 0 {
			if m == 0 {
				w.S.Stat("c16.agree")
				return
			}
			names := switchesFromMask(m).names()
			w.fail("C16.semantics", strings.Join(names, "+"), "%s rules and NetworkPolicy semantics disagree on flows; reproduced exactly by deviation switch(es) %s; e.g. %s",
				when, strings.Join(names, "+"), strings.Join(pureMis, " ; "))
			return
		}
	}
	w.fail("C16.semantics", "unexplained", "%s rules and NetworkPolicy semantics disagree and no combination of listed switches reproduces it; e.g. %s", when, strings.Join(pureMis, " ; "))
}

func firstN(s []string, n int) []string {
	if len(s) > n {
		return s[:n]
	}
	return s
}

const nodeAddress = "192.168.1.10"

// judgeNodeTraffic: the NetworkPolicy semantics always allow traffic between a pod and the node it runs on
// (kubelet probes, node-local agents), whatever policies select the pod. galaxy hooks OUTPUT into GLX-INGRESS and
// INPUT into GLX-EGRESS, so that traffic is walked too. Judged last (it is a separate clause with its own key and
// must not end runs before the other clauses had their turn).
func (w *World) judgeNodeTraffic(o *Observed) {
	jumps := func(chain string) []string {
		var out []string
		for _, r := range o.Chains[chain] {
			if r.Target == ingressDispatch || r.Target == egressDispatch {
				out = append(out, r.Target)
			}
		}
		return out
	}
	toPod, fromPod := jumps("OUTPUT"), jumps("INPUT")
	ports := append([]int{}, portPool...)
	ports = append(ports, 9999)
	var bad []string
	n := 0
	for _, p := range w.cl.podList() {
		if !p.local() || p.IP == "" {
			continue
		}
		for _, proto := range []string{"tcp", "udp"} {
			for _, port := range ports {
				for dir, f := range []Flow{{Src: nodeAddress, Dst: p.IP, Proto: proto, Port: port}, {Src: p.IP, Dst: nodeAddress, Proto: proto, Port: port}} {
					targets := toPod
					if dir == 1 {
						targets = fromPod
					}
					ok, err := w.walkFlow(targets, f)
					if err != nil {
						w.S.Infra = "packet walk: " + err.Error()
						return
					}
					n++
					if !ok && len(bad) < 4 {
						bad = append(bad, w.describeFlow(f))
					}
				}
			}
		}
	}
	w.S.Stats["c16.node-flows"] += n
	if len(bad) > 0 {
		w.fail("C16.node-traffic", "node-traffic-subject-to-policy", "traffic between a pod and its own node must always be admitted, but the installed rules (OUTPUT -> GLX-INGRESS, INPUT -> GLX-EGRESS) refuse: %s", strings.Join(bad, " ; "))
	}
}

func verdict(a bool) string {
	if a {
		return "ADMIT"
	}
	return "REFUSE"
}

func popcount(m int) int {
	n := 0
	for ; m != 0; m &= m - 1 {
		n++
	}
	return n
}

func (w *World) describeFlow(f Flow) string {
	name := func(ip string) string {
		for _, p := range w.cl.podList() {
			if p.IP == ip {
				return fmt.Sprintf("%s(%s,%s)", p.key(), ip, p.Node)
			}
		}
		return ip
	}
	return fmt.Sprintf("%s -> %s %s/%d", name(f.Src), name(f.Dst), f.Proto, f.Port)
}
