package main

// C16's second judging instant: EVENT QUIESCENCE. C16 says the installed rules enforce the NetworkPolicy semantics
// for the current cluster; nothing in it waits for the periodic full synchronisation. What the informer handlers
// are responsible for must therefore already hold when every delivered event has been handled, no handler is
// running and no event is pending - whether or not a full Run happened since. At every such instant at which the
// galaxy-owned kernel state differs from what a full synchronisation of the current cluster would install, the
// flows are judged on the kernel state as it is, against the reference evaluator on the current API state.
//
// Known gaps are encoded as narrow EVENT-GAP switches. Each names one kind of event galaxy does not (fully) act
// on, and each only ever replaces "membership by the current API state" with "membership as the handlers, doing
// what they are specified to do, have left it" for the (set, address) pairs that event kind is the cause of:
//
//   namespace-relabel-not-handled       no namespace handler exists: the pod-peer sets of rules with a
//                                        namespaceSelector keep the members computed from the namespace labels
//                                        as they were when a handler last evaluated them
//   pod-added-with-address-not-handled  AddPod does nothing: a pod that reaches the informer already carrying an
//                                        address (relist after a dropped watch) is in no set and, on this node,
//                                        has no pod chain, until some other event or Run looks at it
//   pod-relabel-stale-membership        UpdatePod only ADDS the address to the sets the new labels match; the
//                                        memberships of the labels the pod had before stay (also beyond the
//                                        pod's deletion, which removes what its last labels match)
//   pod-address-change-old-address-kept UpdatePod adds the new address; the old one stays in every set
//   namespace-add-not-handled           the pod informer and the namespace informer lag independently: when a
//                                        pod event (or a rebuild) is handled before the pod's namespace is in the
//                                        namespace lister, namespaceSelector peers do not see the pod, and the
//                                        namespace's later ADDED event has no handler
//
// (A sixth switch, ipblock-role-change-member-lost, described a defect of createIPSet that was repaired in /repo
// 6961992; it has been removed, so the behaviour coming back is an unexplained violation. Its replay is kept as a
// regression replay under findings/fixed/.)
//
// The "as the handlers have left it" side is the shadow below: a bookkeeping of set members that applies, per
// handled event, exactly the additions and removals listed above (rebuild on every full synchronisation: policy
// events and Run). It is the statement of the deviation, not a copy of galaxy's code; a handler that does LESS
// than this (e.g. stops adding on a label change) leaves the kernel different from the shadow, the override then
// does not describe the kernel, and the flow comparison fails as "unexplained". A difference whose cause is none
// of the four kinds gets no override at all.

import (
	"encoding/json"
	"fmt"
	"sort"
	"strings"
)

var eventGapNames = []string{"namespace-relabel-not-handled", "pod-added-with-address-not-handled", "pod-relabel-stale-membership", "pod-address-change-old-address-kept",
	"namespace-add-not-handled"}

const (
	gapNs = iota
	gapAdd
	gapRelabel
	gapAddr
	gapNsAdd // a namespace became visible to the namespace informer after pods of it had been handled
	nGaps
)

type gapSet [nGaps]bool

// setDef is one galaxy-owned hash:ip set as the documented scheme derives it from a policy.
type setDef struct {
	name     string
	pol      *Policy
	selected bool // the policy's own pods; otherwise the pod peers of rule idx
	egress   bool
	idx      int
}

func setDefs(cl *Cluster) []setDef {
	var out []setDef
	for _, p := range cl.polList() {
		out = append(out, setDef{name: selectedSetName(p), pol: p, selected: true})
		in, eg := p.directions()
		side := func(rules []PRule, egress bool) {
			for i, r := range rules {
				for k := range r.Peers {
					if r.Peers[k].Block == nil {
						out = append(out, setDef{name: peerSetName(p, egress, i, false), pol: p, egress: egress, idx: i})
						break
					}
				}
			}
		}
		if in {
			side(p.Ingress, false)
		}
		if eg {
			side(p.Egress, true)
		}
	}
	return out
}

func (d setDef) member(cl *Cluster, pod *Pod, sw Switches) bool {
	if pod.IP == "" {
		return false
	}
	if d.selected {
		return pod.NS == d.pol.NS && d.pol.PodSel.Matches(pod.Labels)
	}
	rules := d.pol.Ingress
	if d.egress {
		rules = d.pol.Egress
	}
	for k := range rules[d.idx].Peers {
		pe := &rules[d.idx].Peers[k]
		if pe.Block == nil && peerMatchesPod(cl, pe, d.pol.NS, pod, sw) {
			return true
		}
	}
	return false
}

func (d setDef) hasNsPeer() bool {
	if d.selected {
		return false
	}
	rules := d.pol.Ingress
	if d.egress {
		rules = d.pol.Egress
	}
	for _, pe := range rules[d.idx].Peers {
		if pe.NsSel != nil {
			return true
		}
	}
	return false
}

// shadow is the bookkeeping described in the file comment, kept for both readings of switch D6 (the semantic
// search of judgeFlows tries both).
type shadow struct {
	sets         [2]map[string]map[string]bool // [D6 off/on] set name -> address -> present
	rebuilt      bool
	relabelled   map[string]bool // pod key: labels changed by an update event since the last rebuild
	relabelledIP map[string]bool // the addresses those pods had
	nsRelabelled map[string]bool
	oldAddr      map[string]bool // addresses pods moved away from since the last rebuild
	addedWithIP  map[string]bool // pod key: reached the informer with an address, not looked at since
	nsAddedLate  map[string]bool // namespaces whose ADDED event came after pods of them were known
}

func newShadow() *shadow {
	s := &shadow{}
	s.reset()
	return s
}

func (s *shadow) reset() {
	s.relabelled, s.relabelledIP, s.nsRelabelled, s.oldAddr = map[string]bool{}, map[string]bool{}, map[string]bool{}, map[string]bool{}
	s.nsAddedLate = map[string]bool{}
	if s.addedWithIP == nil {
		s.addedWithIP = map[string]bool{}
	}
}

var d6Variants = [2]Switches{{}, {D6: true}}

// rebuild: a full synchronisation recomputes every set from the informer views.
func (s *shadow) rebuild(view *Cluster) {
	s.reset()
	s.rebuilt = true
	for v, sw := range d6Variants {
		s.sets[v] = map[string]map[string]bool{}
		for _, d := range setDefs(view) {
			m := map[string]bool{}
			for _, p := range view.podList() {
				if d.member(view, p, sw) {
					m[p.IP] = true
				}
			}
			s.sets[v][d.name] = m
		}
	}
	// syncPods visits every pod of the node that is in the view
	for k := range s.addedWithIP {
		if view.Pods[k] != nil {
			delete(s.addedWithIP, k)
		}
	}
}

// podPoint: a handler (UpdatePod, or the CNI path) evaluated the pod with its address.
func (s *shadow) podPoint(view *Cluster, pod *Pod, add bool) {
	if pod.IP == "" || !s.rebuilt {
		return
	}
	for v, sw := range d6Variants {
		for _, d := range setDefs(view) {
			if d.member(view, pod, sw) {
				if s.sets[v][d.name] == nil {
					s.sets[v][d.name] = map[string]bool{}
				}
				if add {
					s.sets[v][d.name][pod.IP] = true
				} else {
					delete(s.sets[v][d.name], pod.IP)
				}
			}
		}
	}
}

type podJSON struct {
	Metadata struct {
		Name      string            `json:"name"`
		Namespace string            `json:"namespace"`
		Labels    map[string]string `json:"labels"`
	} `json:"metadata"`
	Spec struct {
		NodeName string `json:"nodeName"`
	} `json:"spec"`
	Status struct {
		PodIP string `json:"podIP"`
	} `json:"status"`
}

func podFromJSON(b []byte) *Pod {
	if b == nil {
		return nil
	}
	var j podJSON
	if err := json.Unmarshal(b, &j); err != nil {
		panic(err)
	}
	l := j.Metadata.Labels
	if l == nil {
		l = map[string]string{}
	}
	return &Pod{NS: j.Metadata.Namespace, Name: j.Metadata.Name, Labels: l, IP: j.Status.PodIP, Node: j.Spec.NodeName}
}

func sameLabels(a, b map[string]string) bool {
	if len(a) != len(b) {
		return false
	}
	for k, v := range a {
		if w, ok := b[k]; !ok || w != v {
			return false
		}
	}
	return true
}

// trackDelivery keeps the informer-view cluster and the shadow in step with a delivered event (called when the
// handler is spawned; handlers run one at a time, so the view does not move while one runs).
func (w *World) trackDelivery(kind, typ, key string, oldJ, newJ []byte, rv uint64) {
	if !(w.armed("C16") || w.armed("C15")) || w.view == nil {
		return
	}
	if w.armed("C16") {
		w.sinceJudge = append(w.sinceJudge, kind[:3]+":"+typ+":"+key)
	}
	switch kind {
	case "namespaces":
		if typ == "DELETED" {
			delete(w.view.NS, strings.TrimPrefix(key, "/"))
			return
		}
		var j podJSON
		_ = json.Unmarshal(newJ, &j)
		l := j.Metadata.Labels
		if l == nil {
			l = map[string]string{}
		}
		if old := w.view.NS[j.Metadata.Name]; old != nil && !sameLabels(old.Labels, l) {
			w.sh.nsRelabelled[j.Metadata.Name] = true
			w.S.Stat("c16.eq-ns-relabel")
		} else if old == nil {
			for _, p := range w.view.podList() {
				if p.NS == j.Metadata.Name {
					w.sh.nsAddedLate[j.Metadata.Name] = true
				}
			}
		}
		w.view.NS[j.Metadata.Name] = &NSObj{Name: j.Metadata.Name, Labels: l}
	case "pods":
		oldP, newP := podFromJSON(oldJ), podFromJSON(newJ)
		switch typ {
		case "ADDED":
			w.view.Pods[newP.key()] = newP
			if newP.IP != "" {
				w.sh.addedWithIP[newP.key()] = true
			}
		case "MODIFIED":
			w.view.Pods[newP.key()] = newP
			if oldP != nil && !sameLabels(oldP.Labels, newP.Labels) {
				w.sh.relabelled[newP.key()] = true
				if oldP.IP != "" {
					w.sh.relabelledIP[oldP.IP] = true
				}
				if newP.IP != "" {
					w.sh.relabelledIP[newP.IP] = true
				}
			}
			if oldP != nil && oldP.IP != "" && oldP.IP != newP.IP {
				w.sh.oldAddr[oldP.IP] = true
			}
			if newP.IP != "" {
				w.sh.podPoint(w.view, newP, true)
				delete(w.sh.addedWithIP, newP.key())
			}
		case "DELETED":
			delete(w.view.Pods, oldP.key())
			delete(w.sh.addedWithIP, oldP.key())
			w.sh.podPoint(w.view, oldP, false)
		}
	case "networkpolicies":
		if typ == "DELETED" {
			delete(w.view.Pols, key)
		} else if p := w.polByRV[fmt.Sprintf("%s@%d", key, rv)]; p != nil {
			w.view.Pols[key] = p
		} else {
			w.S.Infra = "policy world: no model for delivered policy " + key
			w.S.Stop()
		}
		w.rebuildShadow()
		w.fullSyncStarts("the handler of " + kind[:3] + ":" + typ + ":" + key)
	}
}

// rebuildShadow is called when a full synchronisation (policy handler, Run) starts.
func (w *World) rebuildShadow() { w.sh.rebuild(w.view) }

// fullSyncStarts notes the state a full synchronisation of the history starts from (C15 judges it when it ends).
func (w *World) fullSyncStarts(what string) {
	w.rebuildRunning, w.rebuildClean, w.damagedAtStart = true, true, w.damaged
	if w.armed("C15") && w.stage == 0 && w.view != nil {
		if len(w.K.PendingKinds()) > 0 || len(w.initialAdds) > 0 || w.cniPending != nil {
			// the views lag behind the API: a synchronisation that lists pods through the client (informer not
			// started) and one that reads the views would be held to different clusters; judged only when both agree
			w.S.Stat("c15.in-history-not-judged-views-lag")
			return
		}
		w.convK0, w.convPending, w.convWhat = observe(w.Kern), true, what
	}
}

// gapOf names the event kind that is the cause of galaxy's membership (shadow) differing from the API state for
// one (set, address) pair; -1 if none of the listed kinds is.
func (w *World) gapOf(d setDef, ip string, inShadow bool) int {
	var owner *Pod
	for _, p := range w.cl.podList() {
		if p.IP == ip {
			owner = p
		}
	}
	anyNs := len(w.sh.nsRelabelled) > 0
	lateNs := len(w.sh.nsAddedLate) > 0
	if inShadow {
		switch {
		case w.sh.oldAddr[ip]:
			return gapAddr
		case w.sh.relabelledIP[ip], owner != nil && w.sh.relabelled[owner.key()]:
			// also when the address has meanwhile gone to another pod: the stale membership is the address's
			return gapRelabel
		case anyNs && d.hasNsPeer():
			return gapNs
		}
		return -1
	}
	switch {
	case owner != nil && w.sh.addedWithIP[owner.key()]:
		return gapAdd
	case anyNs && d.hasNsPeer():
		return gapNs
	case lateNs && d.hasNsPeer() && owner != nil && w.sh.nsAddedLate[owner.NS]:
		return gapNsAdd
	}
	return -1
}

// overridesFor builds the evaluator overrides of the enabled event-gap switches, for one reading of D6.
func (w *World) overridesFor(d6 bool, enabled gapSet) (*overrides, gapSet, []string) {
	v := 0
	if d6 {
		v = 1
	}
	o := &overrides{memb: map[string]map[string]bool{}, invisible: map[string]bool{}}
	var present gapSet
	var extraEnds []string
	for _, d := range setDefs(w.cl) {
		sh := w.sh.sets[v][d.name]
		cand := map[string]bool{}
		for ip := range sh {
			cand[ip] = true
		}
		for _, p := range w.cl.podList() {
			if p.IP != "" {
				cand[p.IP] = true
			}
		}
		for _, ip := range sortedKeys(cand) {
			truth := false
			for _, p := range w.cl.podList() {
				if p.IP == ip && d.member(w.cl, p, d6Variants[v]) {
					truth = true
				}
			}
			if sh[ip] == truth {
				continue
			}
			g := w.gapOf(d, ip, sh[ip])
			if g < 0 {
				continue
			}
			present[g] = true
			if sh[ip] {
				extraEnds = append(extraEnds, ip)
			}
			if enabled[g] {
				if o.memb[d.name] == nil {
					o.memb[d.name] = map[string]bool{}
				}
				o.memb[d.name][ip] = sh[ip]
			}
		}
	}
	for _, k := range sortedKeys(w.sh.addedWithIP) {
		if p := w.cl.Pods[k]; p != nil && p.local() {
			present[gapAdd] = true
			if enabled[gapAdd] {
				o.invisible[k] = true
			}
		}
	}
	return o, present, extraEnds
}

// judgeEventQuiescence is called when nothing is pending or running and at least one event was handled since the
// last judgement.
func (w *World) judgeEventQuiescence() {
	events := strings.Join(w.sinceJudge, ",")
	w.sinceJudge = nil
	if !w.sh.rebuilt {
		return // galaxy has not synchronised anything yet: the kernel still holds the prior state
	}
	o := observe(w.Kern)
	if o.perr != "" {
		w.S.Infra = o.perr
		w.S.Stop()
		return
	}
	d, e, _ := w.bestDiff(o)
	if len(d) == 0 {
		w.S.Stat("c16.eq-same-as-synced")
		return
	}
	// leftovers that C15 reports as known findings (stale policy chain in use, dead pods' chains, old-address
	// dispatch rules) make the state as unjudgeable here as after a synchronisation
	// D8 is judged by what held when galaxy's last rebuild STARTED, not by what is left now: a policy batch that was
	// refused ("Too many links") and not followed by a successful one means the whole rebuild of that handler was
	// dropped - missing policy chains, pod chains that could not be written - even if the pod chains that pinned
	// the stale chain have been removed since by the same handler
	if w.d8Active || w.damaged || w.typeConflict || len(staleRefs(o, e)) > 0 {
		w.S.Stat("c16.eq-skipped-c15-known")
		return
	}
	saved := w.k0
	w.k0 = o
	rest, used := w.explainConvergence(d, e, o)
	w.k0 = saved
	if len(used) > 0 {
		w.S.Stat("c16.eq-skipped-c15-known")
		return
	}
	_ = rest
	w.S.Stat("c16.eq-judged")
	var all gapSet
	for i := range all {
		all[i] = true
	}
	_, present, extraEnds := w.overridesFor(true, all)
	_, present0, extraEnds0 := w.overridesFor(false, all)
	for i := range present {
		present[i] = present[i] || present0[i]
	}
	sort.Strings(extraEnds)
	targets, first := dispatchOrder(o)
	fl := flows(w.cl, append(extraEnds, extraEnds0...)...)
	got := make([]bool, len(fl))
	for i, f := range fl {
		a, err := w.walkFlow(targets, f)
		if err != nil {
			w.S.Infra = "packet walk: " + err.Error()
			w.S.Stop()
			return
		}
		got[i] = a
	}
	w.S.Stats["c16.eq-flows"] += len(fl)
	agree := func(mask int, enabled gapSet, sample *[]string) bool {
		sw := switchesFromMask(mask)
		ref := newRefModel(w.cl, sw, first)
		ref.over, _, _ = w.overridesFor(sw.D6, enabled)
		ok := true
		for i, f := range fl {
			if ref.allowed(f) != got[i] {
				ok = false
				if sample == nil || len(*sample) >= 4 {
					return false
				}
				*sample = append(*sample, fmt.Sprintf("%s: rules %s, policy semantics %s", w.describeFlow(f), verdict(got[i]), verdict(!got[i])))
			}
		}
		return ok
	}
	var pureMis []string
	if agree(0, gapSet{}, &pureMis) {
		w.S.Stat("c16.eq-agree")
		return
	}
	masks := make([]int, 0, 16)
	for m := 0; m < 1<<len(switchNames); m++ {
		masks = append(masks, m)
	}
	sort.SliceStable(masks, func(i, j int) bool { return popcount(masks[i]) < popcount(masks[j]) })
	// 1. the semantic switches, with every applicable event-gap override in force
	sem := -1
	for _, m := range masks {
		if agree(m, all, nil) {
			sem = m
			break
		}
	}
	when := fmt.Sprintf("at event quiescence after [%s] (no full synchronisation since)", events)
	if sem < 0 {
		w.fail("C16.event-quiescence", "unexplained", "%s the installed rules and the NetworkPolicy semantics of the current cluster disagree, and no listed switch reproduces it "+
			"(event gaps with a cause present: %s; kernel differs from a synchronised state in: %s); e.g. %s", when, gapNames(present), diffKinds(d), strings.Join(pureMis, " ; "))
		return
	}
	// 2. the fewest event-gap switches that are needed on top
	var need gapSet
	found := false
	for n := 0; n <= nGaps && !found; n++ {
		for em := 0; em < 1<<nGaps && !found; em++ {
			if popcount(em) != n {
				continue
			}
			var en gapSet
			skip := false
			for i := 0; i < nGaps; i++ {
				en[i] = em&(1<<i) != 0
				if en[i] && !present[i] {
					skip = true
				}
			}
			if skip {
				continue
			}
			if agree(sem, en, nil) {
				need, found = en, true
			}
		}
	}
	if gapNames(need) == "" {
		// only the semantic deviations that the after-synchronisation instant reports anyway
		w.S.Stat("c16.eq-semantic-only")
		return
	}
	w.fail("C16.event-quiescence", gapNames(need), "%s the installed rules and the NetworkPolicy semantics of the current cluster disagree; reproduced exactly by event-gap switch(es) %s"+
		" (together with semantic switch(es) %v); e.g. %s", when, gapNames(need), switchesFromMask(sem).names(), strings.Join(pureMis, " ; "))
}

func gapNames(b gapSet) string {
	var out []string
	for i, n := range eventGapNames {
		if b[i] {
			out = append(out, n)
		}
	}
	return strings.Join(out, "+")
}
