package main

// Scheduler-side code of world W3 (network policy): simulated API server with lagging informer views, the
// strict simulated kernel, the history generator (prior kernel state, "before" cluster, a sequence of API
// changes with their informer events, full synchronisations, CNI-triggered pod synchronisations) and the
// end-of-run phases that the oracles of C15 and C16 hang on (oracles.go).
//
// Galaxy tasks run ONE AT A TIME: the next event is delivered / the next operation starts only when the
// previous handler (with the goroutines it spawned - syncPods runs one per pod, and those do interleave under
// the seeded scheduler) has ended. No faults are injected. Both follow from the quantifier of C15/C16
// (histories and inputs, not interleavings or failures).

import (
	"encoding/json"
	"fmt"
	"strings"

	"tkestack.io/galaxy/verifsim/core"
	"tkestack.io/galaxy/verifsim/simkernel"
	"tkestack.io/galaxy/verifsim/simkube"
)

// World is W3.
type World struct {
	S    *core.Sim
	C    *core.Choices
	K    *simkube.Kube
	Kern *simkernel.Kernel
	prop string
	tier string

	F  Features
	G  *Gen
	cl *Cluster // API truth

	inst  *Instance
	proc  int
	ready bool

	opsLeft int
	stage   int
	key     string
	summary []string
	states  []string

	// C18 (hostile input) and C19 (concurrent entry points) profiles
	hostile bool
	conc    bool
	HF      HostileFeatures
	hSeq    int
	hPols   []string
	// C19: the galaxy task in flight per stream (each informer runs one handler at a time; one Run loop; several
	// CNI requests)
	podTask, polTask, syncTask *core.Task
	cniTasks                   []*cniInFlight

	// ADDED notifications of the initial list that have not run yet (store already complete)
	initialAdds [][]byte

	// pending second half of a CNI operation: the kubelet reports the address after the plugin returned
	cniPending *Pod

	// oracle state
	foreign0  string
	d8Active  bool // a policy-chain batch was refused with "Too many links" and none has succeeded since
	d8Seen    bool
	priorDesc string
	k0        *Observed
	k1text    string
	handlers  int
	syncs     int
	firstSync bool
	unconverged string
	flowsJudged, flowsDenied, flowsAllowed int
	followUpDone                           bool
	c16Skipped                             bool
	// D8's aftermath: a rule batch was refused ("Too many links" / missing jump target) and no full synchronisation
	// has run through without a refusal since (DeletePolicy writes the pod chains BEFORE it creates missing policy
	// chains, so the damage of a refused AddPolicy rebuild outlives the next handler)
	damaged, rebuildRunning, rebuildClean, damagedAtStart bool
	convK0                                 *Observed // C15: state a full synchronisation of the history started from
	convPending, convPendingNow            bool
	convWhat                               string
	typeConflict                           bool     // an ipset create was refused because the name is taken by a set of another type
	changed2                               []string // commands of the second synchronisation that changed kernel state

	// C16 at event quiescence (events.go)
	view       *Cluster // the cluster as the informer views show it
	polByRV    map[string]*Policy
	sh         *shadow
	sinceJudge []string // events handled since the last judgement
}

func (w *World) fail(oracle, key, format string, a ...interface{}) {
	if w.S.Viol == nil {
		w.key = key
		w.S.Fail(oracle, format, a...)
	}
}

func (w *World) armed(p string) bool { return w.prop == p }

func newWorld(s *core.Sim, prop, tier string) *World {
	w := &World{S: s, C: s.C, prop: prop, tier: tier, hostile: prop == "C18", conc: prop == "C19", polByRV: map[string]*Policy{}, sh: newShadow()}
	w.K = simkube.New(s)
	w.Kern = simkernel.New()
	c := w.C
	w.F = genFeatures(c)
	w.G = newGen(c, w.F)
	w.cl = w.G.cluster()
	w.opsLeft = c.Range(0, 12)
	if w.hostile {
		w.HF = w.genHostileFeatures()
		w.opsLeft = c.Range(2, 16)
	}
	if w.conc {
		w.opsLeft = c.Range(4, 16)
	}
	w.setupPriorKernel()
	for _, n := range sortedKeys(w.cl.NS) {
		w.mustCreate("namespaces", w.cl.NS[n].api())
	}
	for _, p := range w.cl.podList() {
		w.mustCreate("pods", p.api())
	}
	// The policy informer is what galaxy starts first: the policies that exist when galaxy starts reach its
	// handler as ADDED notifications (each runs AddPolicy). The informer fills its store from the initial list
	// item by item while the (slow) handlers run behind it, so the lister may show anything between "the
	// notified prefix" and "everything"; a run draws one of the two extremes. Pods and namespaces are in the
	// cache before any handler needs them (startPodInformerFactory waits for their first sync; AddPod does
	// nothing).
	if c.Prob(1, 2) {
		// store = notified prefix: the policies are created after the view is declared
		w.K.Watch("pods", "namespaces", "networkpolicies")
		w.view = w.cl.clone()
		w.view.Pols = map[string]*Policy{}
		for _, p := range w.cl.polList() {
			w.mustCreate("networkpolicies", p.api())
		}
	} else {
		// store complete before the first handler runs
		for _, p := range w.cl.polList() {
			w.mustCreate("networkpolicies", p.api())
		}
		w.K.Watch("pods", "namespaces", "networkpolicies")
		w.view = w.cl.clone()
		for _, o := range w.K.List("networkpolicies", "") {
			w.initialAdds = append(w.initialAdds, o.JSON)
		}
	}
	w.foreign0 = foreignText(w.Kern)
	w.Kern.OnEvent = w.onKernelEvent
	w.firstSync = w.F.InitialSync
	return w
}

func (w *World) mustCreate(kind string, obj interface{}) {
	b, err := json.Marshal(obj)
	if err != nil {
		panic(err)
	}
	o, code, msg := w.K.Create(nil, kind, b)
	if code != 0 {
		panic(fmt.Sprintf("world create %s: %d %s", kind, code, msg))
	}
	w.rememberModel(kind, o)
}

// rememberModel ties a stored NetworkPolicy version to the world's description of it, so that the informer-view
// cluster (events.go) can be kept without decoding API objects back.
func (w *World) rememberModel(kind string, o *simkube.Obj) {
	if kind != "networkpolicies" {
		return
	}
	if p := w.cl.Pols[o.Key()]; p != nil {
		w.polByRV[fmt.Sprintf("%s@%d", o.Key(), o.RV)] = p
	}
}

func (w *World) mustUpdate(kind string, obj interface{}) {
	b, err := json.Marshal(obj)
	if err != nil {
		panic(err)
	}
	o, code, msg := w.K.Update(nil, kind, b)
	if code != 0 {
		panic(fmt.Sprintf("world update %s: %d %s", kind, code, msg))
	}
	w.rememberModel(kind, o)
}

func (w *World) mustDelete(kind, ns, name string) {
	if code, msg := w.K.Delete(nil, kind, ns, name); code != 0 {
		panic(fmt.Sprintf("world delete %s %s/%s: %d %s", kind, ns, name, code, msg))
	}
}

func (w *World) startProcess() {
	w.proc = w.S.NewProc()
	w.inst = &Instance{}
	inst := w.inst
	// as in the real daemon, the pod informer is running from the start only if a policy exists at start
	synced := len(w.cl.Pols) > 0
	if !synced {
		w.S.Stat("probe.pod-informer-not-started")
	}
	t := w.S.Spawn("init", w.proc, func() { startInstance(inst, thisNode, synced) })
	t.Tag = "init"
}

// ---------------------------------------------------------------------------------------------------------
// prior kernel state

var foreignRestore = []string{
	"*filter\n:KUBE-FORWARD - [0:0]\n-A FORWARD -m comment --comment \"kubernetes forwarding rules\" -j KUBE-FORWARD\n" +
		"-A KUBE-FORWARD -m conntrack --ctstate RELATED,ESTABLISHED -j ACCEPT\n-A KUBE-FORWARD -m mark --mark 0x4000/0x4000 -j ACCEPT\nCOMMIT\n",
	"*filter\n:DOCKER-USER - [0:0]\n:DOCKER-ISOLATION - [0:0]\n-A FORWARD -j DOCKER-USER\n-A DOCKER-USER -i eth1 -j DOCKER-ISOLATION\n-A DOCKER-USER -j RETURN\n" +
		"-A DOCKER-ISOLATION -o docker0 -j DROP\nCOMMIT\n",
	"*filter\n-A INPUT -s 10.9.0.0/16 -j DROP\n-A OUTPUT -d 169.254.169.254/32 -p tcp -m tcp --dport 80 -j REJECT --reject-with icmp-port-unreachable\nCOMMIT\n",
	"*filter\n:ADMIN-POD-FW - [0:0]\n-A FORWARD -d 10.244.1.0/24 -j ADMIN-POD-FW\n-A ADMIN-POD-FW -p udp -m multiport --dports 53,123 -j ACCEPT\n" +
		"-A ADMIN-POD-FW -m set --match-set admin-denied src -j DROP\nCOMMIT\n",
	"*filter\n:FORWARD DROP [0:0]\n-A FORWARD -s 10.244.0.0/16 -j ACCEPT\n-A FORWARD -d 10.244.0.0/16 -j ACCEPT\nCOMMIT\n",
	// a chain nobody jumps to (any tool could delete it without the kernel objecting)
	"*filter\n:LEGACY-FW - [0:0]\n-A LEGACY-FW -s 10.1.0.0/16 -j DROP\n-A LEGACY-FW -p tcp -m tcp --dport 22 -j ACCEPT\nCOMMIT\n",
	"*nat\n:KUBE-HOSTPORTS - [0:0]\n:KUBE-HP-ABCDEFGHIJKLMNOP - [0:0]\n:KUBE-MARK-MASQ - [0:0]\n-A PREROUTING -m comment --comment \"kube hostport portals\" -m addrtype --dst-type LOCAL -j KUBE-HOSTPORTS\n" +
		"-A KUBE-MARK-MASQ -j MARK --set-xmark 0x4000/0x4000\n-A KUBE-HOSTPORTS -p tcp -m comment --comment \"web_ns-a hostport 8080\" -m tcp --dport 8080 -j KUBE-HP-ABCDEFGHIJKLMNOP\n" +
		"-A KUBE-HP-ABCDEFGHIJKLMNOP -s 10.244.1.9/32 -m comment --comment \"web_ns-a hostport 8080\" -j KUBE-MARK-MASQ\n" +
		"-A KUBE-HP-ABCDEFGHIJKLMNOP -p tcp -m comment --comment \"web_ns-a hostport 8080\" -m tcp -j DNAT --to-destination 10.244.1.9:80\nCOMMIT\n",
}

func (w *World) setupPriorKernel() {
	c := w.C
	k := w.Kern
	var desc []string
	if w.F.Foreign {
		// foreign sets first (a foreign rule refers to one)
		k.MustIPSet("create", "admin-denied", "hash:net")
		k.MustIPSet("add", "admin-denied", "203.0.113.0/24")
		k.MustIPSet("add", "admin-denied", "203.0.113.128/25", "nomatch")
		if c.Prob(1, 2) {
			k.MustIPSet("create", "KUBE-CLUSTER-IP", "hash:ip")
			k.MustIPSet("add", "KUBE-CLUSTER-IP", "10.96.0.1")
			k.MustIPSet("add", "KUBE-CLUSTER-IP", "10.96.0.10")
		}
		n := 0
		for _, r := range foreignRestore {
			if c.Prob(1, 2) {
				k.MustRestore(r)
				n++
			}
		}
		// foreign sets of types galaxy never uses
		if c.Prob(1, 2) {
			k.MustIPSet("create", "KUBE-NODE-PORT-TCP", "bitmap:port", "range", "0-65535")
			k.MustIPSet("add", "KUBE-NODE-PORT-TCP", "30080")
			k.MustIPSet("create", "KUBE-LOOP-BACK", "hash:ip,port,ip")
			k.MustIPSet("add", "KUBE-LOOP-BACK", "10.244.1.9,tcp:80,10.244.1.9")
		}
		desc = append(desc, fmt.Sprintf("foreign(%d)", n))
		if w.F.Lookalikes {
			// foreign objects whose names merely resemble galaxy's. Galaxy declares the name prefix "GLX" as its own
			// (policy.go NamePrefix), so a name that starts with GLX is in galaxy's namespace whatever follows; the
			// look-alikes therefore only resemble it (other case, one letter off, the prefix not at the start). A first
			// version generated GLX-prefixed "foreign" names and reported their clean-up: that demanded more than the
			// property states and was withdrawn.
			if c.Prob(1, 2) {
				k.MustRestore("*filter\n:GL-PLCY-FOO - [0:0]\n-A GL-PLCY-FOO -s 10.7.0.0/16 -j ACCEPT\nCOMMIT\n")
			}
			if c.Prob(1, 2) {
				k.MustRestore("*filter\n:XGLX-PLCYBACKUP - [0:0]\n-A XGLX-PLCYBACKUP -p tcp -m tcp --dport 22 -j ACCEPT\nCOMMIT\n")
			}
			if c.Prob(1, 2) {
				k.MustIPSet("create", "glx-fw", "hash:ip")
				k.MustIPSet("add", "glx-fw", "10.7.0.1")
			}
			if c.Prob(1, 2) {
				k.MustIPSet("create", "MY-GLX-backup", "hash:net")
				k.MustIPSet("add", "MY-GLX-backup", "10.7.0.0/16")
			}
			desc = append(desc, "lookalikes")
		}
	}
	defer func() {
		if w.F.Foreign && c.Prob(1, 3) {
			// foreign rules in front of galaxy's jumps (inserted by another agent after galaxy ran)
			k.MustRestore("*filter\n-I FORWARD -s 10.8.0.0/16 -j ACCEPT\n-I INPUT -i lo -j ACCEPT\n-I OUTPUT -o lo -j ACCEPT\nCOMMIT\n")
			w.priorDesc += "+foreign-first"
		}
		if w.F.TypeConflict && len(w.cl.Pols) > 0 {
			// a set under one of galaxy's names for a current policy, of the other hash type (what an older or a
			// differently configured galaxy may have left)
			e := compile(w.cl, Switches{D6: true})
			names := sortedKeys(e.Sets)
			n := names[c.Choose(len(names))]
			if k.Sets[n] == nil {
				other := "hash:net"
				if e.Sets[n].Type == "hash:net" {
					other = "hash:ip"
				}
				k.MustIPSet("create", n, other)
				w.priorDesc += "+set-type-conflict"
			}
		}
	}()
	mode := c.Choose(3)
	if mode == 1 && len(w.cl.Pols) == 0 {
		mode = 2 // "in sync" with a cluster without policies is the empty state again: use the draw for a ghost
	}
	if mode == 0 {
		w.priorDesc = strings.Join(append(desc, "no-galaxy-state"), "+")
		return
	}
	ghost := w.cl.clone()
	if mode == 1 {
		desc = append(desc, "in-sync")
	} else {
		desc = append(desc, "ghost")
		// the earlier galaxy saw other labels / other policy specs
		for _, p := range ghost.podList() {
			if c.Prob(1, 4) {
				p.Labels = w.G.labels(podLabelKV, 2)
			}
		}
		for _, p := range ghost.polList() {
			if c.Prob(1, 3) {
				if f := w.G.flipRoles(p); f != nil && c.Prob(1, 2) {
					ghost.Pols[p.key()] = f // the earlier galaxy saw the same CIDRs in other roles
				} else {
					w.G.policySpec(ghost, p)
				}
			}
		}
		if w.F.Junk {
			// policies that are gone and selected nothing on this node: their chains and sets are unreferenced
			for i, n := 0, c.Range(1, 2); i < n; i++ {
				p := &Policy{NS: sortedKeys(ghost.NS)[0], Name: fmt.Sprintf("junk%d", i)}
				w.G.policySpec(ghost, p)
				p.PodSel = Sel{Labels: map[string]string{"app": "nothing"}}
				ghost.Pols[p.key()] = p
			}
			desc = append(desc, "junk")
		}
		if w.F.GhostPolDrop || len(ghost.Pols) == 0 {
			// policies that are gone but whose chains the pod chains of living pods may still jump to (always
			// when no policy exists now: "the last policy was deleted while galaxy was down")
			for i, n := 0, c.Range(1, 2); i < n; i++ {
				p := &Policy{NS: w.G.nsOf(ghost), Name: fmt.Sprintf("old%d", i)}
				w.G.policySpec(ghost, p)
				ghost.Pols[p.key()] = p
			}
			desc = append(desc, "gone-policies")
		}
		if w.F.GhostPodDrop {
			// pods of this node that are gone: nobody will ever call SyncPodChains or DeletePod for them
			for i, n := 0, c.Range(1, 2); i < n; i++ {
				p := &Pod{NS: w.G.nsOf(ghost), Name: fmt.Sprintf("gone%d", i), Labels: w.G.labels(podLabelKV, 2), Node: thisNode}
				p.IP = w.G.freshIP(thisNode, ghost)
				ghost.Pods[p.key()] = p
			}
			desc = append(desc, "gone-pods")
		}
		if w.F.IPChange {
			// a pod that was re-created with the same name and another address while galaxy was away
			for _, p := range ghost.podList() {
				if p.local() && p.IP != "" && c.Prob(1, 3) {
					p.IP = w.G.freshIP(thisNode, ghost)
					desc = append(desc, "old-address")
					break
				}
			}
		}
	}
	// an earlier galaxy compiled the cluster it saw the way galaxy compiles (hence D6)
	sets, restore := compile(ghost, Switches{D6: true}).install()
	for _, s := range sets {
		k.MustIPSet(s...)
	}
	k.MustRestore(restore)
	w.priorDesc = strings.Join(desc, "+")
}

// foreignText is the foreign part of the kernel state as text (see observe.go for the ownership rule).
func foreignText(k *simkernel.Kernel) string {
	var sb strings.Builder
	for _, line := range strings.Split(k.Save("filter"), "\n") {
		switch {
		case strings.HasPrefix(line, ":") && owned(strings.Fields(line[1:])[0]):
		case strings.HasPrefix(line, "-A ") && owned(strings.Fields(line)[1]):
		case strings.HasPrefix(line, "-A ") && (strings.HasSuffix(line, " -j "+ingressDispatch) || strings.HasSuffix(line, " -j "+egressDispatch)):
		default:
			sb.WriteString(line + "\n")
		}
	}
	sb.WriteString(k.Save("nat"))
	sb.WriteString(k.Save("mangle"))
	for _, line := range strings.Split(k.SaveSets(), "\n") {
		f := strings.Fields(line)
		if len(f) >= 2 && !owned(f[1]) {
			sb.WriteString(line + "\n")
		}
	}
	return sb.String()
}

// ---------------------------------------------------------------------------------------------------------
// environment calls

func (w *World) Handle(t *core.Task, r *core.Req) core.Resp {
	switch {
	case r.Op == "exec":
		if f := w.kernelFault(r); f != nil {
			return *f
		}
		return w.Kern.Handle(r)
	case strings.HasPrefix(r.Op, "view."), simkube.IsAPI(r.Op):
		if r.Op == "api.list" && len(r.A) > 0 && r.A[0] == "pods" {
			w.S.Stat("probe.syncpods-listed-pods-through-client")
		}
		return w.K.Handle(t, r)
	case r.Op == "os.getenv":
		if len(r.A) > 0 && r.A[0] == "MY_NODE_NAME" {
			return core.Resp{Msg: thisNode}
		}
		return core.Resp{}
	case r.Op == "os.hostname":
		return core.Resp{Msg: thisNode}
	case r.Op == "w.ready":
		w.ready = true
		return core.Resp{}
	case r.Op == "w.done":
		if len(r.A) > 1 && r.A[1] != "" {
			w.S.Stat("cni.sync-error")
		}
		return core.Resp{}
	}
	return core.Resp{Code: 400, Msg: "unknown op " + r.Op}
}

func (w *World) AfterStep() {}

func (w *World) busy() bool { return len(w.S.Tasks()) > 0 }

func (w *World) Actions() []core.Action {
	if w.conc {
		return w.concActions()
	}
	if !w.ready || w.busy() || w.stage != 0 {
		return nil
	}
	if w.rebuildRunning {
		w.rebuildRunning = false
		if w.rebuildClean {
			w.damaged = false
		}
	}
	if w.convPending {
		w.checkSyncConverged()
		if w.S.Viol != nil || w.S.Infra != "" {
			return nil
		}
	}
	if w.armed("C16") && len(w.sinceJudge) > 0 && !w.firstSync && len(w.initialAdds) == 0 && w.cniPending == nil && len(w.K.PendingKinds()) == 0 {
		// event quiescence: everything delivered has been handled, nothing is running
		w.judgeEventQuiescence()
		if w.S.Viol != nil || w.S.Infra != "" {
			return nil
		}
	}
	var acts []core.Action
	if w.firstSync {
		return []core.Action{{Name: "initial-sync", Do: func() { w.firstSync = false; w.spawnSync("sync:initial") }}}
	}
	if len(w.initialAdds) > 0 {
		return []core.Action{{Name: "initial-add", Do: w.initialAdd}}
	}
	if w.cniPending != nil {
		// the kubelet writes the address into the pod status right after the CNI call returned
		return []core.Action{{Name: "cni-status", Do: w.finishCNI}}
	}
	for _, kind := range w.K.PendingKinds() {
		kind := kind
		acts = append(acts, core.Action{Name: "deliver:" + kind, Do: func() { w.deliver(kind) }})
	}
	if w.opsLeft > 0 {
		acts = append(acts, core.Action{Name: "op", Do: w.doOp})
	}
	return acts
}

func (w *World) deliver(kind string) {
	ev := w.K.Deliver(kind)
	if ev == nil {
		return
	}
	w.S.Stat("informer.delivered." + kind)
	var oldJ, newJ []byte
	var rv uint64
	if ev.Old != nil {
		oldJ = ev.Old.JSON
	}
	if ev.New != nil {
		newJ = ev.New.JSON
		rv = ev.New.RV
	}
	typ := ev.Type.String()
	if !ev.Tombstone {
		w.trackDelivery(kind, typ, ev.Key, oldJ, newJ, rv)
	}
	if kind == "namespaces" {
		return // pkg/policy registers no namespace handler
	}
	inst := w.inst
	w.handlers++
	tomb := ev.Tombstone
	if tomb {
		w.S.Stat("probe.tombstone-delivery")
	}
	t := w.S.Spawn(fmt.Sprintf("%s:%s:%s", kind[:3], typ, ev.Key), w.proc, func() { eventTask(inst, kind, typ, oldJ, newJ, tomb) })
	t.Tag = kind[:3]
	w.S.Sig("E:" + kind[:3] + ":" + typ)
	if kind == "pods" {
		w.podTask = t
	} else {
		w.polTask = t
	}
}

func (w *World) initialAdd() {
	js := w.initialAdds[0]
	w.initialAdds = w.initialAdds[1:]
	inst := w.inst
	w.handlers++
	if w.armed("C16") {
		w.rebuildShadow()
		w.sinceJudge = append(w.sinceJudge, "net:ADDED:initial")
	}
	w.fullSyncStarts("the handler of an initial net:ADDED")
	t := w.S.Spawn(fmt.Sprintf("net:ADDED:initial-%d", w.handlers), w.proc, func() { eventTask(inst, "networkpolicies", "ADDED", nil, js, false) })
	t.Tag = "net"
	w.S.Sig("E:net:ADDED")
	w.polTask = t
}

func (w *World) spawnSync(name string) {
	inst := w.inst
	w.syncs++
	if w.armed("C16") && w.view != nil {
		w.rebuildShadow()
		w.sinceJudge = append(w.sinceJudge, name)
	}
	w.fullSyncStarts(name)
	t := w.S.Spawn(name, w.proc, func() { syncTask(inst, name) })
	t.Tag = "sync"
	w.syncTask = t
}

// Idle drives the end-of-run phases: everything delivered -> full sync -> checks -> second sync -> checks.
func (w *World) Idle() bool {
	if !w.ready {
		w.S.Infra = "instance never became ready"
		return false
	}
	if w.busy() {
		if b := w.S.Blocked(); len(b) > 0 {
			var names []string
			for _, t := range b {
				names = append(names, t.Name)
			}
			if w.armed("C18") {
				w.fail("C18.wedged", "wedged", "tasks blocked forever on locks: %s", strings.Join(names, ","))
			} else {
				w.S.Infra = "galaxy tasks blocked forever (deadlock): " + strings.Join(names, ",")
			}
		} else {
			w.S.Infra = "tasks alive but none enabled"
		}
		return false
	}
	if w.hostile || w.conc {
		// everything delivered and done: one ordinary full synchronisation on the same instance must complete
		switch w.stage {
		case 0:
			w.stage = 1
			w.spawnSync("sync:follow-up")
			return true
		case 1:
			w.stage = 2
			w.followUpDone = true
		}
		return false
	}
	switch w.stage {
	case 0:
		w.stage = 1
		w.beforeFinalSync()
		w.spawnSync("sync:final-1")
		return true
	case 1:
		w.stage = 2
		w.afterFirstSync()
		if w.S.Viol != nil {
			return false
		}
		w.spawnSync("sync:final-2")
		return true
	case 2:
		w.stage = 3
		w.afterSecondSync()
		return false
	}
	return false
}
