package main

// The world's own description of a cluster (namespaces, pods, NetworkPolicies), its generator, and the
// conversion to API objects for the simulated API server. Scheduler side only. The same structures feed the
// expected-state model (model.go) and the reference evaluator (refeval.go); galaxy never sees them - it
// sees the API objects through its listers.

import (
	"fmt"
	"sort"
	"strings"

	corev1 "k8s.io/api/core/v1"
	networkingv1 "k8s.io/api/networking/v1"
	metav1 "k8s.io/apimachinery/pkg/apis/meta/v1"
	"k8s.io/apimachinery/pkg/util/intstr"
	"tkestack.io/galaxy/verifsim/core"
)

const (
	thisNode  = "node-a"
	otherNode = "node-b"
)

// Expr is one matchExpressions requirement.
type Expr struct {
	Key  string
	Op   string // In, NotIn, Exists, DoesNotExist
	Vals []string
}

// Sel is a label selector; the zero value selects everything.
type Sel struct {
	Labels map[string]string
	Exprs  []Expr
}

// Matches implements LabelSelector semantics: every matchLabels pair and every expression must hold.
func (s *Sel) Matches(l map[string]string) bool {
	for k, v := range s.Labels {
		if got, ok := l[k]; !ok || got != v {
			return false
		}
	}
	for _, e := range s.Exprs {
		got, has := l[e.Key]
		in := false
		for _, v := range e.Vals {
			if has && v == got {
				in = true
			}
		}
		switch e.Op {
		case "In":
			if !in {
				return false
			}
		case "NotIn":
			if in {
				return false
			}
		case "Exists":
			if !has {
				return false
			}
		case "DoesNotExist":
			if has {
				return false
			}
		}
	}
	return true
}

func (s *Sel) String() string {
	var parts []string
	for _, k := range sortedKeys(s.Labels) {
		parts = append(parts, k+"="+s.Labels[k])
	}
	for _, e := range s.Exprs {
		parts = append(parts, fmt.Sprintf("%s %s %v", e.Key, e.Op, e.Vals))
	}
	return "{" + strings.Join(parts, ",") + "}"
}

func (s *Sel) api() *metav1.LabelSelector {
	out := &metav1.LabelSelector{}
	if len(s.Labels) > 0 {
		out.MatchLabels = map[string]string{}
		for k, v := range s.Labels {
			out.MatchLabels[k] = v
		}
	}
	for _, e := range s.Exprs {
		out.MatchExpressions = append(out.MatchExpressions, metav1.LabelSelectorRequirement{Key: e.Key,
			Operator: metav1.LabelSelectorOperator(e.Op), Values: append([]string{}, e.Vals...)})
	}
	return out
}

// Block is an ipBlock peer.
type Block struct {
	CIDR   string
	Except []string
}

// Peer is a NetworkPolicyPeer: either Block, or PodSel and/or NsSel.
type Peer struct {
	PodSel *Sel
	NsSel  *Sel
	Block  *Block
}

// Port is a NetworkPolicyPort with a numeric port.
type Port struct {
	Proto string // "TCP", "UDP" or "" (API default: TCP)
	Port  int
}

// PRule is one ingress or egress rule.
type PRule struct {
	Peers []Peer
	Ports []Port
}

// Policy is a NetworkPolicy.
type Policy struct {
	NS, Name string
	PodSel   Sel
	Types    []string // "Ingress", "Egress"; empty = API defaulting
	Ingress  []PRule
	Egress   []PRule
}

func (p *Policy) key() string { return p.NS + "/" + p.Name }

// directions applies the API defaulting of spec.policyTypes: Ingress always, Egress iff egress rules exist.
func (p *Policy) directions() (ingress, egress bool) {
	for _, t := range p.Types {
		if t == "Ingress" {
			ingress = true
		}
		if t == "Egress" {
			egress = true
		}
	}
	if len(p.Types) == 0 {
		ingress = true
		egress = len(p.Egress) > 0
	}
	return
}

// Pod is a pod.
type Pod struct {
	NS, Name string
	Labels   map[string]string
	IP       string
	Node     string
}

func (p *Pod) key() string { return p.NS + "/" + p.Name }
func (p *Pod) local() bool { return p.Node == thisNode }

// NSObj is a namespace.
type NSObj struct {
	Name   string
	Labels map[string]string
}

// Cluster is API truth as the world tracks it.
type Cluster struct {
	NS   map[string]*NSObj
	Pods map[string]*Pod
	Pols map[string]*Policy
}

func newCluster() *Cluster {
	return &Cluster{NS: map[string]*NSObj{}, Pods: map[string]*Pod{}, Pols: map[string]*Policy{}}
}

func sortedKeys[V any](m map[string]V) []string {
	ks := make([]string, 0, len(m))
	for k := range m {
		ks = append(ks, k)
	}
	sort.Strings(ks)
	return ks
}

func copyLabels(l map[string]string) map[string]string {
	out := map[string]string{}
	for k, v := range l {
		out[k] = v
	}
	return out
}

func (c *Cluster) clone() *Cluster {
	n := newCluster()
	for k, v := range c.NS {
		n.NS[k] = &NSObj{Name: v.Name, Labels: copyLabels(v.Labels)}
	}
	for k, v := range c.Pods {
		cp := *v
		cp.Labels = copyLabels(v.Labels)
		n.Pods[k] = &cp
	}
	for k, v := range c.Pols {
		cp := *v // rules are never mutated in place (an update replaces the policy)
		n.Pols[k] = &cp
	}
	return n
}

func (c *Cluster) podList() []*Pod {
	var out []*Pod
	for _, k := range sortedKeys(c.Pods) {
		out = append(out, c.Pods[k])
	}
	return out
}

func (c *Cluster) polList() []*Policy {
	var out []*Policy
	for _, k := range sortedKeys(c.Pols) {
		out = append(out, c.Pols[k])
	}
	return out
}

// ---- API objects -----------------------------------------------------------------------------------------

func (p *Pod) api() corev1.Pod {
	return corev1.Pod{TypeMeta: metav1.TypeMeta{Kind: "Pod", APIVersion: "v1"},
		ObjectMeta: metav1.ObjectMeta{Name: p.Name, Namespace: p.NS, Labels: copyLabels(p.Labels)},
		Spec:       corev1.PodSpec{NodeName: p.Node, Containers: []corev1.Container{{Name: "c", Image: "img"}}},
		Status:     corev1.PodStatus{Phase: corev1.PodRunning, PodIP: p.IP}}
}

func (n *NSObj) api() corev1.Namespace {
	return corev1.Namespace{TypeMeta: metav1.TypeMeta{Kind: "Namespace", APIVersion: "v1"},
		ObjectMeta: metav1.ObjectMeta{Name: n.Name, Labels: copyLabels(n.Labels)}}
}

func apiRulePorts(ports []Port) []networkingv1.NetworkPolicyPort {
	var out []networkingv1.NetworkPolicyPort
	for _, pt := range ports {
		v := intstr.FromInt(pt.Port)
		np := networkingv1.NetworkPolicyPort{Port: &v}
		if pt.Proto != "" {
			pr := corev1.Protocol(pt.Proto)
			np.Protocol = &pr
		}
		out = append(out, np)
	}
	return out
}

func apiPeers(peers []Peer) []networkingv1.NetworkPolicyPeer {
	var out []networkingv1.NetworkPolicyPeer
	for _, pe := range peers {
		var a networkingv1.NetworkPolicyPeer
		if pe.PodSel != nil {
			a.PodSelector = pe.PodSel.api()
		}
		if pe.NsSel != nil {
			a.NamespaceSelector = pe.NsSel.api()
		}
		if pe.Block != nil {
			a.IPBlock = &networkingv1.IPBlock{CIDR: pe.Block.CIDR, Except: append([]string{}, pe.Block.Except...)}
		}
		out = append(out, a)
	}
	return out
}

func (p *Policy) api() networkingv1.NetworkPolicy {
	np := networkingv1.NetworkPolicy{TypeMeta: metav1.TypeMeta{Kind: "NetworkPolicy", APIVersion: "networking.k8s.io/v1"},
		ObjectMeta: metav1.ObjectMeta{Name: p.Name, Namespace: p.NS}}
	np.Spec.PodSelector = *p.PodSel.api()
	for _, t := range p.Types {
		np.Spec.PolicyTypes = append(np.Spec.PolicyTypes, networkingv1.PolicyType(t))
	}
	for _, r := range p.Ingress {
		np.Spec.Ingress = append(np.Spec.Ingress, networkingv1.NetworkPolicyIngressRule{Ports: apiRulePorts(r.Ports), From: apiPeers(r.Peers)})
	}
	for _, r := range p.Egress {
		np.Spec.Egress = append(np.Spec.Egress, networkingv1.NetworkPolicyEgressRule{Ports: apiRulePorts(r.Ports), To: apiPeers(r.Peers)})
	}
	return np
}

// ---- generator -------------------------------------------------------------------------------------------

var (
	nsNames    = []string{"ns-a", "ns-b", "ns-c"}
	podLabelKV = [][2]string{{"app", "web"}, {"app", "db"}, {"app", "api"}, {"tier", "fe"}, {"tier", "be"}}
	nsLabelKV  = [][2]string{{"team", "a"}, {"team", "b"}, {"env", "prod"}, {"env", "dev"}}
	portPool   = []int{80, 53, 443, 8080}
	cidrPool   = []string{"10.244.0.0/16", "192.168.0.0/16", "10.244.1.0/24", "172.16.0.0/12", "10.244.2.0/24", "192.168.5.0/24", "10.0.0.0/8"}
	// addresses that are interesting as flow end points and as centres of ipBlock exceptions
	externalIPs = []string{"192.168.5.7", "172.16.0.9", "10.9.8.7", "8.8.8.8", "192.168.77.1"}
)

// Features are per-run swarm switches of the generator: a run draws a subset, so that most runs stay free of
// any single known deviation and every deviation still has runs of its own.
type Features struct {
	NsPeers      bool // peers with namespaceSelector / podSelector+namespaceSelector
	CrossNsPods  bool // peers' pod selectors may match pods of other namespaces (more than one namespace populated)
	Peerless     bool // rules without peers (ports only, or allow-all)
	Blocks       bool // ipBlock peers
	MultiBlock   bool // several ipBlock peers in one rule
	ZeroPrefix   bool // ipBlock 0.0.0.0/0
	Egress       bool // egress rules / Egress policy type
	Exprs        bool // matchExpressions
	IPChange     bool // a running pod's IP may change
	Ipless       bool // pods without an IP (yet)
	GhostPolDrop bool // prior kernel state compiled from a cluster that had policies which no longer exist
	GhostPodDrop bool // prior kernel state compiled from a cluster that had pods which no longer exist
	Junk         bool // unreferenced stale GLX chains and sets in the prior state
	Foreign      bool // foreign chains, rules and sets in the prior state
	InitialSync  bool // the history starts with a full synchronisation
	CNI          bool // CNI-triggered SyncPodChains / SyncPodIPInIPSet operations
	NonCanon     bool // ipBlock cidr / except values written with host bits set (10.244.1.3/16), as the API accepts them
	Lookalikes   bool // foreign chains / sets whose names merely start with GLX
	TypeConflict bool // prior state holds a set under one of galaxy's names with the other hash type
	OffDirection bool // policies naming one direction in policyTypes while the spec also carries rules of the other
	AddWithIP    bool // pods created during the history reach the informer already carrying their address (as after a relist); otherwise they are created without one and the kubelet reports it in an update
}

func genFeatures(c *core.Choices) Features {
	// Prob(a,b): false is the simple outcome
	return Features{
		NsPeers:      c.Prob(1, 2),
		CrossNsPods:  c.Prob(1, 2),
		Peerless:     c.Prob(1, 3),
		Blocks:       c.Prob(1, 2),
		MultiBlock:   c.Prob(1, 4),
		ZeroPrefix:   c.Prob(1, 5),
		Egress:       c.Prob(1, 2),
		Exprs:        c.Prob(1, 3),
		IPChange:     c.Prob(1, 6),
		Ipless:       c.Prob(1, 3),
		GhostPolDrop: c.Prob(1, 4),
		GhostPodDrop: c.Prob(1, 4),
		Junk:         c.Prob(1, 3),
		Foreign:      c.Prob(2, 3),
		InitialSync:  c.Prob(1, 2),
		CNI:          c.Prob(1, 3),
		NonCanon:     c.Prob(1, 3),
		AddWithIP:    c.Prob(1, 5),
		OffDirection: c.Prob(1, 3),
		Lookalikes:   c.Prob(1, 4),
		TypeConflict: c.Prob(1, 8),
	}
}

// Gen generates clusters and mutations from the choice stream.
type Gen struct {
	C       *core.Choices
	F       Features
	ipSeq   map[string]int // node -> next host number
	podSeq  int
	polSeq  int
	usedIPs map[string]bool
}

func newGen(c *core.Choices, f Features) *Gen {
	return &Gen{C: c, F: f, ipSeq: map[string]int{}, usedIPs: map[string]bool{}}
}

func (g *Gen) labels(pool [][2]string, max int) map[string]string {
	out := map[string]string{}
	for i, n := 0, g.C.Range(0, max); i < n; i++ {
		kv := pool[g.C.Choose(len(pool))]
		out[kv[0]] = kv[1]
	}
	return out
}

// freshIP hands out pod addresses: 10.244.1.x on this node, 10.244.2.x on the other; an address is reused only
// after its pod is gone (oldest free address first, like a host-local IPAM), which is how a stale rule for a
// dead pod's address can start to matter for a new pod.
func (g *Gen) freshIP(node string, cl *Cluster) string {
	sub := 1
	if node != thisNode {
		sub = 2
	}
	inUse := map[string]bool{}
	for _, p := range cl.Pods {
		if p.IP != "" {
			inUse[p.IP] = true
		}
	}
	if g.C.Prob(1, 3) {
		// reuse a released address
		for h := 2; h < 2+g.ipSeq[node]; h++ {
			ip := fmt.Sprintf("10.244.%d.%d", sub, h)
			if g.usedIPs[ip] && !inUse[ip] {
				return ip
			}
		}
	}
	for {
		h := 2 + g.ipSeq[node]
		g.ipSeq[node]++
		ip := fmt.Sprintf("10.244.%d.%d", sub, h)
		if !inUse[ip] {
			g.usedIPs[ip] = true
			return ip
		}
	}
}

func (g *Gen) nsOf(cl *Cluster) string {
	ks := sortedKeys(cl.NS)
	if !g.F.CrossNsPods {
		return ks[0]
	}
	return ks[g.C.Choose(len(ks))]
}

func (g *Gen) newPod(cl *Cluster) *Pod {
	node := thisNode
	if g.C.Prob(2, 5) {
		node = otherNode
	}
	p := &Pod{NS: g.nsOf(cl), Name: fmt.Sprintf("p%d", g.podSeq), Labels: g.labels(podLabelKV, 2), Node: node}
	g.podSeq++
	// pods without an address yet: a few everywhere when the feature is on, and half of this node's new pods
	// when CNI operations are on (the address then arrives through a CNI ADD or a status update)
	ipless := (g.F.Ipless && g.C.Prob(1, 5)) || (g.F.CNI && node == thisNode && g.C.Prob(1, 2))
	if !ipless {
		p.IP = g.freshIP(node, cl)
	}
	return p
}

func (g *Gen) sel(pool [][2]string) Sel {
	switch g.C.Choose(6) {
	case 0, 1:
		kv := pool[g.C.Choose(len(pool))]
		return Sel{Labels: map[string]string{kv[0]: kv[1]}}
	case 2:
		return Sel{}
	case 3:
		a, b := pool[g.C.Choose(len(pool))], pool[g.C.Choose(len(pool))]
		return Sel{Labels: map[string]string{a[0]: a[1], b[0]: b[1]}}
	default:
		if !g.F.Exprs {
			kv := pool[g.C.Choose(len(pool))]
			return Sel{Labels: map[string]string{kv[0]: kv[1]}}
		}
		kv := pool[g.C.Choose(len(pool))]
		switch g.C.Choose(4) {
		case 0:
			kv2 := pool[g.C.Choose(len(pool))]
			vals := []string{kv[1]}
			if kv2[0] == kv[0] && kv2[1] != kv[1] {
				vals = append(vals, kv2[1])
			}
			return Sel{Exprs: []Expr{{Key: kv[0], Op: "In", Vals: vals}}}
		case 1:
			return Sel{Exprs: []Expr{{Key: kv[0], Op: "NotIn", Vals: []string{kv[1]}}}}
		case 2:
			return Sel{Exprs: []Expr{{Key: kv[0], Op: "Exists"}}}
		}
		return Sel{Exprs: []Expr{{Key: kv[0], Op: "DoesNotExist"}}}
	}
}

// block generates an ipBlock whose exceptions are proper sub-prefixes of the CIDR (API validation demands
// that) centred on addresses that flows will use.
func (g *Gen) block(cl *Cluster, used map[string]bool) *Block {
	var cidr string
	for try := 0; ; try++ {
		cidr = cidrPool[g.C.Choose(len(cidrPool))]
		if g.F.ZeroPrefix && g.C.Prob(1, 4) {
			cidr = "0.0.0.0/0"
		}
		if !used[cidr] {
			break
		}
		if try > 6 {
			// every draw hit a network this rule already names as block or exception: one hash:net member cannot
			// be both, and which of the two the API semantics "mean" is not what C15/C16 are about - no block then
			return nil
		}
	}
	used[cidr] = true // keyed by the masked form
	b := &Block{CIDR: cidr}
	base, bits, _ := parsePrefix(cidr)
	var inside []uint32
	for _, p := range cl.podList() {
		if ip, ok := ipToU32(p.IP); ok && ip&maskOf(bits) == base {
			inside = append(inside, ip)
		}
	}
	for _, e := range externalIPs {
		if ip, ok := ipToU32(e); ok && ip&maskOf(bits) == base {
			inside = append(inside, ip)
		}
	}
	for i, n := 0, g.C.Choose(3); i < n && len(inside) > 0 && bits < 32; i++ {
		a := inside[g.C.Choose(len(inside))]
		eb := bits + 1 + g.C.Choose(32-bits)
		if g.C.Prob(1, 2) {
			eb = 32
		}
		ex := fmt.Sprintf("%s/%d", u32ToIP(a&maskOf(eb)), eb)
		if used[ex] {
			continue // the same network twice in one rule would be one ipset member with two meanings
		}
		used[ex] = true
		if g.F.NonCanon && g.C.Prob(1, 2) {
			// host bits set, e.g. 10.244.1.3/24: the API server stores it as written
			ex = fmt.Sprintf("%s/%d", u32ToIP(a), eb)
		}
		b.Except = append(b.Except, ex)
	}
	if g.F.NonCanon && bits > 0 && bits < 32 && len(inside) > 0 && g.C.Prob(1, 2) {
		b.CIDR = fmt.Sprintf("%s/%d", u32ToIP(inside[g.C.Choose(len(inside))]), bits)
	}
	return b
}

func (g *Gen) peers(cl *Cluster) []Peer {
	n := g.C.Range(1, 3)
	if g.F.Peerless && g.C.Prob(1, 3) {
		n = 0
	}
	var out []Peer
	used := map[string]bool{}
	blocks := 0
	for i := 0; i < n; i++ {
		k := g.C.Choose(4)
		switch {
		case k == 1 && g.F.Blocks && (blocks == 0 || g.F.MultiBlock):
			if b := g.block(cl, used); b != nil {
				out = append(out, Peer{Block: b})
				blocks++
			} else {
				sl := g.sel(podLabelKV)
				out = append(out, Peer{PodSel: &sl})
			}
		case k == 2 && g.F.NsPeers:
			s := g.sel(nsLabelKV)
			out = append(out, Peer{NsSel: &s})
		case k == 3 && g.F.NsPeers:
			s, s2 := g.sel(podLabelKV), g.sel(nsLabelKV)
			out = append(out, Peer{PodSel: &s, NsSel: &s2})
		default:
			s := g.sel(podLabelKV)
			out = append(out, Peer{PodSel: &s})
		}
	}
	for roleClash(PRule{Peers: out}) {
		// cannot happen through `used`; kept as a guard: drop the last block
		for i := len(out) - 1; i >= 0; i-- {
			if out[i].Block != nil {
				out = append(out[:i], out[i+1:]...)
				break
			}
		}
	}
	return out
}

func (g *Gen) ports() []Port {
	var out []Port
	for i, n := 0, g.C.Choose(4); i < n; i++ {
		p := Port{Port: portPool[g.C.Choose(len(portPool))]}
		switch g.C.Choose(3) {
		case 1:
			p.Proto = "TCP"
		case 2:
			p.Proto = "UDP"
		}
		out = append(out, p)
	}
	return out
}

func (g *Gen) rules(cl *Cluster, max int) []PRule {
	var out []PRule
	for i, n := 0, g.C.Range(0, max); i < n; i++ {
		out = append(out, PRule{Peers: g.peers(cl), Ports: g.ports()})
	}
	return out
}

// policySpec fills everything but the identity. spec.policyTypes governs which directions are in force; when it is
// empty the API defaults to Ingress always and Egress iff egress rules are present. All combinations occur:
// empty policyTypes with ingress rules only / egress rules only / both / none, [Ingress], [Egress], both types
// with either section empty, and - under the OffDirection flag - a single named type while the spec also carries
// rules of the OTHER direction, which the API stores and ignores (a manifest where someone wrote an egress section
// and forgot the type). Not produced (outside the quantifier of C15/C16): named ports, ports without a number, SCTP.
func (g *Gen) policySpec(cl *Cluster, p *Policy) {
	p.PodSel = g.sel(podLabelKV)
	p.Types, p.Ingress, p.Egress = nil, nil, nil
	kind := g.C.Choose(4) // 0: defaulted types, 1: Ingress, 2: Egress, 3: both
	if !g.F.Egress {
		kind = g.C.Choose(2)
	}
	switch kind {
	case 0:
		p.Ingress = g.rules(cl, 2)
		if g.F.Egress && g.C.Prob(1, 3) {
			p.Egress = g.rules(cl, 2)
		}
	case 1:
		p.Types = []string{"Ingress"}
		p.Ingress = g.rules(cl, 2)
	case 2:
		p.Types = []string{"Egress"}
		p.Egress = g.rules(cl, 2)
	case 3:
		p.Types = []string{"Ingress", "Egress"}
		p.Ingress = g.rules(cl, 2)
		p.Egress = g.rules(cl, 2)
	}
	if g.F.OffDirection && g.C.Prob(1, 2) {
		switch kind {
		case 1:
			p.Egress = g.rules(cl, 2) // ignored by the API: Egress is not in policyTypes
		case 2:
			p.Ingress = g.rules(cl, 2) // ignored by the API: Ingress is not in policyTypes
		}
	}
}

// roleClash reports whether a rule names one network both as the block of a peer and as an exception of a peer (the
// same or another one). The API accepts that (peers are OR-ed, so the block re-admits what the other peer excepts),
// but one hash:net set cannot hold a member with and without nomatch: what galaxy's one-set-per-rule design (known
// D13) then installs depends on which form it added last and alternates from one synchronisation to the next, so
// there is no single expected state to hold it to. Such rules are not generated (stated in AUDIT.md).
func roleClash(r PRule) bool {
	blocks, excepts := map[string]bool{}, map[string]bool{}
	for _, pe := range r.Peers {
		if pe.Block == nil {
			continue
		}
		if c, ok := netMember(pe.Block.CIDR); ok {
			blocks[c] = true
		}
		for _, ex := range pe.Block.Except {
			if c, ok := netMember(ex); ok {
				excepts[c] = true
			}
		}
	}
	for c := range blocks {
		if excepts[c] {
			return true
		}
	}
	return false
}

// flipRoles returns a copy of the policy in which one ipBlock CIDR changes its role inside its rule: a block's cidr
// becomes an exception of a wider block, or an exception becomes the block itself. nil if the policy has no ipBlock.
// (An update of this kind makes the same hash:net member wanted with and without nomatch in consecutive syncs.)
func (g *Gen) flipRoles(p *Policy) *Policy {
	type loc struct {
		egress bool
		r, pe  int
	}
	var locs []loc
	for _, eg := range []bool{false, true} {
		rules := p.Ingress
		if eg {
			rules = p.Egress
		}
		for ri, r := range rules {
			for pi, pe := range r.Peers {
				if pe.Block != nil {
					_, bits, ok := parsePrefix(pe.Block.CIDR)
					if ok && (bits > 8 || len(pe.Block.Except) > 0) {
						locs = append(locs, loc{eg, ri, pi})
					}
				}
			}
		}
	}
	if len(locs) == 0 {
		return nil
	}
	l := locs[g.C.Choose(len(locs))]
	cp := *p
	copyRules := func(rs []PRule) []PRule {
		out := make([]PRule, len(rs))
		for i, r := range rs {
			out[i] = PRule{Peers: append([]Peer{}, r.Peers...), Ports: r.Ports}
		}
		return out
	}
	cp.Ingress, cp.Egress = copyRules(p.Ingress), copyRules(p.Egress)
	rules := cp.Ingress
	if l.egress {
		rules = cp.Egress
	}
	old := rules[l.r].Peers[l.pe].Block
	base, bits, _ := parsePrefix(old.CIDR)
	nb := &Block{}
	if len(old.Except) > 0 && (bits <= 8 || g.C.Prob(1, 2)) {
		// an exception becomes the block
		nb.CIDR = old.Except[g.C.Choose(len(old.Except))]
	} else {
		// the block becomes an exception of a wider block
		k := 1 + g.C.Choose(8)
		if bits-k < 8 {
			k = bits - 8
		}
		nb.CIDR = fmt.Sprintf("%s/%d", u32ToIP(base&maskOf(bits-k)), bits-k)
		nb.Except = []string{fmt.Sprintf("%s/%d", u32ToIP(base), bits)}
	}
	rules[l.r].Peers[l.pe] = Peer{Block: nb}
	if roleClash(rules[l.r]) {
		return nil // the new role collides with another peer of the same rule
	}
	return &cp
}

func (g *Gen) newPolicy(cl *Cluster) *Policy {
	p := &Policy{NS: g.nsOf(cl), Name: fmt.Sprintf("np%d", g.polSeq)}
	g.polSeq++
	g.policySpec(cl, p)
	return p
}

// cluster generates a "before" state.
func (g *Gen) cluster() *Cluster {
	cl := newCluster()
	for i, n := 0, g.C.Range(1, 3); i < n; i++ {
		cl.NS[nsNames[i]] = &NSObj{Name: nsNames[i], Labels: g.labels(nsLabelKV, 2)}
	}
	for i, n := 0, g.C.Range(2, 8); i < n; i++ {
		p := g.newPod(cl)
		cl.Pods[p.key()] = p
	}
	for i, n := 0, g.C.Range(0, 5); i < n; i++ {
		p := g.newPolicy(cl)
		cl.Pols[p.key()] = p
	}
	return cl
}

// ---- small IPv4 helpers (the world's own, independent of the kernel package) --------------------------------

func ipToU32(s string) (uint32, bool) {
	var a, b, c, d int
	if n, err := fmt.Sscanf(s, "%d.%d.%d.%d", &a, &b, &c, &d); n != 4 || err != nil {
		return 0, false
	}
	if a|b|c|d < 0 || a > 255 || b > 255 || c > 255 || d > 255 {
		return 0, false
	}
	return uint32(a)<<24 | uint32(b)<<16 | uint32(c)<<8 | uint32(d), true
}

func u32ToIP(v uint32) string {
	return fmt.Sprintf("%d.%d.%d.%d", byte(v>>24), byte(v>>16), byte(v>>8), byte(v))
}

func maskOf(bits int) uint32 {
	if bits <= 0 {
		return 0
	}
	return ^uint32(0) << (32 - uint(bits))
}

func parsePrefix(s string) (uint32, int, bool) {
	bits := 32
	host := s
	if i := strings.IndexByte(s, '/'); i >= 0 {
		host = s[:i]
		if _, err := fmt.Sscanf(s[i+1:], "%d", &bits); err != nil || bits < 0 || bits > 32 {
			return 0, 0, false
		}
	}
	ip, ok := ipToU32(host)
	if !ok {
		return 0, 0, false
	}
	return ip & maskOf(bits), bits, true
}
