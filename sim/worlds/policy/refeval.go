package main

// Reference evaluator of the Kubernetes NetworkPolicy API semantics (C16), written from the API documentation
// of networking.k8s.io/v1 and independent of how galaxy compiles policies:
//
//   - a pod is isolated for ingress (egress) iff some policy of its namespace selects it and covers that direction
//     (spec.policyTypes, defaulted: Ingress always, Egress iff egress rules are present);
//   - a non-isolated pod admits everything in that direction; an isolated pod admits a connection iff some such
//     policy has a rule of that direction whose peers and ports both match;
//   - from/to empty = every peer; otherwise some peer must match: ipBlock = inside the CIDR and outside every
//     exception; podSelector alone = pods of the POLICY's namespace; namespaceSelector alone = all pods of the
//     selected namespaces; both = selected pods in selected namespaces;
//   - ports empty = every port; otherwise protocol (default TCP) and number must match one entry;
//   - what this node has to enforce for a connection: the egress side if the source is a pod of this node and
//     the ingress side if the destination is a pod of this node (the other ends are enforced where they run).
//
// The named deviation switches (model.go) change exactly the clause their comment states.

import (
	"fmt"
	"sort"
	"strings"
)

// Flow is a new connection.
type Flow struct {
	Src, Dst string // addresses
	Proto    string // tcp, udp
	Port     int
}

func (f Flow) String() string { return fmt.Sprintf("%s->%s %s/%d", f.Src, f.Dst, f.Proto, f.Port) }

type refModel struct {
	cl       *Cluster
	sw       Switches
	podByIP  map[string]*Pod
	firstDir string // D11: which dispatch chain FORWARD reaches first ("egress" or "ingress")
	// over, when set, carries what named event-gap switches (events.go) say galaxy's incrementally maintained
	// state is where it differs from the current API state: membership of an address in a policy's selected set
	// or in a rule's pod-peer set, and pods that no handler has looked at yet (no pod chain).
	over *overrides
}

// overrides is the effect of the enabled event-gap switches on the reference evaluator.
type overrides struct {
	memb      map[string]map[string]bool // set name -> address -> member?
	invisible map[string]bool            // pod key -> galaxy has installed nothing for the pod
}

func (o *overrides) member(set, addr string, truth bool) bool {
	if o != nil {
		if v, ok := o.memb[set][addr]; ok {
			return v
		}
	}
	return truth
}

func newRefModel(cl *Cluster, sw Switches, firstDir string) *refModel {
	m := &refModel{cl: cl, sw: sw, podByIP: map[string]*Pod{}, firstDir: firstDir}
	for _, p := range cl.podList() {
		if p.IP != "" {
			m.podByIP[p.IP] = p
		}
	}
	return m
}

func isLost(lost map[string]bool, cidr string) bool {
	if len(lost) == 0 {
		return false
	}
	c, ok := netMember(cidr)
	return ok && lost[c]
}

func blockMatches(b *Block, addr uint32, lost map[string]bool) bool {
	base, bits, ok := parsePrefix(b.CIDR)
	if !ok || addr&maskOf(bits) != base || isLost(lost, b.CIDR) {
		return false
	}
	for _, ex := range b.Except {
		eb, ebits, ok := parsePrefix(ex)
		if ok && addr&maskOf(ebits) == eb && !isLost(lost, ex) {
			return false
		}
	}
	return true
}

// mergedBlocksMatch is switch D13: all ipBlock peers of the rule as one hash:net set (most specific covering
// member decides; an exception member means "no match"; a zero prefix is not stored).
func mergedBlocksMatch(peers []Peer, addr uint32, lost map[string]bool) bool {
	type ent struct {
		bits    int
		nomatch bool
	}
	best := ent{bits: -1}
	consider := func(cidr string, nomatch bool) {
		base, bits, ok := parsePrefix(cidr)
		if !ok || bits == 0 || addr&maskOf(bits) != base || isLost(lost, cidr) {
			return
		}
		// the same prefix as member and as exception cannot both be stored; the generator avoids that case
		if bits > best.bits {
			best = ent{bits: bits, nomatch: nomatch}
		}
	}
	for i := range peers {
		if b := peers[i].Block; b != nil {
			consider(b.CIDR, false)
			for _, ex := range b.Except {
				consider(ex, true)
			}
		}
	}
	return best.bits >= 0 && !best.nomatch
}

// peersMatch: does the address (a pod if peerPod != nil) satisfy the from/to list of rule idx of the policy's
// ingress (egress=false) or egress rules?
func (m *refModel) peersMatch(pol *Policy, egress bool, idx int, peers []Peer, addr string, peerPod *Pod) bool {
	if len(peers) == 0 {
		return !m.sw.D6
	}
	a, _ := ipToU32(addr)
	var lost map[string]bool // (kept as a parameter of the block evaluators; no switch sets it any more)
	if m.sw.D13 && mergedBlocksMatch(peers, a, lost) {
		return true
	}
	podish, hasPodish := false, false
	for i := range peers {
		pe := &peers[i]
		if pe.Block != nil {
			if !m.sw.D13 && blockMatches(pe.Block, a, lost) {
				return true
			}
			continue
		}
		hasPodish = true
		if peerPod != nil && peerMatchesPod(m.cl, pe, pol.NS, peerPod, m.sw) {
			podish = true
		}
	}
	if hasPodish && m.over != nil {
		podish = m.over.member(peerSetName(pol, egress, idx, false), addr, podish)
	}
	return podish
}

// selectedMember: is the address in the policy's set of selected pods?
func (m *refModel) selectedMember(pol *Policy, addr string, pod *Pod) bool {
	truth := pod != nil && pod.NS == pol.NS && pol.PodSel.Matches(pod.Labels)
	return m.over.member(selectedSetName(pol), addr, truth)
}

func portsMatch(ports []Port, proto string, port int) bool {
	if len(ports) == 0 {
		return true
	}
	for _, p := range ports {
		pp := "tcp"
		if p.Proto != "" {
			pp = strings.ToLower(p.Proto)
		}
		if pp == proto && p.Port == port {
			return true
		}
	}
	return false
}

// sideAllowed evaluates one direction for pod (the destination for ingress, the source for egress); other is
// the address at the far end. isolated=false means no policy restricts the pod in that direction.
func (m *refModel) sideAllowed(pod *Pod, ingress bool, f Flow) (allowed, isolated bool) {
	otherAddr := f.Src
	if !ingress {
		otherAddr = f.Dst
	}
	otherPod := m.podByIP[otherAddr]
	if m.over != nil && m.over.invisible[pod.key()] {
		return true, false
	}
	for _, pol := range m.cl.polList() {
		if pol.NS != pod.NS || !pol.PodSel.Matches(pod.Labels) {
			continue
		}
		in, eg := pol.directions()
		if (ingress && in) || (!ingress && eg) {
			isolated = true
		}
	}
	if !isolated {
		return true, false
	}
	for _, pol := range m.cl.polList() {
		if pol.NS != pod.NS || !pol.PodSel.Matches(pod.Labels) {
			continue
		}
		in, eg := pol.directions()
		// rules of the direction being judged, where pod is the selected end
		if ingress && in || (!ingress && eg) {
			rules := pol.Ingress
			if !ingress {
				rules = pol.Egress
			}
			// the pod's own address has to be in the policy's selected set for any of these rules to match
			if m.selectedMember(pol, pod.IP, pod) {
				for i, r := range rules {
					if m.peersMatch(pol, !ingress, i, r.Peers, otherAddr, otherPod) && portsMatch(r.Ports, f.Proto, f.Port) {
						return true, true
					}
				}
			}
		}
		if m.sw.D12 {
			// rules of the OTHER direction of any policy selecting pod: they match when the far end is a
			// selected pod of the policy and pod itself is among the rule's peers
			var rules []PRule
			if ingress && eg {
				rules = pol.Egress
			} else if !ingress && in {
				rules = pol.Ingress
			}
			if m.selectedMember(pol, otherAddr, otherPod) {
				for i, r := range rules {
					if m.peersMatch(pol, ingress, i, r.Peers, pod.IP, pod) && portsMatch(r.Ports, f.Proto, f.Port) {
						return true, true
					}
				}
			}
		}
	}
	return false, true
}

// allowed is what this node must decide for the flow.
func (m *refModel) allowed(f Flow) bool {
	src, dst := m.podByIP[f.Src], m.podByIP[f.Dst]
	srcLocal := src != nil && src.local()
	dstLocal := dst != nil && dst.local()
	egOK, egIso := true, false
	inOK, inIso := true, false
	if srcLocal {
		egOK, egIso = m.sideAllowed(src, false, f)
	}
	if dstLocal {
		inOK, inIso = m.sideAllowed(dst, true, f)
	}
	if m.sw.D11 && srcLocal && dstLocal {
		if m.firstDir == "ingress" {
			if inIso {
				return inOK
			}
			return egOK
		}
		if egIso {
			return egOK
		}
		return inOK
	}
	return egOK && inOK
}

// flows enumerates the connections judged for a cluster: every ordered pair (pod of this node, other end) in
// both directions, where the other end is any other pod with an address or one of the external addresses
// (fixed ones plus the centre of every ipBlock exception), TCP and UDP, every port a policy names plus one
// that none names.
func flows(cl *Cluster, extraEnds ...string) []Flow {
	var ends []string
	seen := map[string]bool{}
	add := func(ip string) {
		if ip != "" && !seen[ip] {
			seen[ip] = true
			ends = append(ends, ip)
		}
	}
	for _, p := range cl.podList() {
		add(p.IP)
	}
	for _, e := range externalIPs {
		add(e)
	}
	for _, e := range extraEnds {
		add(e)
	}
	for _, pol := range cl.polList() {
		for _, rs := range [][]PRule{pol.Ingress, pol.Egress} {
			for _, r := range rs {
				for _, pe := range r.Peers {
					if pe.Block == nil {
						continue
					}
					for _, ex := range pe.Block.Except {
						if ip, bits, ok := parsePrefix(ex); ok {
							add(u32ToIP(ip)) // inside the exception
							if bits < 32 {
								add(u32ToIP(ip + 1))
							}
						}
					}
				}
			}
		}
	}
	sort.Strings(ends)
	ports := append([]int{}, portPool...)
	ports = append(ports, 9999)
	var out []Flow
	for _, p := range cl.podList() {
		if !p.local() || p.IP == "" {
			continue
		}
		for _, e := range ends {
			if e == p.IP {
				continue
			}
			for _, proto := range []string{"tcp", "udp"} {
				for _, port := range ports {
					out = append(out, Flow{Src: e, Dst: p.IP, Proto: proto, Port: port})
					out = append(out, Flow{Src: p.IP, Dst: e, Proto: proto, Port: port})
				}
			}
			// a protocol without ports: admitted only by rules that list no ports at all
			out = append(out, Flow{Src: e, Dst: p.IP, Proto: "icmp"}, Flow{Src: p.IP, Dst: e, Proto: "icmp"})
		}
	}
	return out
}
