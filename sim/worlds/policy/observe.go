package main

// Observation of the kernel through `iptables-save` and `ipset save` text (the observation point named by the
// property), split into the galaxy-owned part (compared with the expected-state model) and the foreign part
// (compared byte for byte with the start of the run).
//
// Ownership rule used by the oracle: galaxy declares the name prefix "GLX" as its namespace (NamePrefix in
// pkg/policy/policy.go, as KUBE- is kube-proxy's). Filter-table chains and ipsets whose name starts with GLX, and
// rules of built-in filter chains that jump to GLX-INGRESS / GLX-EGRESS, are galaxy's, whatever follows the prefix.
// Everything else - other chains and their rules (also names that merely resemble the prefix: GL-PLCY-FOO,
// XGLX-PLCYBACKUP, glx-fw, MY-GLX-backup), the remaining rules and the policies of built-in chains, the nat and
// mangle tables, other sets - is foreign.

import (
	"fmt"
	"sort"
	"strings"

	"tkestack.io/galaxy/verifsim/simkernel"
)

func owned(name string) bool { return strings.HasPrefix(name, "GLX") }

// ObsSet is an observed ipset.
type ObsSet struct {
	Type    string
	Members []string
}

// Observed is the parsed kernel state.
type Observed struct {
	Chains  map[string][]*simkernel.Rule // filter table, every chain
	Sets    map[string]*ObsSet
	Foreign string
	perr    string // parse trouble (harness error)
}

func observe(k *simkernel.Kernel) *Observed {
	o := &Observed{Chains: map[string][]*simkernel.Rule{}, Sets: map[string]*ObsSet{}}
	var foreign strings.Builder
	for _, line := range strings.Split(k.Save("filter"), "\n") {
		switch {
		case strings.HasPrefix(line, ":"):
			name := strings.Fields(line[1:])[0]
			o.Chains[name] = nil
			if !owned(name) {
				foreign.WriteString(line + "\n")
			}
		case strings.HasPrefix(line, "-A "):
			f := strings.SplitN(line, " ", 3)
			spec := ""
			if len(f) == 3 {
				spec = f[2]
			}
			r, err := simkernel.ParseSpec(spec)
			if err != nil {
				o.perr = fmt.Sprintf("cannot parse saved rule %q: %v", line, err)
				continue
			}
			o.Chains[f[1]] = append(o.Chains[f[1]], r)
			if !owned(f[1]) && r.Target != ingressDispatch && r.Target != egressDispatch {
				foreign.WriteString(line + "\n")
			}
		default:
			foreign.WriteString(line + "\n")
		}
	}
	foreign.WriteString(k.Save("nat"))
	foreign.WriteString(k.Save("mangle"))
	for _, line := range strings.Split(k.SaveSets(), "\n") {
		f := strings.Fields(line)
		if len(f) < 3 {
			continue
		}
		switch f[0] {
		case "create":
			o.Sets[f[1]] = &ObsSet{Type: f[2]}
		case "add":
			if s := o.Sets[f[1]]; s != nil {
				s.Members = append(s.Members, strings.Join(f[2:], " "))
			}
		}
		if !owned(f[1]) {
			foreign.WriteString(line + "\n")
		}
	}
	for _, s := range o.Sets {
		sort.Strings(s.Members)
	}
	o.Foreign = foreign.String()
	return o
}

// DiffItem is one difference between the expected and the observed galaxy-owned state.
type DiffItem struct {
	Kind   string // extra-set, missing-set, set-type, set-members, extra-policy-chain, missing-policy-chain, policy-rules,
	// extra-pod-chain, missing-pod-chain, pod-chain-rules, extra-dispatch, missing-dispatch, missing-builtin-jump, dispatch-shape
	Object string
	Detail string
	Target string // dispatch rules: the pod chain jumped to
}

func (d DiffItem) String() string { return d.Kind + " " + d.Object + " " + d.Detail }

func matchOpt(r *simkernel.Rule, mod, opt string) []*simkernel.Opt {
	var out []*simkernel.Opt
	for i := range r.Matches {
		if r.Matches[i].Mod != mod {
			continue
		}
		for j := range r.Matches[i].Opts {
			if r.Matches[i].Opts[j].Name == opt {
				out = append(out, &r.Matches[i].Opts[j])
			}
		}
	}
	return out
}

// onlyMods reports whether the rule uses no selector other than the listed match modules (and -p if allowed).
func onlyMods(r *simkernel.Rule, proto bool, mods ...string) bool {
	if r.Src != nil || r.Dst != nil || r.In != nil || r.Out != nil || (r.Proto != nil && !proto) || r.Goto || len(r.TOpts) > 0 {
		return false
	}
	for _, m := range r.Matches {
		ok := false
		for _, x := range mods {
			if m.Mod == x {
				ok = true
			}
		}
		if !ok {
			return false
		}
	}
	return true
}

// policyRuleKey reduces an observed rule of a policy chain to the model's ExpRule; ok=false if the rule is not
// of the documented shape (then its text is compared instead and can never equal an expected rule).
func policyRuleKey(r *simkernel.Rule) (ExpRule, bool) {
	if r.Target != "ACCEPT" || !onlyMods(r, true, "comment", "set", "multiport") {
		return ExpRule{}, false
	}
	k := ExpRule{}
	if r.Proto != nil {
		if r.Proto.Neg {
			return ExpRule{}, false
		}
		k.Proto = r.Proto.V
	}
	for _, o := range matchOpt(r, "set", "--match-set") {
		if o.Neg || len(o.Args) != 2 {
			return ExpRule{}, false
		}
		switch o.Args[1] {
		case "src":
			if k.Src != "" {
				return ExpRule{}, false
			}
			k.Src = o.Args[0]
		case "dst":
			if k.Dst != "" {
				return ExpRule{}, false
			}
			k.Dst = o.Args[0]
		default:
			return ExpRule{}, false
		}
	}
	mp := matchOpt(r, "multiport", "--dports")
	if len(mp) > 1 || len(matchOpt(r, "multiport", "--sports"))+len(matchOpt(r, "multiport", "--ports")) > 0 {
		return ExpRule{}, false
	}
	if len(mp) == 1 {
		if mp[0].Neg {
			return ExpRule{}, false
		}
		// a port listed twice means the same as listed once
		ps := strings.Split(mp[0].Args[0], ",")
		sort.Strings(ps)
		k.Ports = strings.Join(dedup(ps), ",")
	}
	return k, true
}

func sameStrings(a, b []string) bool {
	if len(a) != len(b) {
		return false
	}
	for i := range a {
		if a[i] != b[i] {
			return false
		}
	}
	return true
}

// diff compares the observed galaxy-owned state with the expectation.
func diff(e *Expected, o *Observed) []DiffItem {
	var d []DiffItem
	// sets
	for _, n := range sortedKeys(o.Sets) {
		if owned(n) && e.Sets[n] == nil {
			d = append(d, DiffItem{Kind: "extra-set", Object: n})
		}
	}
	for _, n := range sortedKeys(e.Sets) {
		es, os := e.Sets[n], o.Sets[n]
		switch {
		case os == nil:
			d = append(d, DiffItem{Kind: "missing-set", Object: n})
		case os.Type != es.Type:
			d = append(d, DiffItem{Kind: "set-type", Object: n, Detail: os.Type + " want " + es.Type})
		case !sameStrings(os.Members, es.Members):
			d = append(d, DiffItem{Kind: "set-members", Object: n, Detail: fmt.Sprintf("%v want %v", os.Members, es.Members)})
		}
	}
	// policy chains
	for _, n := range sortedKeys(o.Chains) {
		if strings.HasPrefix(n, "GLX-PLCY-") && e.PolChain[n] == nil {
			if _, ok := e.PolChain[n]; !ok {
				d = append(d, DiffItem{Kind: "extra-policy-chain", Object: n})
			}
		}
	}
	for _, n := range sortedKeys(e.PolChain) {
		rules, ok := o.Chains[n]
		if !ok {
			d = append(d, DiffItem{Kind: "missing-policy-chain", Object: n})
			continue
		}
		var got []string
		for _, r := range rules {
			if k, ok := policyRuleKey(r); ok {
				got = append(got, k.String())
			} else {
				got = append(got, "?"+r.Spec())
			}
		}
		sort.Strings(got)
		var want []string
		for _, r := range e.PolChain[n] {
			want = append(want, r.String())
		}
		sort.Strings(want)
		if !sameStrings(got, want) {
			d = append(d, DiffItem{Kind: "policy-rules", Object: n, Detail: fmt.Sprintf("%v want %v", got, want)})
		}
	}
	// pod chains
	for _, n := range sortedKeys(o.Chains) {
		if strings.HasPrefix(n, "GLX-POD-") && e.Pods[n] == nil {
			d = append(d, DiffItem{Kind: "extra-pod-chain", Object: n})
		}
	}
	for _, n := range sortedKeys(e.Pods) {
		ep := e.Pods[n]
		rules, ok := o.Chains[n]
		if !ok {
			d = append(d, DiffItem{Kind: "missing-pod-chain", Object: n})
			continue
		}
		if msg := podChainShape(rules, ep); msg != "" {
			d = append(d, DiffItem{Kind: "pod-chain-rules", Object: n, Detail: msg})
		}
	}
	// dispatch chains
	wantIn, wantEg := map[string]string{}, map[string]string{} // "ip chain" -> chain
	for _, n := range sortedKeys(e.Pods) {
		ep := e.Pods[n]
		if ep.Ingress {
			wantIn[ep.IP+" "+n] = n
		}
		if ep.Egress {
			wantEg[ep.IP+" "+n] = n
		}
	}
	d = append(d, dispatchDiff(o, ingressDispatch, true, wantIn)...)
	d = append(d, dispatchDiff(o, egressDispatch, false, wantEg)...)
	// any other GLX- chain is not part of the documented topology
	for _, n := range sortedKeys(o.Chains) {
		if owned(n) && n != ingressDispatch && n != egressDispatch && !strings.HasPrefix(n, "GLX-PLCY-") && !strings.HasPrefix(n, "GLX-POD-") {
			d = append(d, DiffItem{Kind: "extra-chain", Object: n})
		}
	}
	// jumps from the built-in chains (needed as soon as a pod is dispatched)
	if len(e.Pods) > 0 {
		for _, j := range [][2]string{{"FORWARD", ingressDispatch}, {"FORWARD", egressDispatch}, {"OUTPUT", ingressDispatch}, {"INPUT", egressDispatch}} {
			n := 0
			for _, r := range o.Chains[j[0]] {
				if r.Target == j[1] && onlyMods(r, false, "comment") {
					n++
				}
			}
			if n != 1 {
				d = append(d, DiffItem{Kind: "missing-builtin-jump", Object: j[0] + "->" + j[1], Detail: fmt.Sprintf("%d unconditional jumps, want 1", n)})
			}
		}
	}
	return d
}

func podChainShape(rules []*simkernel.Rule, ep *ExpPod) string {
	if len(rules) < 2 {
		return fmt.Sprintf("%d rules", len(rules))
	}
	first, last := rules[0], rules[len(rules)-1]
	ct := matchOpt(first, "conntrack", "--ctstate")
	if first.Target != "ACCEPT" || !onlyMods(first, false, "comment", "conntrack") || len(ct) != 1 || ct[0].Neg {
		return "first rule is not the established-traffic ACCEPT: " + first.Spec()
	}
	st := strings.Split(ct[0].Args[0], ",")
	sort.Strings(st)
	if strings.Join(st, ",") != "ESTABLISHED,RELATED" {
		return "first rule is not the established-traffic ACCEPT: " + first.Spec()
	}
	if last.Target != "DROP" || !onlyMods(last, false, "comment") {
		return "last rule is not the unconditional DROP: " + last.Spec()
	}
	var jumps []string
	for _, r := range rules[1 : len(rules)-1] {
		if !onlyMods(r, false, "comment") || !strings.HasPrefix(r.Target, "GLX-PLCY-") {
			return "unexpected rule: " + r.Spec()
		}
		jumps = append(jumps, r.Target)
	}
	sort.Strings(jumps)
	if !sameStrings(jumps, ep.Jumps) {
		return fmt.Sprintf("jumps %v want %v", jumps, ep.Jumps)
	}
	return ""
}

func dispatchDiff(o *Observed, chain string, byDst bool, want map[string]string) []DiffItem {
	var d []DiffItem
	rules, exists := o.Chains[chain]
	got := map[string]int{}
	for _, r := range rules {
		a := r.Src
		other := r.Dst
		if byDst {
			a, other = r.Dst, r.Src
		}
		if a == nil || a.Neg || a.Bits != 32 || other != nil || r.Proto != nil || r.In != nil || r.Out != nil || r.Goto || len(r.TOpts) > 0 ||
			!strings.HasPrefix(r.Target, "GLX-POD-") || len(r.Matches) != len(matchOpt(r, "comment", "--comment")) {
			d = append(d, DiffItem{Kind: "dispatch-shape", Object: chain, Detail: r.Spec(), Target: r.Target})
			continue
		}
		key := simkernel.U32ToIP(a.IP) + " " + r.Target
		got[key]++
		if _, ok := want[key]; !ok || got[key] > 1 {
			d = append(d, DiffItem{Kind: "extra-dispatch", Object: chain, Detail: r.Spec(), Target: r.Target})
		}
	}
	for _, k := range sortedKeys(want) {
		if got[k] == 0 {
			det := k
			if !exists {
				det += " (chain missing)"
			}
			d = append(d, DiffItem{Kind: "missing-dispatch", Object: chain, Detail: det, Target: want[k]})
		}
	}
	return d
}

func diffText(d []DiffItem, max int) string {
	var parts []string
	for i, x := range d {
		if i >= max {
			parts = append(parts, fmt.Sprintf("... and %d more", len(d)-max))
			break
		}
		parts = append(parts, x.String())
	}
	return strings.Join(parts, "; ")
}

func diffKinds(d []DiffItem) string {
	seen := map[string]bool{}
	for _, x := range d {
		seen[x.Kind] = true
	}
	return strings.Join(sortedKeys(seen), ",")
}
