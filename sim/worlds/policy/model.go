package main

// Expected-state model of C15: what the galaxy-owned ipsets, policy chains, pod chains and dispatch rules
// must be for a given cluster. It is derived from the property text and doc/network-policy.md ("hash:ip for
// namespaceSelector and podSelector, hash:net with nomatch for ipBlock, one multiport rule per protocol",
// the ingress/egress pictures: per-policy chain of ACCEPT rules, per-pod chain that accepts established
// traffic, jumps to the chains of the policies selecting the pod and ends in DROP, hooked by pod IP from
// GLX-INGRESS (-d) and GLX-EGRESS (-s)).
//
// What is mirrored from pkg/policy, and why: only NAMES. The property speaks of "galaxy-owned" objects and an
// observer can tell which object belongs to which policy, rule or pod only through galaxy's naming scheme
// (prefix GLX-, "PLCY"/"POD"/"ip"/"sip-<i>"/"snet-<i>"/"dip-<i>"/"dnet-<i>" and the first 16 characters of the
// base32 SHA-256 of "<name>_<namespace>"). Membership of sets, which rules exist, what they match and how pod
// chains are composed are computed here from the API semantics, not copied. Rule order inside a policy chain,
// port order inside a multiport list and comment texts are not part of the expectation.

import (
	"crypto/sha256"
	"encoding/base32"
	"fmt"
	"sort"
	"strings"
)

// Switches are the named deviation switches of the reference model (DESIGN §6 "known findings as
// explanations"). All false = the pure model.
type Switches struct {
	// D6: a peer's podSelector is matched against the pods of every namespace and a namespaceSelector next to
	// it is ignored; a rule without peers compiles to nothing (so it admits nothing instead of everything).
	D6 bool
	// D11: for a flow between two pods of this node, an ACCEPT reached in the first dispatch chain traversed
	// (GLX-EGRESS before GLX-INGRESS in galaxy's insertion order) ends the traversal: the other side's
	// policies are not consulted.
	D11 bool
	// D12: a pod chain jumps to the chain of every policy selecting the pod and a policy chain holds the
	// ingress and the egress rules together, so a flow in one direction is also admitted by a rule of the
	// other direction whose address sets happen to match.
	D12 bool
	// D13: the ipBlock peers of one rule are evaluated as one hash:net ipset: exceptions of one block also cut
	// holes into the other blocks of the rule, and 0.0.0.0/0 cannot be stored (the block admits nothing).
	D13 bool
}

var switchNames = []string{"D6", "D11", "D12", "D13"}

func (s Switches) get(i int) bool { return [...]bool{s.D6, s.D11, s.D12, s.D13}[i] }

func switchesFromMask(m int) Switches {
	return Switches{D6: m&1 != 0, D11: m&2 != 0, D12: m&4 != 0, D13: m&8 != 0}
}

func (s Switches) names() []string {
	var out []string
	for i, n := range switchNames {
		if s.get(i) {
			out = append(out, n)
		}
	}
	return out
}

// nameHash is galaxy's object-name digest (see the file comment for why it is mirrored).
func nameHash(name, ns string) string {
	h := sha256.Sum256([]byte(name + "_" + ns))
	return base32.StdEncoding.EncodeToString(h[:])[:16]
}

func policyChainName(p *Policy) string { return "GLX-PLCY-" + nameHash(p.Name, p.NS) }
func podChainName(p *Pod) string       { return "GLX-POD-" + nameHash(p.Name, p.NS) }
func selectedSetName(p *Policy) string { return "GLX-ip-" + nameHash(p.Name, p.NS) }
func peerSetName(p *Policy, egress bool, i int, net bool) string {
	kind := "sip"
	switch {
	case egress && net:
		kind = "dnet"
	case egress:
		kind = "dip"
	case net:
		kind = "snet"
	}
	return fmt.Sprintf("GLX-%s-%d-%s", kind, i, nameHash(p.Name, p.NS))
}

const (
	ingressDispatch = "GLX-INGRESS"
	egressDispatch  = "GLX-EGRESS"
)

// ExpSet is an expected ipset.
type ExpSet struct {
	Name    string
	Type    string
	Members []string // as `ipset list` prints them, sorted
}

// ExpRule is an expected ACCEPT rule of a policy chain: protocol ("" = all), source and destination set
// ("" = any address) and the sorted, comma-joined destination ports ("" = any port).
type ExpRule struct {
	Proto, Src, Dst, Ports string
}

func (r ExpRule) String() string {
	return fmt.Sprintf("proto=%s src=%s dst=%s dports=%s ACCEPT", r.Proto, r.Src, r.Dst, r.Ports)
}

func ruleKey(proto, srcSet, dstSet string, ports []string) ExpRule {
	ps := append([]string{}, ports...)
	sort.Strings(ps)
	return ExpRule{Proto: proto, Src: srcSet, Dst: dstSet, Ports: strings.Join(ps, ",")}
}

// ExpPod is an expected pod chain with its dispatch rules.
type ExpPod struct {
	Chain   string
	Comment string // "<pod>_<namespace>": the comment galaxy puts on the pod's rules (used when installing prior state)
	IP      string
	Jumps   []string // policy chains, sorted
	Ingress bool     // dispatched from GLX-INGRESS by -d IP
	Egress  bool     // dispatched from GLX-EGRESS by -s IP
}

// Expected is the expected galaxy-owned state.
type Expected struct {
	Sets       map[string]*ExpSet
	PolChain   map[string][]ExpRule // multiset (sorted)
	PolComment map[string]string    // policy chain -> "<policy>_<namespace>" (only used when installing prior state)
	Pods       map[string]*ExpPod   // by chain name
}

// podsMatching returns the pods with an IP that a peer (or a policy's own selector) denotes.
func selectedPods(cl *Cluster, p *Policy) []*Pod {
	var out []*Pod
	for _, pod := range cl.podList() {
		if pod.NS == p.NS && p.PodSel.Matches(pod.Labels) {
			out = append(out, pod)
		}
	}
	return out
}

// peerMatchesPod is the API semantics of a pod/namespace selector peer of a policy in namespace polNS.
func peerMatchesPod(cl *Cluster, pe *Peer, polNS string, pod *Pod, sw Switches) bool {
	if pe.Block != nil {
		return false
	}
	if sw.D6 && pe.PodSel != nil {
		return pe.PodSel.Matches(pod.Labels)
	}
	if pe.NsSel != nil {
		ns := cl.NS[pod.NS]
		if ns == nil || !pe.NsSel.Matches(ns.Labels) {
			return false
		}
	} else if pod.NS != polNS {
		return false
	}
	if pe.PodSel != nil && !pe.PodSel.Matches(pod.Labels) {
		return false
	}
	return true
}

func ipMembers(pods []*Pod) []string {
	seen := map[string]bool{}
	var out []string
	for _, p := range pods {
		if p.IP != "" && !seen[p.IP] {
			seen[p.IP] = true
			out = append(out, p.IP)
		}
	}
	sort.Strings(out)
	return out
}

// netMember prints a CIDR the way ipset lists it: masked, /32 omitted.
func netMember(cidr string) (string, bool) {
	ip, bits, ok := parsePrefix(cidr)
	if !ok {
		return "", false
	}
	if bits == 32 {
		return u32ToIP(ip), true
	}
	return fmt.Sprintf("%s/%d", u32ToIP(ip), bits), true
}

func portGroups(ports []Port) (tcp, udp []string) {
	seenT, seenU := map[int]bool{}, map[int]bool{}
	for _, p := range ports {
		if p.Proto == "UDP" {
			if !seenU[p.Port] {
				seenU[p.Port] = true
				udp = append(udp, fmt.Sprint(p.Port))
			}
		} else if !seenT[p.Port] {
			seenT[p.Port] = true
			tcp = append(tcp, fmt.Sprint(p.Port))
		}
	}
	return
}

// compile computes the expected state. The only switch that changes it is D6 (set membership of peers, and
// whether a peerless rule exists at all); the others concern how the compiled rules are traversed.
func compile(cl *Cluster, sw Switches) *Expected {
	e := &Expected{Sets: map[string]*ExpSet{}, PolChain: map[string][]ExpRule{}, PolComment: map[string]string{}, Pods: map[string]*ExpPod{}}
	for _, p := range cl.polList() {
		chain := policyChainName(p)
		sel := selectedSetName(p)
		e.Sets[sel] = &ExpSet{Name: sel, Type: "hash:ip", Members: ipMembers(selectedPods(cl, p))}
		var rules []ExpRule
		in, eg := p.directions()
		side := func(prules []PRule, egress bool) {
			for i, r := range prules {
				var peerSets []string
				var pods []*Pod
				hasPodPeer, hasNet := false, false
				var nets []string
				for k := range r.Peers {
					pe := &r.Peers[k]
					if pe.Block != nil {
						hasNet = true
						// a zero prefix cannot be stored in a hash:net set at all, so no member is expected for
						// it; what that means for traffic is C16's business (switch D13), not C15's
						if m, ok := netMember(pe.Block.CIDR); ok && !strings.HasSuffix(pe.Block.CIDR, "/0") {
							nets = append(nets, m)
						}
						for _, ex := range pe.Block.Except {
							if m, ok := netMember(ex); ok {
								nets = append(nets, m+" nomatch")
							}
						}
						continue
					}
					hasPodPeer = true
					for _, pod := range cl.podList() {
						if peerMatchesPod(cl, pe, p.NS, pod, sw) {
							pods = append(pods, pod)
						}
					}
				}
				if hasPodPeer {
					n := peerSetName(p, egress, i, false)
					e.Sets[n] = &ExpSet{Name: n, Type: "hash:ip", Members: ipMembers(pods)}
					peerSets = append(peerSets, n)
				}
				if hasNet {
					n := peerSetName(p, egress, i, true)
					sort.Strings(nets)
					e.Sets[n] = &ExpSet{Name: n, Type: "hash:net", Members: dedup(nets)}
					peerSets = append(peerSets, n)
				}
				if len(r.Peers) == 0 && !sw.D6 {
					peerSets = append(peerSets, "") // any address
				}
				tcp, udp := portGroups(r.Ports)
				for _, ps := range peerSets {
					src, dst := ps, sel
					if egress {
						src, dst = sel, ps
					}
					if len(tcp) > 0 {
						rules = append(rules, ruleKey("tcp", src, dst, tcp))
					}
					if len(udp) > 0 {
						rules = append(rules, ruleKey("udp", src, dst, udp))
					}
					if len(tcp) == 0 && len(udp) == 0 {
						rules = append(rules, ruleKey("", src, dst, nil))
					}
				}
			}
		}
		if in {
			side(p.Ingress, false)
		}
		if eg {
			side(p.Egress, true)
		}
		sortRules(rules)
		e.PolChain[chain] = rules
		e.PolComment[chain] = p.Name + "_" + p.NS
	}
	for _, pod := range cl.podList() {
		if !pod.local() || pod.IP == "" {
			continue
		}
		ep := &ExpPod{Chain: podChainName(pod), IP: pod.IP, Comment: pod.Name + "_" + pod.NS}
		for _, p := range cl.polList() {
			if p.NS != pod.NS || !p.PodSel.Matches(pod.Labels) {
				continue
			}
			in, eg := p.directions()
			ep.Jumps = append(ep.Jumps, policyChainName(p))
			ep.Ingress = ep.Ingress || in
			ep.Egress = ep.Egress || eg
		}
		if len(ep.Jumps) == 0 {
			continue
		}
		sort.Strings(ep.Jumps)
		e.Pods[ep.Chain] = ep
	}
	return e
}

func dedup(s []string) []string {
	var out []string
	for i, x := range s {
		if i == 0 || x != s[i-1] {
			out = append(out, x)
		}
	}
	return out
}

func sortRules(r []ExpRule) { sort.Slice(r, func(i, j int) bool { return r[i].String() < r[j].String() }) }

// install renders an Expected state as galaxy itself would have left it in the kernel (used to build prior
// state "as if an earlier galaxy had synchronised another cluster"): ipset commands and one
// iptables-restore batch. Rule texts, including the comments ("<name>_<namespace>"), are written exactly as
// galaxy writes them: iptables -C/-D compare the comment too, so a galaxy-made rule with another comment would
// not be recognised by galaxy as its own - prior state with foreign-looking comments would be an unfair input.
func (e *Expected) install() (ipsetCmds [][]string, restore string) {
	for _, n := range sortedKeys(e.Sets) {
		s := e.Sets[n]
		ipsetCmds = append(ipsetCmds, []string{"create", n, s.Type, "-exist"})
		for _, m := range s.Members {
			ipsetCmds = append(ipsetCmds, append([]string{"add", "-exist", n}, strings.Fields(m)...))
		}
	}
	var chains, rules strings.Builder
	chains.WriteString("*filter\n")
	for _, c := range sortedKeys(e.PolChain) {
		fmt.Fprintf(&chains, ":%s - [0:0]\n", c)
		for _, r := range e.PolChain[c] {
			fmt.Fprintf(&rules, "-A %s -m comment --comment %s", c, e.PolComment[c])
			if r.Proto != "" {
				fmt.Fprintf(&rules, " -p %s", r.Proto)
			}
			if r.Src != "" {
				fmt.Fprintf(&rules, " -m set --match-set %s src", r.Src)
			}
			if r.Dst != "" {
				fmt.Fprintf(&rules, " -m set --match-set %s dst", r.Dst)
			}
			if r.Ports != "" {
				fmt.Fprintf(&rules, " -m multiport --dports %s", r.Ports)
			}
			rules.WriteString(" -j ACCEPT\n")
		}
	}
	if len(e.Pods) > 0 {
		fmt.Fprintf(&chains, ":%s - [0:0]\n:%s - [0:0]\n", egressDispatch, ingressDispatch)
		// galaxy prepends: FORWARD ends up with GLX-EGRESS before GLX-INGRESS
		fmt.Fprintf(&rules, "-I FORWARD -j %s\n-I FORWARD -j %s\n-I OUTPUT -j %s\n-I INPUT -j %s\n", ingressDispatch, egressDispatch, ingressDispatch, egressDispatch)
	}
	for _, c := range sortedKeys(e.Pods) {
		p := e.Pods[c]
		fmt.Fprintf(&chains, ":%s - [0:0]\n", c)
		fmt.Fprintf(&rules, "-A %s -m comment --comment %s -m conntrack --ctstate RELATED,ESTABLISHED -j ACCEPT\n", c, p.Comment)
		for _, j := range p.Jumps {
			fmt.Fprintf(&rules, "-A %s -m comment --comment %s -j %s\n", c, p.Comment, j)
		}
		fmt.Fprintf(&rules, "-A %s -m comment --comment %s -j DROP\n", c, p.Comment)
		if p.Ingress {
			fmt.Fprintf(&rules, "-A %s -d %s -m comment --comment %s -j %s\n", ingressDispatch, p.IP, p.Comment, c)
		}
		if p.Egress {
			fmt.Fprintf(&rules, "-A %s -s %s -m comment --comment %s -j %s\n", egressDispatch, p.IP, p.Comment, c)
		}
	}
	return ipsetCmds, chains.String() + rules.String() + "COMMIT\n"
}
