// World W3: pkg/policy (PolicyManager) under deterministic simulation, for C15 and C16.
package main

import (
	"fmt"
	"os"
	"runtime/pprof"
	"strings"
	"sync/atomic"

	"tkestack.io/galaxy/verifsim/core"
	"tkestack.io/galaxy/verifsim/dropin/simlog"
	"tkestack.io/galaxy/verifsim/harness"
)

// galaxy's own log lines (warnings about refused batches etc.) go into the trace of a traced run. The sink is a
// process global read by every task, so it is installed once, before any task exists, and never written again (a
// write per run would race, in the detector's eyes, with the reads of the previous run's tasks); whether the
// current run is traced is an atomic flag stored by the scheduler goroutine only (tasks only load it, so it adds
// no ordering between tasks).
var traceNow atomic.Bool

func init() {
	simlog.Sink = func(line string) {
		if traceNow.Load() {
			core.CallNow(core.Req{Op: "sim.log", A: []string{line}})
		}
	}
}

func run(prop, tier string, c *core.Choices, trace bool) *harness.RunResult {
	s := core.NewSim(c)
	s.TraceOn = trace
	traceNow.Store(trace)
	s.MaxSteps = 60000
	w := newWorld(s, prop, tier)
	s.W = w
	s.OnPanic = w.onPanic
	s.OnLockLeak = func(t *core.Task, held int) {
		s.Stat("lockleak")
		if w.armed("C18") {
			w.fail("C18.lock-leak", "lock-leak", "task %s ended while holding %d lock(s)", t.Name, held)
			return
		}
		s.Infra = fmt.Sprintf("task %s ended holding %d simsync lock(s)", t.Name, held)
		s.Stop()
	}
	if trace {
		s.Logf("case: features=%+v", w.F)
		s.Logf("case: prior kernel state: %s", w.priorDesc)
		for _, l := range strings.Split(strings.TrimSpace(w.Kern.SaveAll()), "\n") {
			if !strings.HasPrefix(l, "#") {
				s.Logf("prior: %s", l)
			}
		}
		w.logCluster("before")
	}
	w.startProcess()
	s.Loop()
	if trace {
		w.logCluster("after")
		for _, l := range strings.Split(strings.TrimSpace(w.Kern.SaveAll()), "\n") {
			if !strings.HasPrefix(l, "#") {
				s.Logf("final: %s", l)
			}
		}
	}
	// the determinism hash also covers the final kernel state and the verdict
	verdictText := "pass"
	if s.Viol != nil {
		verdictText = s.Viol.Oracle + "/" + w.key + ": " + s.Viol.Message
	}
	if !trace {
		s.Note(strings.ReplaceAll("end state: "+w.Kern.SaveAll()+verdictText, "%", "%%"))
	}
	res := &harness.RunResult{Viol: s.Viol, Key: w.key, Infra: s.Infra, Stats: s.Stats, Steps: s.Steps, SimNanos: core.ClockNanos(), Hash: s.Hash(),
		Trace: s.Trace, States: w.states}
	if s.OutOfSteps && s.Viol == nil && res.Infra == "" {
		res.Infra = "step budget exhausted before quiescence"
	}
	if s.Hang {
		res.Hang = true
	}
	s.KillAll()
	res.Sig = w.priorDesc + "|" + strings.Join(s.SigParts, ",")
	// non-trivial: the final state has at least one policy AND galaxy owned something to get right (a pod chain
	// expected, or prior galaxy state to converge from) AND, for C16, at least one flow was judged with both
	// verdicts present
	final := compile(w.cl, Switches{})
	work := len(final.Pods) > 0 || !strings.Contains(w.priorDesc, "no-galaxy-state")
	res.Nontrivial = len(w.cl.Pols) > 0 && work
	if prop == "C16" {
		res.Nontrivial = w.flowsAllowed > 0 && w.flowsDenied > 0
	}
	if prop == "C18" {
		// at least one hostile operation reached galaxy and the follow-up synchronisation was attempted
		res.Nontrivial = s.Stats["c18.hostile-ops"] > 0 && (w.followUpDone || s.Viol != nil)
	}
	if prop == "C19" {
		// at least two galaxy tasks were runnable at the same decision
		res.Nontrivial = s.Contested > 0 && w.handlers+w.syncs > 1
	}
	res.Summary = fmt.Sprintf("prior=%s ns=%d pods=%d policies=%d podchains=%d ops=[%s] handlers=%d syncs=%d flows=%d(denied %d)", w.priorDesc,
		len(w.cl.NS), len(w.cl.Pods), len(w.cl.Pols), len(final.Pods), strings.Join(w.summary, ","), w.handlers, w.syncs, w.flowsJudged, w.flowsDenied)
	return res
}

// onPanic: a panic inside galaxy code kills the goroutine it happens in (an informer handler's panic takes the
// whole daemon down: client-go re-panics after logging). It is a verdict for C18 only; a panic without a galaxy
// frame is harness trouble.
func (w *World) onPanic(t *core.Task, msg string) {
	first := msg
	if i := strings.Index(first, "\n"); i > 0 {
		first = first[:i]
	}
	inGalaxy := strings.Contains(msg, "tkestack.io/galaxy/pkg/") || strings.Contains(msg, "tkestack.io/galaxy/cni/")
	if !inGalaxy || strings.Contains(first, "verifsim") {
		w.S.Infra = fmt.Sprintf("task %s panicked outside galaxy code: %s", t.Name, firstLines(msg, 14))
		w.S.Stop()
		return
	}
	site := panicSite(msg)
	w.S.Stat("panic." + site)
	w.S.Stat("panicline." + panicLine(msg))
	if w.hostile && !w.HF.OffDirection {
		w.S.Stat("probe.panic-without-off-direction-rules")
	}
	switch {
	case w.armed("C18"):
		w.fail("C18.panic", "panic@"+site, "task %s panicked: %s at %s (%s)", t.Name, first, site, panicLine(msg))
	case w.armed("C19"):
		// not this property's clause; the run goes on (the task is gone, as the goroutine would be)
	default:
		w.S.Infra = fmt.Sprintf("task %s panicked: %s", t.Name, firstLines(msg, 12))
		w.S.Stop()
	}
}

// panicLine returns file:line of the innermost galaxy frame.
func panicLine(msg string) string {
	lines := strings.Split(msg, "\n")
	for i, l := range lines {
		l = strings.TrimSpace(l)
		if (strings.HasPrefix(l, "tkestack.io/galaxy/pkg/") || strings.HasPrefix(l, "tkestack.io/galaxy/cni/")) && i+1 < len(lines) {
			f := strings.Fields(strings.TrimSpace(lines[i+1]))
			if len(f) > 0 {
				if j := strings.Index(f[0], "/pkg/"); j >= 0 {
					return f[0][j+1:]
				}
				return f[0]
			}
		}
	}
	return "?"
}

// panicSite extracts the innermost galaxy function of a panic stack.
func panicSite(msg string) string {
	for _, l := range strings.Split(msg, "\n") {
		l = strings.TrimSpace(l)
		if strings.HasPrefix(l, "tkestack.io/galaxy/pkg/") || strings.HasPrefix(l, "tkestack.io/galaxy/cni/") {
			if i := strings.LastIndex(l, "("); i > 0 {
				l = l[:i]
			}
			return strings.TrimPrefix(l, "tkestack.io/galaxy/")
		}
	}
	return "unknown"
}

func firstLines(s string, n int) string {
	l := strings.Split(s, "\n")
	if len(l) > n {
		l = l[:n]
	}
	return strings.Join(l, " | ")
}

func (w *World) logCluster(tag string) {
	for _, n := range sortedKeys(w.cl.NS) {
		w.S.Logf("%s: namespace %s labels=%v", tag, n, w.cl.NS[n].Labels)
	}
	for _, p := range w.cl.podList() {
		w.S.Logf("%s: pod %s labels=%v ip=%q node=%s chain=%s", tag, p.key(), p.Labels, p.IP, p.Node, podChainName(p))
	}
	for _, p := range w.cl.polList() {
		w.S.Logf("%s: policy %s hash=%s podSelector=%s types=%v ingress=%s egress=%s", tag, p.key(), nameHash(p.Name, p.NS), p.PodSel.String(), p.Types,
			rulesText(p.Ingress), rulesText(p.Egress))
	}
}

func rulesText(rs []PRule) string {
	var out []string
	for _, r := range rs {
		var peers []string
		for _, pe := range r.Peers {
			switch {
			case pe.Block != nil:
				peers = append(peers, fmt.Sprintf("ipBlock(%s except %v)", pe.Block.CIDR, pe.Block.Except))
			case pe.PodSel != nil && pe.NsSel != nil:
				peers = append(peers, "pods"+pe.PodSel.String()+"in-ns"+pe.NsSel.String())
			case pe.PodSel != nil:
				peers = append(peers, "pods"+pe.PodSel.String())
			default:
				peers = append(peers, "ns"+pe.NsSel.String())
			}
		}
		var ports []string
		for _, p := range r.Ports {
			pr := p.Proto
			if pr == "" {
				pr = "(TCP)"
			}
			ports = append(ports, fmt.Sprintf("%s/%d", pr, p.Port))
		}
		out = append(out, fmt.Sprintf("{peers=%v ports=%v}", peers, ports))
	}
	return "[" + strings.Join(out, " ") + "]"
}

func main() {
	if f := os.Getenv("VERIF_PPROF"); f != "" {
		fh, _ := os.Create(f)
		pprof.StartCPUProfile(fh)
		defer pprof.StopCPUProfile()
	}
	harness.Main("policy", run)
}
