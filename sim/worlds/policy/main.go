// World W3: pkg/policy (PolicyManager) under deterministic simulation, for C15 and C16.
package main

import (
	"fmt"
	"os"
	"runtime/pprof"
	"strings"

	"tkestack.io/galaxy/verifsim/core"
	"tkestack.io/galaxy/verifsim/dropin/simlog"
	"tkestack.io/galaxy/verifsim/harness"
)

func run(prop, tier string, c *core.Choices, trace bool) *harness.RunResult {
	s := core.NewSim(c)
	s.TraceOn = trace
	s.MaxSteps = 60000
	w := newWorld(s, prop, tier)
	s.W = w
	s.OnPanic = func(t *core.Task, msg string) {
		// a panic in galaxy code is C18's subject; here it ends the run as trouble so that it is never mistaken
		// for a pass (the generator avoids the one known panicking policy shape, see cluster.go policySpec)
		s.Infra = fmt.Sprintf("task %s panicked: %s", t.Name, firstLines(msg, 12))
		s.Stop()
	}
	simlog.Sink = nil
	if trace {
		// galaxy's own log lines (warnings about refused batches etc.) go into the trace
		simlog.Sink = func(line string) { core.CallNow(core.Req{Op: "sim.log", A: []string{line}}) }
		s.Logf("case: features=%+v", w.F)
		s.Logf("case: prior kernel state: %s", w.priorDesc)
		for _, l := range strings.Split(strings.TrimSpace(w.Kern.SaveAll()), "\n") {
			if !strings.HasPrefix(l, "#") {
				s.Logf("prior: %s", l)
			}
		}
		w.logCluster("before")
	}
	w.startProcess()
	s.Loop()
	if trace {
		w.logCluster("after")
		for _, l := range strings.Split(strings.TrimSpace(w.Kern.SaveAll()), "\n") {
			if !strings.HasPrefix(l, "#") {
				s.Logf("final: %s", l)
			}
		}
	}
	// the determinism hash also covers the final kernel state and the verdict
	verdictText := "pass"
	if s.Viol != nil {
		verdictText = s.Viol.Oracle + "/" + w.key + ": " + s.Viol.Message
	}
	if !trace {
		s.Note(strings.ReplaceAll("end state: "+w.Kern.SaveAll()+verdictText, "%", "%%"))
	}
	res := &harness.RunResult{Viol: s.Viol, Key: w.key, Infra: s.Infra, Stats: s.Stats, Steps: s.Steps, SimNanos: core.ClockNanos(), Hash: s.Hash(),
		Trace: s.Trace, States: w.states}
	if s.OutOfSteps && s.Viol == nil && res.Infra == "" {
		res.Infra = "step budget exhausted before quiescence"
	}
	if s.Hang {
		res.Hang = true
	}
	s.KillAll()
	res.Sig = w.priorDesc + "|" + strings.Join(s.SigParts, ",")
	// non-trivial: the final state has at least one policy AND galaxy owned something to get right (a pod chain
	// expected, or prior galaxy state to converge from) AND, for C16, at least one flow was judged with both
	// verdicts present
	final := compile(w.cl, Switches{})
	work := len(final.Pods) > 0 || !strings.Contains(w.priorDesc, "no-galaxy-state")
	res.Nontrivial = len(w.cl.Pols) > 0 && work
	if prop == "C16" {
		res.Nontrivial = w.flowsAllowed > 0 && w.flowsDenied > 0
	}
	res.Summary = fmt.Sprintf("prior=%s ns=%d pods=%d policies=%d podchains=%d ops=[%s] handlers=%d syncs=%d flows=%d(denied %d)", w.priorDesc,
		len(w.cl.NS), len(w.cl.Pods), len(w.cl.Pols), len(final.Pods), strings.Join(w.summary, ","), w.handlers, w.syncs, w.flowsJudged, w.flowsDenied)
	return res
}

func firstLines(s string, n int) string {
	l := strings.Split(s, "\n")
	if len(l) > n {
		l = l[:n]
	}
	return strings.Join(l, " | ")
}

func (w *World) logCluster(tag string) {
	for _, n := range sortedKeys(w.cl.NS) {
		w.S.Logf("%s: namespace %s labels=%v", tag, n, w.cl.NS[n].Labels)
	}
	for _, p := range w.cl.podList() {
		w.S.Logf("%s: pod %s labels=%v ip=%q node=%s chain=%s", tag, p.key(), p.Labels, p.IP, p.Node, podChainName(p))
	}
	for _, p := range w.cl.polList() {
		w.S.Logf("%s: policy %s hash=%s podSelector=%s types=%v ingress=%s egress=%s", tag, p.key(), nameHash(p.Name, p.NS), p.PodSel.String(), p.Types,
			rulesText(p.Ingress), rulesText(p.Egress))
	}
}

func rulesText(rs []PRule) string {
	var out []string
	for _, r := range rs {
		var peers []string
		for _, pe := range r.Peers {
			switch {
			case pe.Block != nil:
				peers = append(peers, fmt.Sprintf("ipBlock(%s except %v)", pe.Block.CIDR, pe.Block.Except))
			case pe.PodSel != nil && pe.NsSel != nil:
				peers = append(peers, "pods"+pe.PodSel.String()+"in-ns"+pe.NsSel.String())
			case pe.PodSel != nil:
				peers = append(peers, "pods"+pe.PodSel.String())
			default:
				peers = append(peers, "ns"+pe.NsSel.String())
			}
		}
		var ports []string
		for _, p := range r.Ports {
			pr := p.Proto
			if pr == "" {
				pr = "(TCP)"
			}
			ports = append(ports, fmt.Sprintf("%s/%d", pr, p.Port))
		}
		out = append(out, fmt.Sprintf("{peers=%v ports=%v}", peers, ports))
	}
	return "[" + strings.Join(out, " ") + "]"
}

func main() {
	if f := os.Getenv("VERIF_PPROF"); f != "" {
		fh, _ := os.Create(f)
		pprof.StartCPUProfile(fh)
		defer pprof.StopCPUProfile()
	}
	harness.Main("policy", run)
}
