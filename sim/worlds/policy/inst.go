package main

// Task-side code of world W3: construction of a PolicyManager over the simulated kernel and listers, and the
// bodies of the tasks the world spawns. Runs on task goroutines; talks to the world only through core.Call /
// core.CallNow (the kernel stubs and the listers do the same).

import (
	"encoding/json"

	corev1 "k8s.io/api/core/v1"
	networkingv1 "k8s.io/api/networking/v1"
	"k8s.io/client-go/tools/cache"
	"tkestack.io/galaxy/pkg/api/k8s/eventhandler"
	"tkestack.io/galaxy/pkg/policy"
	"tkestack.io/galaxy/verifsim/core"
	"tkestack.io/galaxy/verifsim/kubeclient"
	"tkestack.io/galaxy/verifsim/simkernel"
)

// Instance is the galaxy side of the world: one PolicyManager and the informer handler adapters galaxy
// registers for it (pkg/policy initInformers).
type Instance struct {
	pm   *policy.PolicyManager
	podH *eventhandler.PodEventHandler
	polH *eventhandler.NetworkPolicyEventHandler
}

// podInformerSynced=false models a daemon that starts while no NetworkPolicy exists: its pod informer is not
// started, and syncPods lists this node's pods through the API client until a policy shows up.
func startInstance(inst *Instance, node string, podInformerSynced bool) {
	inst.pm = policy.VerifNew(simkernel.NewIPSet(), simkernel.NewIPTables(), kubeclient.NewFieldSelectingClientset(),
		kubeclient.PodLister{}, kubeclient.NamespaceLister{}, kubeclient.NetworkPolicyLister{}, node, podInformerSynced)
	inst.podH = eventhandler.NewPodEventHandler(inst.pm)
	inst.polH = eventhandler.NewNetworkPolicyEventHandler(inst.pm)
	core.InitDone()
	core.CallNow(core.Req{Op: "w.ready"})
}

func decPod(b []byte) *corev1.Pod {
	if b == nil {
		return nil
	}
	p := &corev1.Pod{}
	if err := json.Unmarshal(b, p); err != nil {
		panic(err)
	}
	return p
}

func decPolicy(b []byte) *networkingv1.NetworkPolicy {
	if b == nil {
		return nil
	}
	p := &networkingv1.NetworkPolicy{}
	if err := json.Unmarshal(b, p); err != nil {
		panic(err)
	}
	return p
}

// eventTask runs the real handler for one informer event. tombstone: the delete was only noticed by a relist,
// the handler gets the last known object wrapped in cache.DeletedFinalStateUnknown, as client-go does.
func eventTask(inst *Instance, kind, typ string, oldJSON, newJSON []byte, tombstone bool) {
	switch kind {
	case "pods":
		switch typ {
		case "ADDED":
			inst.podH.OnAdd(decPod(newJSON))
		case "MODIFIED":
			inst.podH.OnUpdate(decPod(oldJSON), decPod(newJSON))
		case "DELETED":
			if tombstone {
				inst.podH.OnDelete(cache.DeletedFinalStateUnknown{Key: "tombstone", Obj: decPod(oldJSON)})
			} else {
				inst.podH.OnDelete(decPod(oldJSON))
			}
		}
	case "networkpolicies":
		switch typ {
		case "ADDED":
			inst.polH.OnAdd(decPolicy(newJSON))
		case "MODIFIED":
			inst.polH.OnUpdate(decPolicy(oldJSON), decPolicy(newJSON))
		case "DELETED":
			if tombstone {
				inst.polH.OnDelete(cache.DeletedFinalStateUnknown{Key: "tombstone", Obj: decPolicy(oldJSON)})
			} else {
				inst.polH.OnDelete(decPolicy(oldJSON))
			}
		}
	}
	core.CallNow(core.Req{Op: "w.done", A: []string{"event"}})
}

// syncTask is one full synchronisation (what galaxy runs every three minutes).
func syncTask(inst *Instance, tag string) {
	inst.pm.Run()
	core.CallNow(core.Req{Op: "w.done", A: []string{tag}})
}

// cniTask is what galaxy's CNI ADD path does once the pod's address is known (pkg/galaxy/server.go): the
// pod object carries the address the plugin just configured.
func cniTask(inst *Instance, podJSON []byte) {
	pod := decPod(podJSON)
	err := inst.pm.SyncPodChains(pod)
	inst.pm.SyncPodIPInIPSet(pod, true)
	msg := ""
	if err != nil {
		msg = err.Error()
	}
	core.CallNow(core.Req{Op: "w.done", A: []string{"cni", msg}})
}

// directTask calls the entry points that galaxy's CNI path and pod handlers reach with a pod object of the
// caller's choosing (C18): mode 0 = what CNI ADD does, 1 = removal of the pod's address from the sets,
// 2 = the pod delete handler for an object the informer cache may never have held.
func directTask(inst *Instance, podJSON []byte, mode int) {
	pod := decPod(podJSON)
	switch mode {
	case 0:
		_ = inst.pm.SyncPodChains(pod)
		inst.pm.SyncPodIPInIPSet(pod, true)
	case 1:
		inst.pm.SyncPodIPInIPSet(pod, false)
	default:
		inst.podH.OnDelete(pod)
	}
	core.CallNow(core.Req{Op: "w.done", A: []string{"direct"}})
}
