package main

// Workload of world W3: API changes (each produces the informer event galaxy reacts to), periodic full
// synchronisations and CNI-triggered pod synchronisations. 0 is always the simplest choice.

import (
	"encoding/json"
	"fmt"

	"tkestack.io/galaxy/verifsim/core"
)

func (w *World) note(op string) {
	w.summary = append(w.summary, op)
	w.S.Stat("op." + op)
	w.S.Sig("O:" + op)
}

func (w *World) pickPod(pred func(*Pod) bool) *Pod {
	var c []*Pod
	for _, p := range w.cl.podList() {
		if pred == nil || pred(p) {
			c = append(c, p)
		}
	}
	if len(c) == 0 {
		return nil
	}
	return c[w.C.Choose(len(c))]
}

func (w *World) pickPolicy() *Policy {
	l := w.cl.polList()
	if len(l) == 0 {
		return nil
	}
	return l[w.C.Choose(len(l))]
}

func (w *World) doOp() {
	w.opsLeft--
	g := w.G
	if w.hostile && w.C.Prob(2, 3) && w.doHostileOp() {
		return
	}
	// weights: pods and policies dominate; the list order puts the plainest operation first
	kinds := []string{"pod-labels", "pol-add", "pol-del", "pod-add", "pod-del", "pol-update", "pod-recreate", "sync", "ns-labels", "pod-ip"}
	if w.F.CNI || w.conc {
		kinds = append(kinds, "cni-add")
	}
	if w.F.IPChange {
		kinds = append(kinds, "pod-ip-change")
	}
	if len(w.cl.NS) < 3 && w.F.CrossNsPods {
		kinds = append(kinds, "ns-add")
	}
	for try := 0; try < 8; try++ {
		switch kind := kinds[w.C.Choose(len(kinds))]; kind {
		case "pod-labels":
			p := w.pickPod(nil)
			if p == nil {
				continue
			}
			p.Labels = g.labels(podLabelKV, 2)
			w.mustUpdate("pods", p.api())
			w.note(kind)
			return
		case "pod-add":
			if len(w.cl.Pods) >= 10 {
				continue
			}
			p := g.newPod(w.cl)
			w.cl.Pods[p.key()] = p
			w.createPod(p)
			w.note(kind)
			return
		case "pod-del":
			p := w.pickPod(nil)
			if p == nil {
				continue
			}
			delete(w.cl.Pods, p.key())
			w.mustDelete("pods", p.NS, p.Name)
			w.note(kind)
			return
		case "pod-recreate":
			// a same-named pod comes back (statefulset): new address, possibly other labels / node
			p := w.pickPod(nil)
			if p == nil {
				continue
			}
			delete(w.cl.Pods, p.key())
			w.mustDelete("pods", p.NS, p.Name)
			n := &Pod{NS: p.NS, Name: p.Name, Labels: copyLabels(p.Labels), Node: p.Node}
			if w.C.Prob(1, 3) {
				n.Labels = g.labels(podLabelKV, 2)
			}
			if w.C.Prob(1, 4) {
				if n.Node == thisNode {
					n.Node = otherNode
				} else {
					n.Node = thisNode
				}
			}
			n.IP = g.freshIP(n.Node, w.cl)
			w.cl.Pods[n.key()] = n
			w.createPod(n)
			w.note(kind)
			return
		case "pod-ip":
			p := w.pickPod(func(p *Pod) bool { return p.IP == "" })
			if p == nil {
				continue
			}
			p.IP = g.freshIP(p.Node, w.cl)
			w.mustUpdate("pods", p.api())
			w.note(kind)
			return
		case "pod-ip-change":
			// the pod sandbox was re-created: same pod object, new address
			p := w.pickPod(func(p *Pod) bool { return p.IP != "" })
			if p == nil {
				continue
			}
			p.IP = g.freshIP(p.Node, w.cl)
			w.mustUpdate("pods", p.api())
			w.note(kind)
			return
		case "cni-add":
			p := w.pickPod(func(p *Pod) bool {
				for _, c := range w.cniTasks {
					if c.pod.key() == p.key() {
						return false
					}
				}
				return p.IP == "" && p.local()
			})
			if w.conc && p == nil && len(w.cl.Pods) < 10 {
				// a fresh pod of this node whose sandbox is being set up
				p = &Pod{NS: g.nsOf(w.cl), Name: fmt.Sprintf("p%d", g.podSeq), Labels: g.labels(podLabelKV, 2), Node: thisNode}
				g.podSeq++
				w.cl.Pods[p.key()] = p
				w.mustCreate("pods", p.api())
			}
			if p == nil || (w.conc && len(w.cniTasks) >= maxConcurrentCNI) {
				continue
			}
			// galaxy learns the address from the plugin result before the API does
			withIP := *p
			withIP.IP = g.freshIP(p.Node, w.cl)
			b, _ := json.Marshal(withIP.api())
			inst := w.inst
			t := w.S.Spawn("cni:"+p.key(), w.proc, func() { cniTask(inst, b) })
			t.Tag = "cni"
			if w.armed("C16") {
				// the CNI path evaluates the pod with its new address
				w.sh.podPoint(w.view, &withIP, true)
				w.sinceJudge = append(w.sinceJudge, "cni-add:"+p.key())
			}
			if w.conc {
				w.cniTasks = append(w.cniTasks, &cniInFlight{task: t, pod: &withIP})
			} else {
				w.cniPending = &withIP
			}
			w.note(kind)
			return
		case "pol-add":
			if len(w.cl.Pols) >= 6 {
				continue
			}
			p := g.newPolicy(w.cl)
			w.cl.Pols[p.key()] = p
			w.mustCreate("networkpolicies", p.api())
			w.note(kind)
			return
		case "pol-update":
			old := w.pickPolicy()
			if old == nil {
				continue
			}
			p := &Policy{NS: old.NS, Name: old.Name}
			if f := g.flipRoles(old); f != nil && w.C.Prob(1, 3) {
				p = f
			} else {
				g.policySpec(w.cl, p)
			}
			w.cl.Pols[p.key()] = p
			w.mustUpdate("networkpolicies", p.api())
			w.note(kind)
			return
		case "pol-del":
			p := w.pickPolicy()
			if p == nil {
				continue
			}
			delete(w.cl.Pols, p.key())
			w.mustDelete("networkpolicies", p.NS, p.Name)
			w.note(kind)
			return
		case "ns-labels":
			ks := sortedKeys(w.cl.NS)
			n := w.cl.NS[ks[w.C.Choose(len(ks))]]
			n.Labels = g.labels(nsLabelKV, 2)
			w.mustUpdate("namespaces", n.api())
			w.note(kind)
			return
		case "ns-add":
			name := nsNames[len(w.cl.NS)]
			n := &NSObj{Name: name, Labels: g.labels(nsLabelKV, 2)}
			w.cl.NS[name] = n
			w.mustCreate("namespaces", n.api())
			w.note(kind)
			return
		case "sync":
			if w.conc && w.alive(w.syncTask) {
				continue // wait.Until runs one pass at a time
			}
			w.spawnSync(fmt.Sprintf("sync:periodic-%d", w.syncs))
			w.note(kind)
			return
		}
	}
	w.note("noop")
}

// createPod stores a new pod the way a living cluster does: the object appears without an address and the kubelet
// reports the address in a status update (two events), unless the run has pods reach the informer with their
// address already set (one ADDED event, as after a relist).
func (w *World) createPod(p *Pod) {
	if p.IP == "" || w.F.AddWithIP {
		w.mustCreate("pods", p.api())
		return
	}
	ip := p.IP
	p.IP = ""
	w.mustCreate("pods", p.api())
	p.IP = ip
	w.mustUpdate("pods", p.api())
}

// finishCNI is the kubelet's status update after a CNI ADD.
func (w *World) finishCNI() {
	p := w.cniPending
	w.cniPending = nil
	cur := w.cl.Pods[p.key()]
	if cur == nil || cur.IP != "" {
		return
	}
	cur.IP = p.IP
	w.mustUpdate("pods", cur.api())
	w.S.Stat("op.cni-status")
}

var _ = core.CodeOK
