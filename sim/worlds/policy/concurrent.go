package main

// C19 in world W3: the entry points of one shared PolicyManager run concurrently, the way the real daemon
// runs them: the pod informer and the NetworkPolicy informer each deliver their own events one at a time but
// independently of each other, wait.Until runs the periodic full synchronisation in its own goroutine (one
// pass at a time), and every CNI ADD request runs SyncPodChains + SyncPodIPInIPSet in its own goroutine
// (several requests at once). API changes happen while handlers run. The world adds no ordering of its own
// between these tasks: it owns no lock, the task-side stubs are stateless except for the mutex the real
// iptables runner has, and all data crosses as bytes. There is no oracle here besides the race detector
// (harness/race.go) and reaching quiescence.

import (
	"tkestack.io/galaxy/verifsim/core"
)

type cniInFlight struct {
	task *core.Task
	pod  *Pod
}

func (w *World) alive(t *core.Task) bool {
	if t == nil {
		return false
	}
	for _, x := range w.S.Tasks() {
		if x == t {
			return true
		}
	}
	return false
}

const maxConcurrentCNI = 3

func (w *World) concActions() []core.Action {
	if !w.ready || w.stage != 0 {
		return nil
	}
	var acts []core.Action
	if w.firstSync {
		// the first pass of the periodic loop starts together with the informers
		acts = append(acts, core.Action{Name: "initial-sync", Do: func() { w.firstSync = false; w.spawnSync("sync:initial") }})
	}
	// finished CNI requests: the kubelet reports the address
	for i, c := range w.cniTasks {
		if !w.alive(c.task) {
			i := i
			acts = append(acts, core.Action{Name: "cni-status", Do: func() {
				c := w.cniTasks[i]
				w.cniTasks = append(append([]*cniInFlight{}, w.cniTasks[:i]...), w.cniTasks[i+1:]...)
				w.cniPending = c.pod
				w.finishCNI()
			}})
			break
		}
	}
	if !w.alive(w.polTask) {
		if len(w.initialAdds) > 0 {
			acts = append(acts, core.Action{Name: "initial-add", Do: w.initialAdd})
		} else if w.K.Pending("networkpolicies") > 0 {
			acts = append(acts, core.Action{Name: "deliver:networkpolicies", Do: func() { w.deliver("networkpolicies") }})
		}
	}
	if !w.alive(w.podTask) && w.K.Pending("pods") > 0 {
		acts = append(acts, core.Action{Name: "deliver:pods", Do: func() { w.deliver("pods") }})
	}
	if w.K.Pending("namespaces") > 0 {
		acts = append(acts, core.Action{Name: "deliver:namespaces", Do: func() { w.deliver("namespaces") }})
	}
	if w.opsLeft > 0 {
		acts = append(acts, core.Action{Name: "op", Do: w.doOp})
	}
	return acts
}
