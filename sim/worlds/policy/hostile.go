package main

// C18 in world W3: hostile but structurally valid input at the typed surfaces of pkg/policy. "Valid" means
// what a kube-apiserver of the vendored API version (v0.24) would store: every NetworkPolicy shape below
// passes its validation, pods and namespaces carry what kubelets and controllers really write. The C15/C16
// generator (cluster.go) deliberately stays away from these shapes; here they are the point.
//
// Surfaces: the pod and NetworkPolicy event handlers (add / update / delete, deletes also as
// cache.DeletedFinalStateUnknown tombstones, updates also with identical objects), Run, and the two calls of
// the CNI path (SyncPodChains, SyncPodIPInIPSet add and delete). Handlers run one at a time (the subject is the
// input, not the schedule). Oracles (world.go/main.go): a panic with a galaxy frame (C18.panic), a task ending
// with a held lock (C18.lock-leak), tasks blocked forever or a follow-up ordinary full synchronisation that
// cannot complete (C18.wedged); a task that never parks is the harness watchdog's (hang).

import (
	"encoding/json"
	"fmt"
	"strings"

	corev1 "k8s.io/api/core/v1"
	networkingv1 "k8s.io/api/networking/v1"
	metav1 "k8s.io/apimachinery/pkg/apis/meta/v1"
	"k8s.io/apimachinery/pkg/util/intstr"
	"tkestack.io/galaxy/verifsim/core"
)

// HostileFeatures are the per-run swarm switches of the hostile generator (a run draws a subset, so that one
// known crash does not hide the other shapes).
type HostileFeatures struct {
	OffDirection bool // rules of a direction that spec.policyTypes switches off
	Ports        bool // named ports, ports without number / protocol, endPort, SCTP, long port lists
	Blocks       bool // odd ipBlocks: exception outside / equal to the block, 0.0.0.0/0, IPv6, host bits set
	Selectors    bool // nil vs empty selectors and peer lists, every operator, empty rule objects
	Huge         bool // long rule lists
	Names        bool // long dotted names, label values of every legal shape
	Pods         bool // pods without address, with IPv6 / several addresses, hostNetwork, finished, unscheduled, terminating
	Tombstones   bool // deletes delivered as DeletedFinalStateUnknown
	Resyncs      bool // update events with identical objects
	Direct       bool // direct SyncPodChains / SyncPodIPInIPSet calls with hostile pods
	KernelFaults int  // per-mille of iptables / iptables-save / iptables-restore / ipset invocations that fail (0 = none)
}

func (w *World) genHostileFeatures() HostileFeatures {
	c := w.C
	return HostileFeatures{OffDirection: c.Prob(1, 3), Ports: c.Prob(1, 2), Blocks: c.Prob(1, 2), Selectors: c.Prob(1, 2), Huge: c.Prob(1, 6),
		Names: c.Prob(1, 3), Pods: c.Prob(1, 2), Tombstones: c.Prob(1, 3), Resyncs: c.Prob(1, 3), Direct: c.Prob(1, 2),
		KernelFaults: []int{0, 0, 20, 100, 400}[c.Choose(5)]}
}

// kernelFault makes the simulated tools fail the way the real ones do under load or on a damaged host: the xtables
// lock cannot be taken, the kernel is out of memory, ipset's netlink call fails. Nothing is applied. Every
// error branch of pkg/policy behind ensureBasicChain / EnsureChain / EnsureRule / DeleteRule / ListRule / SaveInto /
// RestoreAll / ListSets / CreateSet / ListEntries / AddEntry / DelEntry / DestroySet is reached this way; C18 asks that
// none of them crashes or wedges the daemon. Off for the follow-up synchronisation at the end.
func (w *World) kernelFault(r *core.Req) *core.Resp {
	if !w.hostile || w.HF.KernelFaults == 0 || w.stage != 0 || len(r.A) == 0 || !w.C.Prob(w.HF.KernelFaults, 1000) {
		return nil
	}
	tool := r.A[0]
	w.S.Stat("fault." + map[string]string{"ipset": "ipset.err"}[tool] + map[string]string{"iptables": "ipt.err", "iptables-save": "ipt.err", "iptables-restore": "ipt.err"}[tool])
	w.S.Sig("F:" + tool)
	switch tool {
	case "ipset":
		return &core.Resp{Code: 1, B: []byte("ipset v6.29: Kernel error received: Cannot allocate memory\n")}
	case "iptables-restore":
		if w.C.Prob(1, 2) {
			return &core.Resp{Code: 4, B: []byte("Another app is currently holding the xtables lock. Perhaps you want to use the -w option?\n")}
		}
		return &core.Resp{Code: 1, B: []byte("iptables-restore: line 1 failed\n")}
	case "iptables-save":
		return &core.Resp{Code: 1, B: []byte("iptables-save v1.4.21: Cannot initialize: Permission denied\n")}
	}
	if w.C.Prob(1, 2) {
		return &core.Resp{Code: 4, B: []byte("iptables: Resource temporarily unavailable.\n")}
	}
	// exit status 1 is what EnsureChain takes for "chain exists" and checkRule for "rule absent"
	return &core.Resp{Code: 1, B: []byte("iptables: Memory allocation problem.\n")}
}

var hostileLabelValues = []string{"", "a", "A-b_c.d", "0", strings.Repeat("x", 63), "web", "true", "1.2.3"}

func (w *World) hostileLabels() map[string]string {
	c := w.C
	switch c.Choose(4) {
	case 0:
		return nil
	case 1:
		return map[string]string{}
	}
	out := map[string]string{}
	keys := []string{"app", "tier", "example.com/role", "a", strings.Repeat("k", 63), "kubernetes.io/metadata.name"}
	for i, n := 0, c.Range(1, 3); i < n; i++ {
		out[keys[c.Choose(len(keys))]] = hostileLabelValues[c.Choose(len(hostileLabelValues))]
	}
	return out
}

func (w *World) hostileSelector() *metav1.LabelSelector {
	c := w.C
	switch c.Choose(6) {
	case 0:
		return &metav1.LabelSelector{}
	case 1:
		return &metav1.LabelSelector{MatchLabels: map[string]string{}, MatchExpressions: []metav1.LabelSelectorRequirement{}}
	case 2:
		return &metav1.LabelSelector{MatchLabels: map[string]string{"app": hostileLabelValues[c.Choose(len(hostileLabelValues))]}}
	case 3:
		return &metav1.LabelSelector{MatchExpressions: []metav1.LabelSelectorRequirement{{Key: "app", Operator: metav1.LabelSelectorOpExists}}}
	case 4:
		return &metav1.LabelSelector{MatchExpressions: []metav1.LabelSelectorRequirement{{Key: "example.com/role", Operator: metav1.LabelSelectorOpDoesNotExist},
			{Key: "app", Operator: metav1.LabelSelectorOpNotIn, Values: []string{"web", "", "A-b_c.d"}}}}
	}
	return &metav1.LabelSelector{MatchLabels: map[string]string{"tier": "fe"}, MatchExpressions: []metav1.LabelSelectorRequirement{
		{Key: "app", Operator: metav1.LabelSelectorOpIn, Values: []string{"web", "db"}}}}
}

func (w *World) hostilePorts() []networkingv1.NetworkPolicyPort {
	c := w.C
	tcp, udp, sctp := corev1.ProtocolTCP, corev1.ProtocolUDP, corev1.ProtocolSCTP
	num := func(n int) *intstr.IntOrString { v := intstr.FromInt(n); return &v }
	name := func(s string) *intstr.IntOrString { v := intstr.FromString(s); return &v }
	var out []networkingv1.NetworkPolicyPort
	for i, n := 0, c.Range(1, 4); i < n; i++ {
		switch c.Choose(9) {
		case 0:
			out = append(out, networkingv1.NetworkPolicyPort{}) // neither protocol nor port: every TCP port
		case 1:
			out = append(out, networkingv1.NetworkPolicyPort{Protocol: &udp}) // every UDP port
		case 2:
			out = append(out, networkingv1.NetworkPolicyPort{Port: name([]string{"http", "web", "metrics-port", "x"}[c.Choose(4)])})
		case 3:
			out = append(out, networkingv1.NetworkPolicyPort{Protocol: &udp, Port: name("dns")})
		case 4:
			end := int32(8090)
			out = append(out, networkingv1.NetworkPolicyPort{Protocol: &tcp, Port: num(8080), EndPort: &end})
		case 5:
			out = append(out, networkingv1.NetworkPolicyPort{Protocol: &sctp, Port: num(9000)})
		case 6:
			out = append(out, networkingv1.NetworkPolicyPort{Protocol: &sctp})
		case 7:
			// more ports of one protocol than one multiport match holds
			for p := 0; p < 18; p++ {
				out = append(out, networkingv1.NetworkPolicyPort{Protocol: &tcp, Port: num(7000 + p)})
			}
		default:
			out = append(out, networkingv1.NetworkPolicyPort{Port: num([]int{1, 80, 65535}[c.Choose(3)])})
		}
	}
	return out
}

func (w *World) hostileBlock() *networkingv1.IPBlock {
	switch w.C.Choose(9) {
	case 0:
		return &networkingv1.IPBlock{CIDR: "0.0.0.0/0"}
	case 1:
		return &networkingv1.IPBlock{CIDR: "0.0.0.0/0", Except: []string{"10.0.0.0/8", "192.168.0.0/16"}}
	case 2:
		return &networkingv1.IPBlock{CIDR: "fd00::/8"}
	case 3:
		return &networkingv1.IPBlock{CIDR: "fd00::/8", Except: []string{"fd00:1::/32"}}
	case 4:
		return &networkingv1.IPBlock{CIDR: "::/0"}
	case 5:
		// host bits set (the API accepts it with a warning)
		return &networkingv1.IPBlock{CIDR: "10.244.1.77/16", Except: []string{"10.244.1.3/24"}}
	case 6:
		return &networkingv1.IPBlock{CIDR: "10.244.1.5/32"}
	case 7:
		return &networkingv1.IPBlock{CIDR: "10.244.0.0/16", Except: []string{"10.244.1.0/24", "10.244.1.0/24", "10.244.1.4/32", "10.244.128.0/17"}}
	}
	return &networkingv1.IPBlock{CIDR: "192.168.0.0/16", Except: []string{"192.168.5.0/24"}}
}

func (w *World) hostilePeers() []networkingv1.NetworkPolicyPeer {
	c := w.C
	if w.HF.Selectors {
		switch c.Choose(5) {
		case 0:
			return nil
		case 1:
			return []networkingv1.NetworkPolicyPeer{}
		}
	}
	var out []networkingv1.NetworkPolicyPeer
	for i, n := 0, c.Range(1, 3); i < n; i++ {
		k := c.Choose(4)
		switch {
		case k == 0 && w.HF.Blocks:
			out = append(out, networkingv1.NetworkPolicyPeer{IPBlock: w.hostileBlock()})
		case k == 1:
			out = append(out, networkingv1.NetworkPolicyPeer{NamespaceSelector: w.hostileSelector()})
		case k == 2:
			out = append(out, networkingv1.NetworkPolicyPeer{PodSelector: w.hostileSelector(), NamespaceSelector: w.hostileSelector()})
		default:
			out = append(out, networkingv1.NetworkPolicyPeer{PodSelector: w.hostileSelector()})
		}
	}
	return out
}

func (w *World) hostileIngress(n int) []networkingv1.NetworkPolicyIngressRule {
	var out []networkingv1.NetworkPolicyIngressRule
	for i := 0; i < n; i++ {
		r := networkingv1.NetworkPolicyIngressRule{From: w.hostilePeers()}
		if w.HF.Ports && w.C.Prob(1, 2) {
			r.Ports = w.hostilePorts()
		}
		out = append(out, r)
	}
	return out
}

func (w *World) hostileEgress(n int) []networkingv1.NetworkPolicyEgressRule {
	var out []networkingv1.NetworkPolicyEgressRule
	for i := 0; i < n; i++ {
		r := networkingv1.NetworkPolicyEgressRule{To: w.hostilePeers()}
		if w.HF.Ports && w.C.Prob(1, 2) {
			r.Ports = w.hostilePorts()
		}
		out = append(out, r)
	}
	return out
}

func (w *World) hostileName(prefix string, seq int) string {
	if w.HF.Names && w.C.Prob(1, 3) {
		// DNS-1123 subdomain: up to 253 characters, dots allowed
		return fmt.Sprintf("%s%d.%s.%s", prefix, seq, strings.Repeat("a", 63), strings.Repeat("b-1", 40))
	}
	return fmt.Sprintf("%s%d", prefix, seq)
}

// hostilePolicy builds a NetworkPolicy object; name "" = new object.
func (w *World) hostilePolicy(ns, name string) networkingv1.NetworkPolicy {
	c := w.C
	if name == "" {
		name = w.hostileName("hnp", w.hSeq)
		w.hSeq++
	}
	np := networkingv1.NetworkPolicy{TypeMeta: metav1.TypeMeta{Kind: "NetworkPolicy", APIVersion: "networking.k8s.io/v1"},
		ObjectMeta: metav1.ObjectMeta{Name: name, Namespace: ns, Labels: w.hostileLabels()}}
	np.Spec.PodSelector = *w.hostileSelector()
	nIn, nEg := c.Range(0, 2), c.Range(0, 2)
	if w.HF.Huge && c.Prob(1, 2) {
		nIn, nEg = c.Range(10, 30), c.Range(0, 12)
	}
	np.Spec.Ingress = w.hostileIngress(nIn)
	np.Spec.Egress = w.hostileEgress(nEg)
	switch c.Choose(5) {
	case 0: // defaulted
	case 1:
		np.Spec.PolicyTypes = []networkingv1.PolicyType{networkingv1.PolicyTypeIngress}
	case 2:
		np.Spec.PolicyTypes = []networkingv1.PolicyType{networkingv1.PolicyTypeEgress}
	case 3:
		np.Spec.PolicyTypes = []networkingv1.PolicyType{networkingv1.PolicyTypeIngress, networkingv1.PolicyTypeEgress}
	case 4:
		np.Spec.PolicyTypes = []networkingv1.PolicyType{networkingv1.PolicyTypeEgress, networkingv1.PolicyTypeIngress, networkingv1.PolicyTypeEgress}
	}
	if !w.HF.OffDirection {
		// keep only the rules of the directions in force
		in, eg := false, false
		for _, t := range np.Spec.PolicyTypes {
			in = in || t == networkingv1.PolicyTypeIngress
			eg = eg || t == networkingv1.PolicyTypeEgress
		}
		if len(np.Spec.PolicyTypes) > 0 {
			if !in {
				np.Spec.Ingress = nil
			}
			if !eg {
				np.Spec.Egress = nil
			}
		}
	}
	return np
}

// hostilePod builds a pod object; name "" = new object.
func (w *World) hostilePod(ns, name string) corev1.Pod {
	c := w.C
	if name == "" {
		name = w.hostileName("hp", w.hSeq)
		w.hSeq++
	}
	node := thisNode
	if c.Prob(1, 4) {
		node = otherNode
	}
	pod := corev1.Pod{TypeMeta: metav1.TypeMeta{Kind: "Pod", APIVersion: "v1"},
		ObjectMeta: metav1.ObjectMeta{Name: name, Namespace: ns, Labels: w.hostileLabels()},
		Spec:       corev1.PodSpec{NodeName: node, Containers: []corev1.Container{{Name: "c", Image: "img"}}},
		Status:     corev1.PodStatus{Phase: corev1.PodRunning}}
	ip := w.G.freshIP(node, w.cl)
	switch c.Choose(9) {
	case 0: // no address yet
		pod.Status.Phase = corev1.PodPending
	case 1: // IPv6 only
		pod.Status.PodIP = "fd00:10:244::" + fmt.Sprint(2+c.Choose(9))
		pod.Status.PodIPs = []corev1.PodIP{{IP: pod.Status.PodIP}}
	case 2: // dual stack
		pod.Status.PodIP = ip
		pod.Status.PodIPs = []corev1.PodIP{{IP: ip}, {IP: "fd00:10:244::77"}}
	case 3: // host network: the pod's address is the node's
		pod.Spec.HostNetwork = true
		pod.Status.PodIP = "192.168.1.10"
		pod.Status.HostIP = "192.168.1.10"
	case 4: // finished pod that still reports its address
		pod.Status.PodIP = ip
		pod.Status.Phase = []corev1.PodPhase{corev1.PodSucceeded, corev1.PodFailed}[c.Choose(2)]
	case 5: // not scheduled yet
		pod.Spec.NodeName = ""
		pod.Status.Phase = corev1.PodPending
	case 6: // terminating
		now := metav1.Unix(1767225600, 0)
		pod.DeletionTimestamp = &now
		pod.Status.PodIP = ip
	case 7: // an address shared with another pod (a second hostNetwork pod, or a re-used address not yet cleaned)
		pod.Status.PodIP = ip
		for _, p := range w.cl.podList() {
			if p.IP != "" {
				pod.Status.PodIP = p.IP
				break
			}
		}
	default:
		pod.Status.PodIP = ip
	}
	return pod
}

// logObj puts a hostile object into the trace (spec and status only).
func (w *World) logObj(what string, obj interface{}) {
	if !w.S.TraceOn {
		return
	}
	var m map[string]interface{}
	_ = json.Unmarshal(mustJSONBytes(obj), &m)
	meta, _ := m["metadata"].(map[string]interface{})
	name := fmt.Sprint(meta["namespace"], "/", meta["name"])
	if len(name) > 60 {
		name = name[:60] + "..."
	}
	delete(m, "metadata")
	delete(m, "kind")
	delete(m, "apiVersion")
	w.S.Logf("hostile %s %s labels=%v %s", what, name, meta["labels"], mustJSONBytes(m))
}

func (w *World) hostileNamespaceFor() string {
	ks := sortedKeys(w.cl.NS)
	return ks[w.C.Choose(len(ks))]
}

func mustJSONBytes(v interface{}) []byte {
	b, err := json.Marshal(v)
	if err != nil {
		panic(err)
	}
	return b
}

// doHostileOp performs one hostile operation; false = nothing applicable was drawn.
func (w *World) doHostileOp() bool {
	if w.doHostileOp1() {
		w.S.Stat("c18.hostile-ops")
		return true
	}
	return false
}

func (w *World) doHostileOp1() bool {
	c := w.C
	kinds := []string{"h-pol-add", "h-pol-update", "h-pol-del", "h-ns"}
	if w.HF.Pods {
		kinds = append(kinds, "h-pod-add", "h-pod-update", "h-pod-del")
	}
	if w.HF.Resyncs {
		kinds = append(kinds, "h-resync")
	}
	if w.HF.Direct {
		kinds = append(kinds, "h-direct")
	}
	for try := 0; try < 6; try++ {
		switch kind := kinds[c.Choose(len(kinds))]; kind {
		case "h-pol-add":
			if len(w.hPols) >= 4 {
				continue
			}
			np := w.hostilePolicy(w.hostileNamespaceFor(), "")
			w.logObj(kind, np)
			w.mustCreate("networkpolicies", np)
			w.hPols = append(w.hPols, np.Namespace+"/"+np.Name)
			w.note(kind)
			return true
		case "h-pol-update":
			// any policy, also the ordinary ones, may be replaced by a hostile spec
			objs := w.K.List("networkpolicies", "")
			if len(objs) == 0 {
				continue
			}
			o := objs[c.Choose(len(objs))]
			np := w.hostilePolicy(o.NS, o.Name)
			w.logObj(kind, np)
			w.mustUpdate("networkpolicies", np)
			delete(w.cl.Pols, o.NS+"/"+o.Name) // no longer describable by the ordinary model
			w.note(kind)
			return true
		case "h-pol-del":
			objs := w.K.List("networkpolicies", "")
			if len(objs) == 0 {
				continue
			}
			o := objs[c.Choose(len(objs))]
			w.mustDelete("networkpolicies", o.NS, o.Name)
			delete(w.cl.Pols, o.NS+"/"+o.Name)
			w.tombstoneMaybe("networkpolicies")
			w.note(kind)
			return true
		case "h-pod-add":
			if len(w.K.List("pods", "")) >= 12 {
				continue
			}
			hp := w.hostilePod(w.hostileNamespaceFor(), "")
			w.logObj(kind, hp)
			w.mustCreate("pods", hp)
			w.note(kind)
			return true
		case "h-pod-update":
			objs := w.K.List("pods", "")
			if len(objs) == 0 {
				continue
			}
			o := objs[c.Choose(len(objs))]
			hp := w.hostilePod(o.NS, o.Name)
			w.logObj(kind, hp)
			w.mustUpdate("pods", hp)
			delete(w.cl.Pods, o.NS+"/"+o.Name)
			w.note(kind)
			return true
		case "h-pod-del":
			objs := w.K.List("pods", "")
			if len(objs) == 0 {
				continue
			}
			o := objs[c.Choose(len(objs))]
			w.mustDelete("pods", o.NS, o.Name)
			delete(w.cl.Pods, o.NS+"/"+o.Name)
			w.tombstoneMaybe("pods")
			w.note(kind)
			return true
		case "h-ns":
			// a namespace without labels, or one whose labels vanish
			ks := sortedKeys(w.cl.NS)
			if len(ks) < 3 && c.Prob(1, 2) {
				name := nsNames[len(ks)]
				w.cl.NS[name] = &NSObj{Name: name}
				w.mustCreate("namespaces", corev1.Namespace{TypeMeta: metav1.TypeMeta{Kind: "Namespace", APIVersion: "v1"}, ObjectMeta: metav1.ObjectMeta{Name: name}})
			} else {
				n := w.cl.NS[ks[c.Choose(len(ks))]]
				n.Labels = w.hostileLabels()
				w.mustUpdate("namespaces", corev1.Namespace{TypeMeta: metav1.TypeMeta{Kind: "Namespace", APIVersion: "v1"}, ObjectMeta: metav1.ObjectMeta{Name: n.Name, Labels: n.Labels}})
			}
			w.note(kind)
			return true
		case "h-resync":
			// the informer's resync: an update event whose old and new objects are the same
			kindName := []string{"pods", "networkpolicies"}[c.Choose(2)]
			objs := w.K.ViewList(kindName, "")
			if len(objs) == 0 {
				continue
			}
			o := objs[c.Choose(len(objs))]
			inst := w.inst
			js := o.JSON
			w.handlers++
			t := w.S.Spawn(fmt.Sprintf("%s:RESYNC:%s", kindName[:3], o.Key()), w.proc, func() { eventTask(inst, kindName, "MODIFIED", js, js, false) })
			t.Tag = kindName[:3]
			w.note(kind)
			return true
		case "h-direct":
			// the CNI path (and a kubelet retrying it): galaxy is handed a pod object and calls the two entry
			// points itself; the object may be any pod the API server can return
			var pod corev1.Pod
			if objs := w.K.List("pods", ""); len(objs) > 0 && c.Prob(1, 2) {
				_ = json.Unmarshal(objs[c.Choose(len(objs))].JSON, &pod)
				if pod.Status.PodIP == "" && c.Prob(1, 2) {
					pod.Status.PodIP = w.G.freshIP(thisNode, w.cl)
				}
			} else {
				pod = w.hostilePod(w.hostileNamespaceFor(), "")
			}
			mode := c.Choose(3)
			inst := w.inst
			b := mustJSONBytes(pod)
			w.logObj(fmt.Sprintf("%s mode=%d", kind, mode), pod)
			t := w.S.Spawn("direct:"+pod.Namespace+"/"+pod.Name, w.proc, func() { directTask(inst, b, mode) })
			t.Tag = "cni"
			w.note(kind)
			return true
		}
	}
	return false
}

// tombstoneMaybe turns the pending events of a kind into what a reflector emits after a dropped watch: the
// delete just applied arrives as cache.DeletedFinalStateUnknown.
func (w *World) tombstoneMaybe(kind string) {
	if w.HF.Tombstones && w.C.Prob(1, 2) {
		w.K.RelistQueue(kind)
		w.S.Stat("op.h-relist")
	}
}
