// World C13: the IPs a plugin configures are exactly the IPs IPAM allocated. One run composes the three real
// codecs end to end on a generated pool configuration:
//
//	(a) the real galaxy-ipam bind path (floatingip crdIpam + schedulerplugin Filter/Bind over the simulated API
//	    server) allocates 1-4 IPs for a pod and writes the k8s.v1.cni.galaxy.io/args annotation,
//	(b) the real galaxy daemon (world W2: request handler, resolveNetworks/parseExtendedCNIArgs, cniutil argument
//	    building) passes it to the fake plugin, which decodes CNI_ARGS with the plugins' own cni/ipam.Allocate,
//	(c) oracle: the decoded (address, prefix length, gateway, VLAN) list equals, in order, the FloatingIP objects
//	    stored for the pod and the generated pool configuration (model side: the generated configuration only).
//
// There is no schedule or fault dimension here (one task at a time, no faults): the value is the composition of
// the real encoder, the real argument passing and the real decoder over generated masks, gateways and VLAN ids.
package main

import (
	"encoding/json"
	"fmt"
	"net"
	"sort"
	"strings"

	corev1 "k8s.io/api/core/v1"
	"k8s.io/apimachinery/pkg/api/resource"
	metav1 "k8s.io/apimachinery/pkg/apis/meta/v1"
	"k8s.io/apimachinery/pkg/types"
	"tkestack.io/galaxy/pkg/api/k8s/schedulerapi"
	ipamcontext "tkestack.io/galaxy/pkg/ipam/context"
	"tkestack.io/galaxy/pkg/ipam/schedulerplugin"
	"tkestack.io/galaxy/verifsim/core"
	"tkestack.io/galaxy/verifsim/harness"
	"tkestack.io/galaxy/verifsim/kubeclient"
	"tkestack.io/galaxy/verifsim/simkube"
	"tkestack.io/galaxy/verifsim/worlds/daemon/w2"
)

const (
	annArgs = "k8s.v1.cni.galaxy.io/args"
	resName = "tke.cloud.tencent.com/eni-ip"
)

// pool is one generated floatingip pool; everything the oracle knows about masks, gateways and VLANs is here.
type pool struct {
	NodeSubnets []string `json:"nodeSubnets"`
	IPs         []string `json:"ips"`
	Subnet      string   `json:"subnet"`
	Gateway     string   `json:"gateway"`
	Vlan        int      `json:"vlan,omitempty"`
	plen        int
	all         []uint32
	network     uint32
	gwOff       uint32
	nextOff     uint32 // first host offset after this pool's ranges (a later pool may share the subnet)
}

func u32(ip uint32) string {
	return fmt.Sprintf("%d.%d.%d.%d", byte(ip>>24), byte(ip>>16), byte(ip>>8), byte(ip))
}

// genPools draws 1-4 pools with masks /16../30, gateways and VLAN ids 0..4094; all routable from one node subnet.
func genPools(c *core.Choices) []*pool {
	var out []*pool
	n := 1 + c.Choose(4)
	for i := 0; i < n; i++ {
		p := &pool{NodeSubnets: []string{"10.1.0.0/24"}}
		var size, network, gwOff, off uint32
		if prev := lastPool(out); prev != nil && c.Prob(1, 4) {
			// a pool that shares the previous pool's pod subnet and gateway (disjoint ranges) but is its own pool: own
			// VLAN, own ranges
			p.plen, network, gwOff, off = prev.plen, prev.network, prev.gwOff, prev.nextOff
			size = uint32(1) << uint(32-p.plen)
		} else {
			p.plen = 16 + c.Choose(15)
			size = uint32(1) << uint(32-p.plen)
			base := uint32(10)<<24 | uint32(100+i)<<16 | uint32(c.Choose(256))<<8 | uint32(c.Choose(256))
			network = base &^ (size - 1)
			// the gateway is any host of the subnet; the pool's ranges avoid it
			gwOff = uint32(1)
			if size > 4 && c.Prob(1, 2) {
				gwOff = size - 2
			}
			off = uint32(1)
			if gwOff == 1 {
				off = 2
			}
			if size > 64 {
				off += uint32(c.Choose(int(size/2) - 8))
			}
		}
		p.network, p.gwOff = network, gwOff
		p.Subnet = fmt.Sprintf("%s/%d", u32(network), p.plen)
		p.Gateway = u32(network + gwOff)
		p.Vlan = []int{0, 0, 1, 2, 100, 4094, c.Choose(4095)}[c.Choose(7)]
		// 1-2 ranges of 1-3 addresses with a gap between them
		nr := 1 + c.Choose(2)
		for j := 0; j < nr; j++ {
			ln := uint32(1 + c.Choose(3))
			if off+ln-1 > size-2 || (gwOff != 1 && off+ln-1 >= gwOff) {
				break
			}
			if ln == 1 {
				p.IPs = append(p.IPs, u32(network+off))
			} else {
				p.IPs = append(p.IPs, u32(network+off)+"~"+u32(network+off+ln-1))
			}
			for k := uint32(0); k < ln; k++ {
				p.all = append(p.all, network+off+k)
			}
			off += ln + 1
		}
		p.nextOff = off
		if len(p.all) == 0 {
			continue
		}
		out = append(out, p)
	}
	return out
}

func lastPool(l []*pool) *pool {
	if len(l) == 0 {
		return nil
	}
	return l[len(l)-1]
}

type instance struct {
	plugin *schedulerplugin.FloatingIPPlugin
	stop   chan struct{}
}

// startInstance builds a galaxy-ipam instance from the simulated clients (as sim/worlds/ipam does).
func startInstance(inst *instance) {
	ctx := &ipamcontext.IPAMContext{
		Client:            kubeclient.NewClientset(),
		GalaxyClient:      kubeclient.NewGalaxyClientset(),
		PodLister:         kubeclient.PodLister{},
		NodeLister:        kubeclient.NodeLister{},
		StatefulSetLister: kubeclient.StatefulSetLister{},
		DeploymentLister:  kubeclient.DeploymentLister{},
		PoolLister:        kubeclient.PoolLister{},
		ExtensionLister:   kubeclient.CRDLister{},
	}
	plugin, err := schedulerplugin.NewFloatingIPPlugin(schedulerplugin.Conf{ResyncInterval: 1}, ctx)
	if err != nil {
		panic(err)
	}
	plugin.VerifSetCrdCache(kubeclient.CrdCache{})
	inst.plugin = plugin
	inst.stop = make(chan struct{})
	if err := plugin.Init(); err != nil {
		core.CallNow(core.Req{Op: "w.initfailed", A: []string{err.Error()}})
		return
	}
	plugin.Run(inst.stop)
	core.InitDone()
	core.CallNow(core.Req{Op: "w.ready"})
}

// schedTask is one scheduling attempt: Filter, then Bind on the first approved node.
func schedTask(inst *instance, podJSON, nodesJSON []byte) {
	var pod corev1.Pod
	var nodes []corev1.Node
	if err := json.Unmarshal(podJSON, &pod); err != nil {
		panic(err)
	}
	if err := json.Unmarshal(nodesJSON, &nodes); err != nil {
		panic(err)
	}
	filtered, _, err := inst.plugin.Filter(&pod, nodes)
	if err != nil || len(filtered) == 0 {
		core.CallNow(core.Req{Op: "w.unschedulable", A: []string{fmt.Sprint(err)}})
		return
	}
	err = inst.plugin.Bind(&schedulerapi.ExtenderBindingArgs{PodName: pod.Name, PodNamespace: pod.Namespace, PodUID: pod.UID, Node: filtered[0].Name})
	msg := ""
	if err != nil {
		msg = err.Error()
	}
	core.CallNow(core.Req{Op: "w.bound", A: []string{msg}})
}

// world is the minimal environment of phase (a): API server, listers, nothing else.
type world struct {
	S                  *core.Sim
	K                  *simkube.Kube
	inst               *instance
	proc               int
	ready              bool
	started            bool
	done               bool
	result             string // "", "bound", "unschedulable: ...", "bind error: ..."
	podJSON, nodesJSON []byte
	// second-attempt histories: the pods/binding call of the first attempt fails after the IPs were allocated and
	// persisted; before the scheduler retries, galaxy-ipam may be restarted (tables rebuilt from the stored objects) on
	// a configuration that lists the same pools in another order
	failFirstBind bool
	restart       bool
	reorderConf   []byte // configmap JSON to install before the restart (nil = unchanged)
	bindFailed    bool
	restarted     bool
	attempts      int
}

func (w *world) Handle(t *core.Task, r *core.Req) core.Resp {
	switch {
	case r.Op == "api.bind" && w.failFirstBind && w.attempts == 1:
		// every pods/binding call of the first attempt fails (Bind retries the call for a while before it gives up)
		w.bindFailed = true
		w.S.Logf("fault: pods/binding call of the first attempt fails")
		return core.Resp{Code: simkube.CodeInternal, Msg: "simulated internal error"}
	case simkube.IsAPI(r.Op), strings.HasPrefix(r.Op, "view."):
		return w.K.Handle(t, r)
	case r.Op == "w.ready":
		w.ready = true
	case r.Op == "w.initfailed":
		w.S.Infra = "galaxy-ipam failed to initialise: " + r.A[0]
		w.done = true
	case r.Op == "w.unschedulable":
		w.result, w.done = "unschedulable: "+r.A[0], true
	case r.Op == "w.bound":
		w.result, w.done = "bound", true
		if r.A[0] != "" {
			w.result = "bind error: " + r.A[0]
			if w.bindFailed && w.attempts == 1 {
				// the scheduler will retry; meanwhile galaxy-ipam may restart
				w.done, w.started = false, false
				if w.restart {
					w.ready = false
				}
			}
		}
	default:
		return core.Resp{Code: 400, Msg: "unknown op " + r.Op}
	}
	return core.Resp{}
}

func (w *world) Actions() []core.Action {
	if !w.ready && w.attempts == 1 && w.restart && !w.done {
		return []core.Action{{Name: "restart", Do: func() {
			w.restart = false
			n := w.S.Kill(w.proc)
			w.restarted = true
			w.S.Logf("restart: killed %d tasks of galaxy-ipam", n)
			if w.reorderConf != nil {
				if _, code, msg := w.K.Update(nil, "configmaps", w.reorderConf); code != 0 {
					w.S.Infra = "configmap update: " + msg
				}
			}
			w.K.ResetViews()
			w.proc = w.S.NewProc()
			w.inst = &instance{}
			inst := w.inst
			it := w.S.Spawn("init2", w.proc, func() { startInstance(inst) })
			it.Tag = "init"
		}}}
	}
	if w.ready && !w.started {
		return []core.Action{{Name: "schedule", Do: func() {
			w.started = true
			w.attempts++
			inst, pj, nj := w.inst, w.podJSON, w.nodesJSON
			t := w.S.Spawn("sched", w.proc, func() { schedTask(inst, pj, nj) })
			t.Tag = "sched"
		}}}
	}
	return nil
}

func (w *world) Idle() bool {
	if w.done || w.S.Infra != "" {
		return false
	}
	if ts, ok := w.S.NextTimer(false); ok {
		w.S.AdvanceTo(ts)
		return true
	}
	if (!w.ready && !w.restart) || w.started {
		w.S.Infra = "phase (a) cannot make progress"
	}
	return false
}

func (w *world) AfterStep() {
	if w.done {
		w.S.Stop()
	}
}

func mustCreate(k *simkube.Kube, kind string, obj interface{}) *simkube.Obj {
	b, err := json.Marshal(obj)
	if err != nil {
		panic(err)
	}
	o, code, msg := k.Create(nil, kind, b)
	if code != 0 {
		panic(fmt.Sprintf("create %s: %d %s", kind, code, msg))
	}
	return o
}

type fipJSON struct {
	Metadata struct {
		Name string `json:"name"`
	} `json:"metadata"`
	Spec struct {
		Key string `json:"key"`
	} `json:"spec"`
}

func run(prop, tier string, c *core.Choices, trace bool) *harness.RunResult {
	res := &harness.RunResult{Stats: map[string]int{}}
	pools := genPools(c)
	if len(pools) == 0 {
		res.Summary = "no usable pool drawn"
		return res
	}
	// the pod: 1-4 requested range lists (one IP per list, pairwise disjoint), or no request at all (one IP)
	var lists [][]string
	var listIPs [][]uint32
	if c.Prob(5, 6) {
		used := map[uint32]bool{}
		for i, k := 0, 1+c.Choose(4); i < k; i++ {
			p := pools[c.Choose(len(pools))]
			var l []string
			var li []uint32
			for j, m := 0, 1+c.Choose(2); j < m; j++ {
				ip := p.all[c.Choose(len(p.all))]
				if !used[ip] {
					used[ip] = true
					l = append(l, u32(ip))
					li = append(li, ip)
				}
			}
			if len(l) > 0 {
				lists = append(lists, l)
				listIPs = append(listIPs, li)
			}
		}
	}
	ann := map[string]string{}
	args := map[string]interface{}{}
	if len(lists) > 0 {
		args["request_ip_range"] = lists
	}
	staleCommon := c.Prob(1, 6)
	if staleCommon {
		// the pod was created from the exported manifest of another pod: its args annotation already carries that pod's
		// "common" section; what the plugin gets must still be exactly what was allocated for THIS pod
		args["common"] = map[string]interface{}{"ipinfos": []map[string]interface{}{{"ip": "10.99.0.9/24", "vlan": 7, "gateway": "10.99.0.1"}}}
	}
	if len(args) > 0 {
		b, _ := json.Marshal(args)
		ann[annArgs] = string(b)
	}
	kind := c.Choose(2) // 0 bare pod, 1 statefulset pod
	ns, name := "default", "c13-0"
	if kind == 1 {
		name = "db-0"
	}
	// phase (a)
	s := core.NewSim(c)
	s.TraceOn = trace
	s.MaxSteps = 20000
	w := &world{S: s, K: simkube.New(s)}
	s.W = w
	node := corev1.Node{TypeMeta: metav1.TypeMeta{Kind: "Node", APIVersion: "v1"}, ObjectMeta: metav1.ObjectMeta{Name: "node1"},
		Status: corev1.NodeStatus{Addresses: []corev1.NodeAddress{{Type: corev1.NodeInternalIP, Address: "10.1.0.10"}}}}
	mustCreate(w.K, "nodes", node)
	cfgJSON, _ := json.Marshal(pools)
	mustCreate(w.K, "configmaps", corev1.ConfigMap{TypeMeta: metav1.TypeMeta{Kind: "ConfigMap", APIVersion: "v1"},
		ObjectMeta: metav1.ObjectMeta{Name: "floatingip-config", Namespace: "kube-system"}, Data: map[string]string{"floatingips": string(cfgJSON)}})
	q := resource.NewQuantity(1, resource.DecimalSI)
	pod := corev1.Pod{TypeMeta: metav1.TypeMeta{Kind: "Pod", APIVersion: "v1"},
		ObjectMeta: metav1.ObjectMeta{Name: name, Namespace: ns, Annotations: ann},
		Spec:       corev1.PodSpec{Containers: []corev1.Container{{Name: "c", Resources: corev1.ResourceRequirements{Requests: corev1.ResourceList{corev1.ResourceName(resName): *q}}}}},
		Status:     corev1.PodStatus{Phase: corev1.PodPending}}
	if kind == 1 {
		pod.OwnerReferences = []metav1.OwnerReference{{Kind: "StatefulSet", Name: "db", APIVersion: "apps/v1", UID: types.UID("app-db")}}
		one := int32(1)
		mustCreate(w.K, "statefulsets", map[string]interface{}{"apiVersion": "apps/v1", "kind": "StatefulSet",
			"metadata": map[string]interface{}{"name": "db", "namespace": ns}, "spec": map[string]interface{}{"replicas": one}})
	}
	po := mustCreate(w.K, "pods", pod)
	w.podJSON = po.JSON
	nb, _ := json.Marshal([]corev1.Node{node})
	w.nodesJSON = nb
	w.K.Watch("pods", "deployments", "statefulsets", "pools", "crds", "floatingips")
	if trace {
		s.Logf("pools: %s", cfgJSON)
		s.Logf("pod %s/%s request_ip_range=%v", ns, name, lists)
	}
	if c.Prob(1, 2) {
		w.failFirstBind = true
		w.restart = c.Prob(2, 3)
		if w.restart && len(pools) > 1 && c.Prob(1, 2) {
			rev := make([]*pool, len(pools))
			for i := range pools {
				rev[len(pools)-1-i] = pools[i]
			}
			rj, _ := json.Marshal(rev)
			cmj, _ := json.Marshal(corev1.ConfigMap{TypeMeta: metav1.TypeMeta{Kind: "ConfigMap", APIVersion: "v1"},
				ObjectMeta: metav1.ObjectMeta{Name: "floatingip-config", Namespace: "kube-system"}, Data: map[string]string{"floatingips": string(rj)}})
			w.reorderConf = cmj
		}
	}
	w.proc = s.NewProc()
	w.inst = &instance{}
	inst := w.inst
	it := s.Spawn("init", w.proc, func() { startInstance(inst) })
	it.Tag = "init"
	s.Loop()
	res.Steps, res.Hash, res.Infra = s.Steps, s.Hash(), s.Infra
	if s.OutOfSteps && res.Infra == "" {
		res.Infra = "step budget exhausted in phase (a)"
	}
	s.KillAll()
	res.Trace = s.Trace
	res.Summary = fmt.Sprintf("pools=%d lists=%d kind=%d -> %s", len(pools), len(lists), kind, w.result)
	if res.Infra != "" {
		return res
	}
	if w.result != "bound" {
		// nothing was allocated (e.g. two lists competing for one address): no claim to check
		res.Stats["c13.not-bound"]++
		return res
	}
	// what galaxy-ipam persisted
	var stored []string
	for _, o := range w.K.List("floatingips", "") {
		var f fipJSON
		_ = json.Unmarshal(o.JSON, &f)
		if strings.HasSuffix(f.Spec.Key, "_"+name) {
			stored = append(stored, f.Metadata.Name)
		}
	}
	sort.Strings(stored)
	pobj := w.K.Get("pods", ns, name)
	var pj struct {
		Metadata struct {
			Annotations map[string]string `json:"annotations"`
		} `json:"metadata"`
	}
	_ = json.Unmarshal(pobj.JSON, &pj)
	argsAnn := pj.Metadata.Annotations[annArgs]
	// phase (b)
	// the pod's networks on the node: one default network, or 1-3 networks selected by annotation (comma list or JSON,
	// with and without interface names); some configurations carry their own ipam section (the plugins' fallback when
	// the args have no ipinfos). Every plugin of the pod takes the pod's ipinfos.
	creq := w2.C13Request{NS: ns, Name: name, ArgsAnnotation: argsAnn}
	if c.Prob(2, 3) {
		types := []string{"galaxy-k8s-vlan", "galaxy-flannel", "galaxy-underlay-veth", "tke-route-eni"}
		for i, n := 0, 1+c.Choose(3); i < n; i++ {
			cn := w2.C13Net{Name: fmt.Sprintf("net%d", i), Type: types[c.Choose(len(types))], IPAM: c.Prob(1, 2)}
			if c.Prob(1, 3) {
				cn.IfName = fmt.Sprintf("net%d", 1+c.Choose(4))
			}
			creq.Nets = append(creq.Nets, cn)
		}
		creq.JSONForm = c.Prob(1, 2)
		if c.Prob(1, 4) {
			// an ENI network is configured too: with a networks annotation galaxy ignores it
			creq.ENI = &w2.C13Net{Name: "eni", Type: "tke-route-eni"}
		}
	} else if c.Prob(1, 2) {
		// no networks annotation, and galaxy.json declares an ENI network: the pod (it requests the ENI-IP resource) is
		// put on that network instead of the defaults, and its plugin must receive the ipinfos all the same
		creq.ENI = &w2.C13Net{Name: "eni", Type: "tke-route-eni", IPAM: c.Prob(1, 2)}
	}
	if creq.ENI != nil && len(creq.Nets) == 0 {
		res.Stats["c13.eni-network-pods"]++
	}
	invs, status, reply, infra := w2.AddForC13(creq)
	res.Trace = append(res.Trace, fmt.Sprintf("annotation written by Bind: %s", argsAnn), fmt.Sprintf("stored FloatingIP objects: %v", stored), fmt.Sprintf("pod networks: %+v json=%v eni=%+v", creq.Nets, creq.JSONForm, creq.ENI), fmt.Sprintf("plugins decoded: %+v (ADD status %d)", invs, status))
	if infra != "" {
		res.Infra = "phase (b): " + infra
		return res
	}
	res.Nontrivial = true
	res.Sig = fmt.Sprintf("%s|%v", cfgJSON, lists) // distinct generated configurations and requests
	res.Stats["c13.bound-pods"]++
	if staleCommon {
		res.Stats["c13.annotation-carried-another-pods-ipinfos"]++
	}
	if w.bindFailed {
		res.Stats["c13.bound-at-second-attempt"]++
		if w.restarted {
			res.Stats["c13.restart-between-attempts"]++
			if w.reorderConf != nil {
				res.Stats["c13.pools-reordered-at-restart"]++
			}
		}
	}
	res.Stats["c13.ips"] += len(stored)
	res.Stats[fmt.Sprintf("c13.ips-per-pod-%d", len(stored))]++
	fail := func(key, format string, a ...interface{}) {
		if res.Viol == nil {
			res.Viol = &core.Violation{Oracle: "C13.codec-composition", Message: fmt.Sprintf(format, a...) + fmt.Sprintf(" [annotation %s; pools %s]", argsAnn, cfgJSON), Step: res.Steps}
			res.Key = key
			res.Trace = append(res.Trace, "VIOLATION C13.codec-composition: "+res.Viol.Message)
		}
	}
	// (c) oracle
	if status != 200 {
		fail("add-failed", "galaxy-ipam bound the pod with IPs %v but the daemon's ADD failed: %d %s", stored, status, strings.TrimSpace(reply))
		return res
	}
	want := 1
	if len(lists) > 0 {
		want = len(lists)
	}
	if len(stored) != want {
		fail("stored-count", "%d FloatingIP objects stored for a pod that requested %d", len(stored), want)
		return res
	}
	wantInvs := len(creq.Nets)
	if wantInvs == 0 {
		wantInvs = 1
	}
	if len(invs) != wantInvs {
		fail("plugin-count", "%d plugins were invoked for a pod with %d networks", len(invs), wantInvs)
		return res
	}
	res.Stats[fmt.Sprintf("c13.networks-per-pod-%d", wantInvs)]++
	for ni, inv := range invs {
		who := fmt.Sprintf("network #%d (%s on %s)", ni, inv.Plugin, inv.IfName)
		if ni < len(creq.Nets) && creq.Nets[ni].IPAM {
			res.Stats["c13.network-with-own-ipam-section"]++
		}
		if !inv.HadIPInfos {
			fail("ipinfos-missing", "%s was invoked without the pod's ipinfos in its CNI_ARGS", who)
			return res
		}
		if inv.Err != "" {
			fail("decode-failed", "%s: the plugin-side decoder failed: %s", who, inv.Err)
			return res
		}
		decoded := inv.Decoded
		if len(decoded) != len(stored) {
			fail("count-differs", "%s decoded %d IPs, galaxy-ipam stored %v", who, len(decoded), stored)
			return res
		}
		var got []string
		for i, d := range decoded {
			got = append(got, d.Address)
			ipn := net.ParseIP(d.Address).To4()
			if ipn == nil {
				fail("address-invalid", "decoded address #%d %q is not an IPv4 address", i, d.Address)
				return res
			}
			v := uint32(ipn[0])<<24 | uint32(ipn[1])<<16 | uint32(ipn[2])<<8 | uint32(ipn[3])
			var p *pool
			for _, q := range pools {
				for _, a := range q.all {
					if a == v {
						p = q
					}
				}
			}
			if p == nil {
				fail("address-not-configured", "decoded address #%d %s belongs to no configured pool", i, d.Address)
				return res
			}
			if len(lists) > 0 {
				in := false
				for _, a := range listIPs[i] {
					if a == v {
						in = true
					}
				}
				if !in {
					fail("order-differs", "decoded address #%d %s is not from the %d-th requested list %v (all lists %v)", i, d.Address, i, lists[i], lists)
					return res
				}
			}
			if d.PrefixLen != p.plen {
				fail("prefix-differs", "address %s: plugin got prefix length /%d, its pool %s has /%d", d.Address, d.PrefixLen, p.Subnet, p.plen)
				return res
			}
			if d.Gateway != p.Gateway {
				fail("gateway-differs", "address %s: plugin got gateway %s, its pool has %s", d.Address, d.Gateway, p.Gateway)
				return res
			}
			if int(d.Vlan) != p.Vlan {
				fail("vlan-differs", "address %s: plugin got VLAN %d, its pool has %d", d.Address, d.Vlan, p.Vlan)
				return res
			}
		}
		sort.Strings(got)
		if strings.Join(got, ",") != strings.Join(stored, ",") {
			fail("addresses-differ", "%s decoded %v, galaxy-ipam stored %v", who, got, stored)
			return res
		}
	}
	return res
}

func main() { harness.Main("c13", run) }
