package w2

import (
	"encoding/json"
	"fmt"
	"strings"

	"tkestack.io/galaxy/verifsim/core"
	"tkestack.io/galaxy/verifsim/harness"
)

// Run executes one simulated run of world W2 for one property.
func Run(prop, tier string, c *core.Choices, trace bool) *harness.RunResult {
	if prop == "C13" {
		return runC13(c, trace)
	}
	s := core.NewSim(c)
	s.TraceOn = trace
	s.MaxSteps = 40000
	w := NewWorld(s, prop, nil, nil)
	s.W = w
	if trace {
		s.Logf("config: %s", w.cfg.Summary)
		for _, f := range w.cfg.Files {
			if strings.Contains(f.Path, "evil") || strings.Contains(f.Path, "98-dir") {
				s.Logf("hostile conf-dir file %s: %s", f.Path, f.Data)
			}
		}
		for _, p := range w.cfg.Pods {
			s.Logf("pod %s ann=%v eni=%v ports=%v expect=%v fail=%v", p.key(), p.Annotations, p.WantENI, p.Ports, p.Expect, p.ExpectFail)
		}
	}
	w.StartProcess()
	s.Loop()
	// end-state digest into the determinism hash: files, NAT table, bound ports, number of plugin invocations
	inv := 0
	for _, c := range w.conts {
		inv += len(c.Invs)
	}
	s.Note(fmt.Sprintf("end-%016x-%d-%d", strSum(w.FS.Dump()+w.Kern.Save("nat")), len(w.Net.Sockets()), inv))
	res := &harness.RunResult{Viol: s.Viol, Key: w.key, Infra: s.Infra, Stats: s.Stats, Steps: s.Steps, SimNanos: core.ClockNanos(), Hash: s.Hash(), States: w.states}
	if s.OutOfSteps && s.Viol == nil && res.Infra == "" {
		res.Infra = "step budget exhausted before quiescence"
	}
	if s.Hang {
		res.Hang = true
	}
	s.KillAll()
	res.Sig = strings.Join(s.SigParts, ",")
	contested, unscripted := s.Contested, w.unscripted
	mainTrace := s.Trace
	// C12 isolation: non-interference against a solo re-execution of every container's request sequence
	if prop == "C12" && res.Viol == nil && res.Infra == "" && !res.Hang {
		if unscripted == 0 {
			key, msg, extra := w.checkIsolation(trace)
			mainTrace = append(mainTrace, extra...)
			if res.Infra == "" && key == "infra" {
				res.Infra = msg
			} else if key != "" {
				res.Viol = &core.Violation{Oracle: "C12.isolation", Message: msg, Step: s.Steps}
				res.Key = key
				mainTrace = append(mainTrace, "VIOLATION C12.isolation: "+msg)
			}
			res.Stats["c12.isolation-checked-runs"]++
			if w.maxInfl == 1 {
				res.Stats["probe.isolation-checked-on-sequential-run"]++
			}
		} else {
			res.Stats["c12.isolation-skipped-unscripted-faults"]++
		}
	}
	res.Trace = mainTrace
	reqs := res.Stats["cni.add.ok"] + res.Stats["cni.add.failed"]
	fired := strings.Contains(res.Sig, "F:")
	res.Nontrivial = reqs > 0 && (contested > 0 || fired || res.Stats["plugin.add"] > 1)
	switch prop {
	case "C14":
		res.Nontrivial = res.Stats["probe.portmapping-setup"] > 0
	case "C19":
		res.Nontrivial = reqs > 0 && contested > 0
	case "C17":
		res.Nontrivial = res.Stats["probe.gc-removal"] > 0 || res.Stats["fault.runtime.err"]+res.Stats["fault.runtime.down.inspect"] > 0
	}
	res.States = append(res.States, fmt.Sprintf("chains=%d files=%d socks=%d", len(w.Kern.Tables["nat"].Chains), len(w.FS.Paths())/4, len(w.Net.Sockets())))
	res.Summary = w.cfg.Summary + " ops=" + strings.Join(w.summary, ",")
	return res
}

// checkIsolation re-executes every container's request sequence alone in a fresh world (same static
// configuration, same pod, same scripted plugin outcomes, all-zero choice stream) and compares what the plugin
// was presented with.
func (w *World) checkIsolation(trace bool) (key, msg string, extra []string) {
	known := ""
	knownMsg := ""
	for _, c := range w.conts {
		if len(c.Cmds) == 0 {
			continue
		}
		solo := &SoloSpec{PodIdx: c.Pod.Idx, ID: c.ID, Seq: c.Seq, Cmds: c.Cmds}
		s2 := core.NewSim(core.ReplayChoices(0, nil))
		s2.MaxSteps = 20000
		s2.TraceOn = trace
		w2 := NewWorld(s2, "C12", w.cfg, solo)
		s2.W = w2
		w2.StartProcess()
		s2.Loop()
		infra := s2.Infra
		if s2.OutOfSteps {
			infra = "step budget exhausted"
		}
		s2.KillAll()
		if infra != "" || s2.Viol != nil {
			return "infra", fmt.Sprintf("solo re-execution of container %s failed: %s %v", short(c.ID), infra, s2.Viol), nil
		}
		var sc *Container
		for _, x := range w2.conts {
			if x.ID == c.ID {
				sc = x
			}
		}
		if sc == nil {
			return "infra", "solo re-execution produced no container " + short(c.ID), nil
		}
		w.S.Stat("c12.solo-reexecutions")
		k, m := CompareInvocations(c.ID, c.Invs, sc.Invs)
		if k == "" {
			continue
		}
		if trace {
			extra = append(extra, fmt.Sprintf("---- solo re-execution of container %s (pod %s, requests %v) ----", short(c.ID), c.Pod.key(), c.Cmds))
			extra = append(extra, s2.Trace...)
		}
		if k == "prevResult-from-other-request" {
			if known == "" {
				known, knownMsg = k, m
			}
			continue
		}
		return k, m, extra
	}
	return known, knownMsg, extra
}

// C13Net is one network of the pod in the C13 path.
type C13Net struct {
	Name   string // network name (json config, with "name")
	Type   string // plugin
	IPAM   bool   // the configuration carries its own ipam section (the fallback of plugins when the args have no ipinfos)
	IfName string // interface named by the annotation entry ("" = none)
}

// C13Request describes the ADD of the C13 path.
type C13Request struct {
	NS, Name       string
	ArgsAnnotation string
	Nets           []C13Net // the pod's networks in annotation order; empty = one default network without annotation
	ENI            *C13Net  // if set, galaxy.json declares this network as ENIIPNetwork: a pod without networks annotation that requests an ENI IP (every C13 pod does) gets it instead of the defaults; with an annotation it is ignored
	JSONForm       bool     // networks annotation in JSON form (comma list otherwise)
}

// C13Invocation is what one plugin ADD of that request decoded from its CNI_ARGS with cni/ipam.Allocate.
type C13Invocation struct {
	Plugin     string
	IfName     string
	HadIPInfos bool
	Decoded    []DecodedIP
	Err        string
}

// AddForC13 runs one CNI ADD through a fresh daemon for a pod that carries the given args annotation and selects
// the given networks, and returns what every invoked plugin decoded. It creates its own simulation (resetting the
// simulated clock); call it only while no other run is in progress.
func AddForC13(rq C13Request) (invs []C13Invocation, status int, reply string, infra string) {
	s := core.NewSim(core.ReplayChoices(0, nil))
	s.MaxSteps = 20000
	cfg := &Config{Prop: "C13", EphLo: 32768, EphHi: 32773, ScriptSeed: 1}
	// galaxy-ipam only handles pods that request the ENI-IP resource: the pod carries it
	p := &PodDef{Idx: 0, NS: rq.NS, Name: rq.Name, KubeIf: "eth0", Annotations: map[string]string{annArgs: rq.ArgsAnnotation}, Sandboxes: 1, AnnForm: "none",
		WantENI: true, NContainers: 1}
	if rq.ENI != nil {
		nd := &NetDef{Name: rq.ENI.Name, Type: rq.ENI.Type, HasName: true, Form: "json", Version: "0.3.1", Extra: map[string]interface{}{}}
		if rq.ENI.IPAM {
			nd.Extra["ipam"] = map[string]interface{}{"type": "host-local", "subnet": "172.30.0.0/24"}
		}
		cfg.Nets = append(cfg.Nets, nd)
		cfg.ENINet = rq.ENI.Name
	}
	if len(rq.Nets) == 0 {
		cfg.Nets = append(cfg.Nets, &NetDef{Name: "galaxy-k8s-vlan", Type: "galaxy-k8s-vlan", HasName: false, Form: "json", Version: "0.2.0", Extra: map[string]interface{}{}})
		cfg.DefaultNets = []string{"galaxy-k8s-vlan"}
		p.Expect = []ExpNet{{Net: "galaxy-k8s-vlan", Type: "galaxy-k8s-vlan", IfName: "eth0"}}
		if rq.ENI != nil {
			p.Expect = []ExpNet{{Net: rq.ENI.Name, Type: rq.ENI.Type, IfName: "eth0"}}
		}
	} else {
		var items []string
		var elems []map[string]interface{}
		for i, n := range rq.Nets {
			if cfg.net(n.Name) == nil {
				nd := &NetDef{Name: n.Name, Type: n.Type, HasName: true, Form: "json", Version: []string{"0.2.0", "0.3.1", ""}[i%3], Extra: map[string]interface{}{}}
				if n.IPAM {
					nd.Extra["ipam"] = map[string]interface{}{"type": "host-local", "subnet": fmt.Sprintf("172.31.%d.0/24", i)}
				}
				cfg.Nets = append(cfg.Nets, nd)
			}
			e := ExpNet{Net: n.Name, Type: n.Type, IfName: "eth0"}
			it := n.Name
			el := map[string]interface{}{"name": n.Name}
			if n.IfName != "" {
				it += "@" + n.IfName
				el["interface"] = n.IfName
			}
			if i > 0 {
				e.IfName = n.IfName
				if e.IfName == "" {
					e.IfName = fmt.Sprintf("eth%d", i)
				}
			}
			items = append(items, it)
			elems = append(elems, el)
			p.Expect = append(p.Expect, e)
		}
		cfg.DefaultNets = []string{rq.Nets[0].Name}
		if rq.JSONForm {
			b, _ := json.Marshal(elems)
			p.Annotations[annNetworks] = string(b)
			p.AnnForm = "json"
		} else {
			p.Annotations[annNetworks] = strings.Join(items, ",")
			p.AnnForm = "list"
		}
	}
	cfg.configFiles(core.ReplayChoices(0, nil))
	cfg.Pods = []*PodDef{p}
	w := NewWorld(s, "C13", cfg, &SoloSpec{PodIdx: 0, Cmds: []string{"ADD"}})
	s.W = w
	w.StartProcess()
	s.Loop()
	infra = s.Infra
	if s.OutOfSteps {
		infra = "step budget exhausted"
	}
	s.KillAll()
	for _, r := range w.reqs {
		status, reply = r.Code, string(r.Resp)
	}
	return w.c13Invs, status, reply, infra
}

// AddWithArgsAnnotation is AddForC13 for a pod on one default network; it returns what that plugin decoded.
func AddWithArgsAnnotation(ns, name, argsAnnotation string) (decoded []DecodedIP, status int, reply string, infra string) {
	invs, status, reply, infra := AddForC13(C13Request{NS: ns, Name: name, ArgsAnnotation: argsAnnotation})
	if len(invs) > 0 {
		decoded = invs[len(invs)-1].Decoded
	}
	return decoded, status, reply, infra
}
