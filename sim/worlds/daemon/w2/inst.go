package w2

// Task-side code of world W2: construction of one incarnation of the galaxy daemon from simulated
// collaborators (mirrors Galaxy.Start without the host probes), and the bodies of the tasks the world spawns.
// Everything here runs on task goroutines and talks to the world only through core.Call / core.CallNow.

import (
	"context"
	"flag"
	"encoding/json"
	"fmt"
	"io"
	"net/http"
	"strings"
	"sync"

	"google.golang.org/grpc"
	"google.golang.org/grpc/codes"
	"google.golang.org/grpc/status"
	corev1 "k8s.io/api/core/v1"
	metav1 "k8s.io/apimachinery/pkg/apis/meta/v1"
	"k8s.io/apimachinery/pkg/fields"
	"k8s.io/client-go/kubernetes"
	typedcorev1 "k8s.io/client-go/kubernetes/typed/core/v1"
	criapi "k8s.io/cri-api/pkg/apis/runtime/v1"
	"tkestack.io/galaxy/pkg/api/docker"
	"tkestack.io/galaxy/pkg/galaxy"
	"tkestack.io/galaxy/pkg/galaxy/options"
	"tkestack.io/galaxy/pkg/gc"
	"tkestack.io/galaxy/pkg/network/portmapping"
	"tkestack.io/galaxy/verifsim/core"
	"tkestack.io/galaxy/verifsim/dropin/simioutil"
	"tkestack.io/galaxy/verifsim/kubeclient"
)

// Instance is one incarnation of the daemon. Written by the init task, read by tasks started after InitDone.
type Instance struct {
	proc int
	g    *galaxy.Galaxy
	pm   *portmapping.PortMappingHandler
	gc   gc.GC
	quit chan struct{}
}

// startParams is handed to the init task by value.
type startParams struct {
	JSONConfigPath string
	ConfDir        string
	CNIPaths       []string
	SetupIPtables  bool
	RunGC          bool
	GCDirs         string // --gc_dirs
}

// ---- kube client with field selectors ----------------------------------------------------------------------

type clientset struct {
	kubernetes.Interface
	inner *kubeclient.Clientset
}

func (c *clientset) CoreV1() typedcorev1.CoreV1Interface {
	return &coreV1{CoreV1Interface: c.inner.CoreV1()}
}

type coreV1 struct{ typedcorev1.CoreV1Interface }

func (c *coreV1) Pods(ns string) typedcorev1.PodInterface {
	return &pods{PodInterface: c.CoreV1Interface.Pods(ns)}
}

type pods struct{ typedcorev1.PodInterface }

// List applies the field selector the way the API server does (the shared simulated client ignores it).
func (p *pods) List(ctx context.Context, opts metav1.ListOptions) (*corev1.PodList, error) {
	l, err := p.PodInterface.List(ctx, opts)
	if err != nil || opts.FieldSelector == "" {
		return l, err
	}
	sel, err := fields.ParseSelector(opts.FieldSelector)
	if err != nil {
		return nil, err
	}
	out := &corev1.PodList{}
	for i := range l.Items {
		pod := &l.Items[i]
		set := fields.Set{"metadata.name": pod.Name, "metadata.namespace": pod.Namespace, "spec.nodeName": pod.Spec.NodeName,
			"status.phase": string(pod.Status.Phase), "status.podIP": pod.Status.PodIP}
		if sel.Matches(set) {
			out.Items = append(out.Items, *pod)
		}
	}
	return out, nil
}

// ---- container runtime fakes -------------------------------------------------------------------------------

// dockerRT is the in-process round tripper of the engine-api client. The engine-api client runs every request
// on a helper goroutine while the calling task blocks on the result, so the helper acts for the task; it asks
// the world with CallNow (serviced at once, never left parked across other tasks' steps, so a crash can never
// find it parked). The scheduling point of an inspect is the Getenv("CONTAINERD_HOST") that precedes it.
type dockerRT struct{}

type rtBody struct{ *strings.Reader }

func (rtBody) Close() error { return nil }

func (dockerRT) RoundTrip(req *http.Request) (*http.Response, error) {
	// path: /v1.23/containers/<id>/json
	parts := strings.Split(strings.Trim(req.URL.Path, "/"), "/")
	if len(parts) != 4 || parts[1] != "containers" || parts[3] != "json" || req.Method != http.MethodGet {
		return nil, fmt.Errorf("dockerRT: unsupported request %s %s", req.Method, req.URL.Path)
	}
	r := core.CallNow(core.Req{Op: "rt.inspect", A: []string{parts[2]}})
	mk := func(code int, body string) *http.Response {
		return &http.Response{StatusCode: code, Status: fmt.Sprintf("%d %s", code, http.StatusText(code)), Proto: "HTTP/1.1", ProtoMajor: 1, ProtoMinor: 1,
			Header: http.Header{"Content-Type": []string{"application/json"}}, Body: rtBody{strings.NewReader(body)}, Request: req, ContentLength: int64(len(body))}
	}
	switch r.Code {
	case 0:
		return mk(200, string(r.B)), nil
	case 404:
		return mk(404, fmt.Sprintf("No such container: %s\n", parts[2])), nil
	case 500:
		return mk(500, r.Msg+"\n"), nil
	}
	// runtime unreachable
	return nil, fmt.Errorf("dial unix /var/run/docker.sock: connect: connection refused")
}

// criFake implements the one CRI call galaxy makes.
type criFake struct {
	criapi.RuntimeServiceClient
}

func (criFake) PodSandboxStatus(ctx context.Context, in *criapi.PodSandboxStatusRequest, _ ...grpc.CallOption) (*criapi.PodSandboxStatusResponse, error) {
	r := core.Call(core.Req{Op: "cri.status", A: []string{in.PodSandboxId}})
	switch r.Code {
	case 0:
		st := criapi.PodSandboxState_SANDBOX_READY
		if r.A[0] == "notready" {
			st = criapi.PodSandboxState_SANDBOX_NOTREADY
		}
		return &criapi.PodSandboxStatusResponse{Status: &criapi.PodSandboxStatus{Id: in.PodSandboxId, State: st,
			Metadata:    &criapi.PodSandboxMetadata{Name: r.A[1], Namespace: r.A[2]},
			Annotations: map[string]string{gc.SandboxName: r.A[1], gc.SandboxNamespace: r.A[2]}}}, nil
	case int(codes.NotFound):
		return nil, status.Errorf(codes.NotFound, "an error occurred when try to find sandbox %q: not found", in.PodSandboxId)
	case int(codes.Unavailable):
		return nil, status.Errorf(codes.Unavailable, "connection error: desc = \"transport: Error while dialing dial unix /run/containerd/containerd.sock: connect: connection refused\"")
	case int(codes.DeadlineExceeded):
		return nil, status.Errorf(codes.DeadlineExceeded, "context deadline exceeded")
	case -2:
		return nil, io.ErrUnexpectedEOF // not a gRPC status error at all
	}
	return nil, status.Errorf(codes.Unknown, "%s", r.Msg)
}

// ---- daemon construction -----------------------------------------------------------------------------------

// startDaemon is the body of the init task: what Galaxy.Start does, with injected collaborators.
var gcFlagMu sync.Mutex

func startDaemon(inst *Instance, p startParams) {
	fail := func(stage string, err error) {
		core.CallNow(core.Req{Op: "w.startfailed", A: []string{stage, err.Error()}})
	}
	data, err := simioutil.ReadFile(p.JSONConfigPath)
	if err != nil {
		fail("read-config", err)
		return
	}
	var conf galaxy.JsonConf
	if err := json.Unmarshal(data, &conf); err != nil {
		fail("parse-config", err)
		return
	}
	opts := options.NewServerRunOptions()
	opts.JsonConfigPath = p.JSONConfigPath
	opts.NetworkConfDir = p.ConfDir
	opts.CNIPaths = p.CNIPaths
	client := &clientset{inner: kubeclient.NewClientset()}
	dockerCli, err := docker.VerifNewDockerInterface(dockerRT{}, criFake{})
	if err != nil {
		fail("docker", err)
		return
	}
	inst.pm = portmapping.VerifNew(iptHandle{}, "")
	g, err := galaxy.VerifNewGalaxy(conf, opts, client, dockerCli, inst.pm, nil)
	if err != nil {
		fail("check-config", err)
		return
	}
	inst.g = g
	inst.quit = make(chan struct{})
	// the flag is process-global: set it for every daemon start (also back to the default). Consecutive runs of one worker
	// process start their daemons from different goroutines; the real mutex orders those writes (and the read in
	// NewFlannelGC) for the race detector, which otherwise reports the harness against itself
	gcFlagMu.Lock()
	if err := flag.Set("gc_dirs", p.GCDirs); err != nil {
		gcFlagMu.Unlock()
		fail("flags", err)
		return
	}
	inst.gc = gc.NewFlannelGC(client, dockerCli, inst.quit, g.VerifCleanIPtables)
	gcFlagMu.Unlock()
	if p.RunGC {
		// Galaxy.Start: gc.NewFlannelGC(...).Run() comes before setupIPtables; its loops are simulator tasks
		inst.gc.Run()
	}
	if p.SetupIPtables {
		if err := g.VerifSetupIPtables(); err != nil {
			fail("setup-iptables", err)
			return
		}
	}
	core.InitDone()
	core.CallNow(core.Req{Op: "w.ready"})
}

// cniTask sends one CNI request through the daemon's real HTTP handler.
func cniTask(inst *Instance, reqID string, body []byte) {
	code, resp := inst.g.VerifServeCNI(body)
	core.CallNow(core.Req{Op: "w.cnidone", A: []string{reqID, fmt.Sprint(code)}, B: resp})
}

// gcTask runs one pass of one collector.
func gcTask(inst *Instance, which string, round int) {
	var err error
	switch which {
	case "ip":
		err = gc.VerifCleanupIP(inst.gc)
	case "dirs":
		err = gc.VerifCleanupGCDirs(inst.gc)
	case "veth":
		err = gc.VerifCleanupVeth(inst.gc)
	}
	msg := ""
	if err != nil {
		msg = err.Error()
	}
	core.CallNow(core.Req{Op: "w.gcdone", A: []string{which, fmt.Sprint(round), msg}})
}

// heldTask reports the ports the handler believes it holds.
func heldTask(inst *Instance) {
	core.CallNow(core.Req{Op: "w.held", A: inst.pm.VerifHeldPorts()})
}
