package w2

// Oracles of C12: order / pairing / rollback / retry / repeated DEL as event checks over the fake plugin's
// invocation log, and isolation as non-interference against a solo re-execution.

import (
	"encoding/json"
	"fmt"
	"path"
	"reflect"
	"sort"
	"strings"
)

func stdinInfo(b []byte) (typ, name string) {
	var m struct {
		Type string `json:"type"`
		Name string `json:"name"`
	}
	_ = json.Unmarshal(b, &m)
	return m.Type, m.Name
}

// matches reports whether an invocation addresses the idx-th expected network of the pod.
func (w *World) matches(c *Container, idx int, inv *Invocation) string {
	if idx < 0 || idx >= len(c.Pod.Expect) {
		return fmt.Sprintf("no network expected at position %d", idx)
	}
	e := c.Pod.Expect[idx]
	typ, name := stdinInfo(inv.Stdin)
	if typ != e.Type || path.Base(inv.Plugin) != e.Type {
		return fmt.Sprintf("position %d: expected plugin %s (network %s), got plugin %s with config type %q", idx, e.Type, e.Net, path.Base(inv.Plugin), typ)
	}
	if nd := w.cfg.net(e.Net); nd != nil && nd.HasName && name != e.Net {
		return fmt.Sprintf("position %d: expected the configuration of network %s, got name %q", idx, e.Net, name)
	}
	if inv.IfName != e.IfName {
		return fmt.Sprintf("position %d (network %s): expected interface %s, got %s", idx, e.Net, e.IfName, inv.IfName)
	}
	return ""
}

// oracleC12Invocation is evaluated at the instant the plugin runtime receives an invocation.
func (w *World) oracleC12Invocation(r *Request, inv *Invocation) {
	c := r.C
	who := fmt.Sprintf("pod %s container %s request %s %s", c.Pod.key(), c.ID[:8], r.ID, r.Cmd)
	if !c.Tainted && len(c.Pod.CommonArgs) > 0 {
		got := map[string]string{}
		for _, kv := range strings.Split(inv.Args, ";") {
			if part := strings.SplitN(kv, "=", 2); len(part) == 2 {
				got[strings.TrimSpace(part[0])] = strings.TrimSpace(part[1])
			}
		}
		for _, k := range sortedKeys(c.Pod.CommonArgs) {
			if got[k] != c.Pod.CommonArgs[k] {
				w.fail("C12.isolation", "common-args-missing", "%s: %s of %s on %s: the pod's common arg %s=%s did not reach this plugin (CNI_ARGS %q)", who, inv.Cmd, path.Base(inv.Plugin), inv.IfName, k, c.Pod.CommonArgs[k], inv.Args)
				return
			}
		}
		w.S.Stat("probe.common-args-at-network-" + fmt.Sprint(imin(r.addIdx, 3)))
	}
	switch inv.Cmd {
	case "ADD":
		if r.Cmd != "ADD" {
			w.fail("C12.order", "add-during-del", "%s: plugin ADD invoked while serving a DEL", who)
			return
		}
		if r.failedAt >= 0 {
			w.fail("C12.rollback", "add-after-failed-add", "%s: ADD of %s invoked after the ADD at position %d had failed", who, inv.IfName, r.failedAt)
			return
		}
		if c.Pod.ExpectFail {
			w.fail("C12.order", "add-for-unconfigured", "%s: the pod names a network that is not configured, yet a plugin was invoked (%s)", who, path.Base(inv.Plugin))
			return
		}
		if msg := w.matches(c, r.addIdx, inv); msg != "" {
			w.fail("C12.order", "add-order", "%s: ADD #%d: %s; expected list %v", who, r.addIdx, msg, c.Pod.Expect)
			return
		}
		if r.addIdx > 0 {
			how := "eth-i"
			if c.Pod.Expect[r.addIdx].Named {
				how = "named-by-entry"
			}
			w.S.Stat("probe.ifname." + c.Pod.AnnForm + "." + how)
		} else if c.Pod.KubeIf != "eth0" {
			w.S.Stat("probe.ifname.first-on-kubelets-non-eth0-name")
		}
		if inv.Failed {
			r.failedAt = r.addIdx
			r.rollbackNext = r.addIdx
			w.S.Stat("probe.add-failed-at-" + fmt.Sprint(imin(r.addIdx, 3)))
		} else {
			r.addIdx++
		}
	case "DEL":
		if r.Cmd == "ADD" {
			if r.failedAt < 0 {
				w.fail("C12.rollback", "del-without-failure", "%s: plugin DEL invoked during an ADD in which no plugin had failed", who)
				return
			}
			if r.rollbackNext < 0 {
				w.fail("C12.rollback", "rollback-extra", "%s: extra DEL of %s after the rollback %d..0 was complete", who, inv.IfName, r.failedAt)
				return
			}
			if msg := w.matches(c, r.rollbackNext, inv); msg != "" {
				w.fail("C12.rollback", "rollback-order", "%s: rollback after failed ADD at %d: %s", who, r.failedAt, msg)
				return
			}
			if inv.Failed {
				r.delFailed = append(r.delFailed, r.rollbackNext)
			}
			r.rollbackNext--
			w.S.Stat("probe.rollback-del")
			return
		}
		// DEL request
		if c.Tainted {
			// weak clause only: a network of this pod, strictly descending positions within the request
			pos := -1
			for i := range c.Pod.Expect {
				if w.matches(c, i, inv) == "" && (r.delPos == 0 || i < r.lastIdx) {
					pos = i
				}
			}
			if pos < 0 {
				w.fail("C12.order", "del-foreign-network", "%s: DEL of %s on %s which is not a remaining network of this pod in reverse order (expected list %v)", who, path.Base(inv.Plugin), inv.IfName, c.Pod.Expect)
				return
			}
			r.lastIdx = pos
			r.delPos++
			return
		}
		if r.delPos >= len(r.delExpect) {
			if len(r.delExpect) == 0 {
				w.fail("C12.repeat-del", "del-invokes-after-complete", "%s: nothing remained to tear down for this container, yet DEL invoked %s on %s", who, path.Base(inv.Plugin), inv.IfName)
			} else {
				w.fail("C12.retry", "del-extra", "%s: DEL invoked %s on %s beyond the remaining networks %v", who, path.Base(inv.Plugin), inv.IfName, r.delExpect)
			}
			return
		}
		want := r.delExpect[r.delPos]
		if msg := w.matches(c, want, inv); msg != "" {
			oracle, key := "C12.order", "del-order"
			if c.DelTries > 1 {
				oracle, key = "C12.retry", "del-retry-set"
			}
			w.fail(oracle, key, "%s: DEL #%d: %s; remaining (reverse) %v of %v", who, r.delPos, msg, r.delExpect, c.Pod.Expect)
			return
		}
		if inv.Failed {
			r.delFailed = append(r.delFailed, want)
		}
		r.delPos++
	}
}

// oracleC12RequestEnd is evaluated when the reply of a request reaches kubelet.
func (w *World) oracleC12RequestEnd(r *Request, killed bool) {
	c := r.C
	who := fmt.Sprintf("pod %s container %s request %s %s", c.Pod.key(), c.ID[:8], r.ID, r.Cmd)
	ok := r.Code == 200
	// "a repeated DEL succeeds without invoking anything", also when the DEL before it failed: a DEL that ran without
	// injected fault and without plugin failure has consumed whatever was recorded for the container (readable or not)
	if r.Cmd == "DEL" && !killed && !r.extFault && c.prevDelClean {
		if r.invoked > 0 {
			w.fail("C12.repeat-del", "repeated-del-invokes", "%s: the DEL before it ended without fault and without plugin failure, yet this DEL invoked %d plugin(s)", who, r.invoked)
			return
		}
		if !ok {
			w.fail("C12.repeat-del", "repeated-del-fails", "%s: the DEL before it ended without fault and without plugin failure (it consumed the recorded state, readable or not), yet this DEL fails: %s", who, strings.TrimSpace(string(r.Resp)))
			return
		}
		w.S.Stat("probe.repeated-del-after-clean-del")
		if c.Tainted {
			w.S.Stat("probe.repeated-del-noop-after-unreadable-state")
		}
	}
	c.prevDelClean = r.Cmd == "DEL" && !killed && !r.extFault && !r.pluginFailed &&
		(ok || strings.Contains(string(r.Resp), "consume network info"))
	if killed || r.extFault || c.Tainted {
		// the daemon died under the request or an injected non-plugin fault hit it: the property's quantifier
		// (plugin failures x request sequences) does not cover the outcome; only the per-invocation checks applied
		c.Tainted = true
		w.S.Stat("c12.tainted-requests")
		return
	}
	sort.Ints(r.delFailed)
	switch r.Cmd {
	case "ADD":
		switch {
		case c.Pod.ExpectFail:
			if ok {
				w.fail("C12.order", "add-ok-for-unconfigured", "%s: ADD succeeded although the pod selects no configured network", who)
			}
			c.Remaining = nil
		case r.failedAt >= 0:
			if r.rollbackNext >= 0 {
				w.fail("C12.rollback", "rollback-missing", "%s: ADD at position %d failed but plugins %d..0 did not all receive DEL (next missing: %d)", who, r.failedAt, r.failedAt, r.rollbackNext)
				return
			}
			if ok {
				w.fail("C12.rollback", "failed-add-reported-ok", "%s: ADD at position %d failed but the request succeeded", who, r.failedAt)
				return
			}
			c.Remaining = r.delFailed
			w.S.Stat("probe.rollback-complete")
		case r.addIdx == len(c.Pod.Expect) && r.badResult:
			// every plugin succeeded but the last result carries no usable IPv4 address: the request fails for that
			// reason. No plugin ADD failed, so the rollback clause does not apply; what was set up stays recorded and the
			// DEL that kubelet sends after a failed ADD must tear all of it down, in reverse
			if ok {
				w.fail("C12.order", "unusable-result-reported-ok", "%s: the last plugin's result has no usable IPv4 address but the request succeeded", who)
				return
			}
			c.Remaining = nil
			for i := range c.Pod.Expect {
				c.Remaining = append(c.Remaining, i)
			}
			w.S.Stat("probe.add-unusable-result-kept-for-del")
		case r.addIdx == len(c.Pod.Expect):
			if !ok {
				w.fail("C12.order", "add-fails-without-cause", "%s: every plugin succeeded but the request failed: %s", who, strings.TrimSpace(string(r.Resp)))
				return
			}
			c.Remaining = nil
			for i := range c.Pod.Expect {
				c.Remaining = append(c.Remaining, i)
			}
			w.S.Stat("probe.add-complete")
			switch {
			case c.Pod.AnnForm != "none" && c.Pod.WantENI && w.cfg.ENINet != "" && len(w.cfg.DefaultNets) > 0:
				w.S.Stat("probe.selection.annotation-with-eni-and-defaults-present")
			case c.Pod.AnnForm != "none":
				w.S.Stat("probe.selection.annotation")
			case c.Pod.WantENI && w.cfg.ENINet != "":
				w.S.Stat("probe.selection.eni-over-defaults")
			case c.Pod.WantENI:
				w.S.Stat("probe.selection.defaults-for-eni-pod-without-eni-network")
			case w.cfg.ENINet != "":
				w.S.Stat("probe.selection.defaults-for-ordinary-pod-with-eni-network-configured")
			default:
				w.S.Stat("probe.selection.defaults")
			}
		default:
			w.fail("C12.order", "add-incomplete", "%s: only %d of %d expected plugins were invoked and none failed (reply %d %s)", who, r.addIdx, len(c.Pod.Expect), r.Code, strings.TrimSpace(string(r.Resp)))
		}
	case "DEL":
		if r.delPos < len(r.delExpect) {
			oracle, key := "C12.order", "del-incomplete"
			if c.DelTries > 1 {
				oracle, key = "C12.retry", "del-retry-incomplete"
			}
			w.fail(oracle, key, "%s: DEL invoked %d of the %d remaining networks %v", who, r.delPos, len(r.delExpect), r.delExpect)
			return
		}
		if len(r.delFailed) == 0 && !ok {
			w.fail("C12.repeat-del", "del-fails-without-cause", "%s: no plugin DEL failed but the request failed: %s", who, strings.TrimSpace(string(r.Resp)))
			return
		}
		if len(r.delFailed) > 0 && ok {
			w.fail("C12.retry", "failed-del-reported-ok", "%s: plugin DEL failed for positions %v but the request succeeded", who, r.delFailed)
			return
		}
		if len(r.delExpect) == 0 {
			w.S.Stat("probe.repeated-del-noop")
			if c.DelOKProc != 0 && c.DelOKProc != w.proc {
				w.S.Stat("probe.repeated-del-noop-after-restart")
			}
		}
		if len(r.delFailed) > 0 {
			w.S.Stat("probe.del-partial-failure")
		}
		c.Remaining = r.delFailed
	}
}

// ---- isolation ----------------------------------------------------------------------------------------------

func canonArgs(s string) []string {
	parts := strings.Split(s, ";")
	sort.Strings(parts)
	return parts
}

// CompareInvocations checks that every invocation of the shared run presented the plugin with the same stdin
// configuration, CNI_ARGS and interface name as its twin of the solo run. It returns a finding key and a
// message ("" = equal). A difference confined to the prevResult key of the stdin configuration is reported
// under its own key, so that other differences stay visible.
func CompareInvocations(cid string, shared, solo []*Invocation) (key, msg string) {
	n := len(shared)
	if len(solo) != n {
		return "sequence-differs", fmt.Sprintf("container %s: %d plugin invocations in the shared run, %d when re-executed alone", cid[:8], len(shared), len(solo))
	}
	prevKey, prevMsg := "", ""
	for i := 0; i < n; i++ {
		a, b := shared[i], solo[i]
		where := fmt.Sprintf("container %s invocation #%d (%s %s on %s)", cid[:8], i, a.Cmd, path.Base(a.Plugin), a.IfName)
		if a.Cmd != b.Cmd || a.Plugin != b.Plugin {
			return "sequence-differs", fmt.Sprintf("%s: alone it was %s %s", where, b.Cmd, path.Base(b.Plugin))
		}
		if a.IfName != b.IfName {
			return "ifname-differs", fmt.Sprintf("%s: interface %s, alone %s", where, a.IfName, b.IfName)
		}
		if !reflect.DeepEqual(canonArgs(a.Args), canonArgs(b.Args)) {
			return "args-differ", fmt.Sprintf("%s: CNI_ARGS %q, alone %q", where, a.Args, b.Args)
		}
		if a.Netns != b.Netns || a.Path != b.Path || a.Container != b.Container {
			return "env-differs", fmt.Sprintf("%s: netns/path/container differ: %s %s, alone %s %s", where, a.Netns, a.Path, b.Netns, b.Path)
		}
		var ma, mb map[string]interface{}
		ea, eb := json.Unmarshal(a.Stdin, &ma), json.Unmarshal(b.Stdin, &mb)
		if ea != nil || eb != nil {
			if string(a.Stdin) != string(b.Stdin) {
				return "stdin-differs", fmt.Sprintf("%s: stdin %s, alone %s", where, a.Stdin, b.Stdin)
			}
			continue
		}
		if reflect.DeepEqual(ma, mb) {
			continue
		}
		pa, pb := ma["prevResult"], mb["prevResult"]
		delete(ma, "prevResult")
		delete(mb, "prevResult")
		if !reflect.DeepEqual(ma, mb) {
			return "stdin-differs", fmt.Sprintf("%s: stdin %s, alone %s", where, a.Stdin, b.Stdin)
		}
		if prevKey == "" {
			ja, _ := json.Marshal(pa)
			jb, _ := json.Marshal(pb)
			prevKey = "prevResult-from-other-request"
			prevMsg = fmt.Sprintf("%s: the stdin configuration carries prevResult %s; re-executed alone (same pod, same configuration, same plugin outcomes) it carries %s", where, ja, jb)
		}
	}
	return prevKey, prevMsg
}

func imin(a, b int) int {
	if a < b {
		return a
	}
	return b
}
