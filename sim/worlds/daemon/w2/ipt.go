package w2

// Task side of the iptables seam: an implementation of utiliptables.Interface whose every method is one
// environment call (the real runner holds its mutex and the xtables lock across the processes of one method,
// so one method = one atomic step is faithful). Exit statuses are interpreted exactly as
// pkg/utils/iptables/iptables.go interprets them, and errors carry the same texts.

import (
	"bytes"
	"fmt"
	"strings"

	utiliptables "tkestack.io/galaxy/pkg/utils/iptables"
	"tkestack.io/galaxy/verifsim/core"
)

type iptHandle struct{}

var _ utiliptables.Interface = iptHandle{}

func exitErr(r core.Resp) error { return fmt.Errorf("exit status %d", r.Code) }

func iptCall(op string, a []string, b []byte) core.Resp {
	r := core.Call(core.Req{Op: op, A: a, B: b})
	if r.Code == core.CodeDead {
		r.Code, r.Msg = 1, "killed"
	}
	return r
}

func (iptHandle) GetVersion() (string, error) { return "1.8.4", nil }

func (iptHandle) EnsureChain(table utiliptables.Table, chain utiliptables.Chain) (bool, error) {
	r := iptCall("ipt.newchain", []string{string(table), string(chain)}, nil)
	if r.Code != 0 {
		if r.Code == 1 {
			return true, nil
		}
		return false, fmt.Errorf("error creating chain %q: %v: %s", chain, exitErr(r), r.Msg)
	}
	return false, nil
}

func (iptHandle) FlushChain(table utiliptables.Table, chain utiliptables.Chain) error {
	r := iptCall("ipt.flush", []string{string(table), string(chain)}, nil)
	if r.Code != 0 {
		return fmt.Errorf("error flushing chain %q: %v: %s", chain, exitErr(r), r.Msg)
	}
	return nil
}

func (iptHandle) DeleteChain(table utiliptables.Table, chain utiliptables.Chain) error {
	r := iptCall("ipt.deletechain", []string{string(table), string(chain)}, nil)
	if r.Code != 0 {
		return fmt.Errorf("error deleting chain %q: %v: %s", chain, exitErr(r), r.Msg)
	}
	return nil
}

func (iptHandle) EnsureRule(position utiliptables.RulePosition, table utiliptables.Table, chain utiliptables.Chain, args ...string) (bool, error) {
	r := iptCall("ipt.ensurerule", append([]string{string(table), string(chain), string(position)}, args...), nil)
	if r.Code != 0 {
		if len(r.A) > 0 && r.A[0] == "append" {
			return false, fmt.Errorf("error appending rule: %v: %s", exitErr(r), r.Msg)
		}
		return false, fmt.Errorf("error checking rule: %v: %s", exitErr(r), r.Msg)
	}
	return r.Msg == "existed", nil
}

func (iptHandle) DeleteRule(table utiliptables.Table, chain utiliptables.Chain, args ...string) error {
	r := iptCall("ipt.deleterule", append([]string{string(table), string(chain)}, args...), nil)
	if r.Code != 0 {
		if len(r.A) > 0 && r.A[0] == "check" {
			return fmt.Errorf("error checking rule: %v: %s", exitErr(r), r.Msg)
		}
		return fmt.Errorf("error deleting rule: %v: %s", exitErr(r), r.Msg)
	}
	return nil
}

func (iptHandle) ListRule(table utiliptables.Table, chain utiliptables.Chain, args ...string) ([]string, error) {
	r := iptCall("ipt.list", append([]string{string(table), string(chain)}, args...), nil)
	if r.Code != 0 {
		return nil, fmt.Errorf("error listing rule: %v: %s", exitErr(r), r.Msg)
	}
	return strings.Split(strings.Join(r.A, "\n")+"\n", "\n"), nil
}

func (iptHandle) IsIpv6() bool { return false }

func (iptHandle) SaveInto(table utiliptables.Table, buffer *bytes.Buffer) error {
	r := iptCall("ipt.save", []string{string(table)}, nil)
	if r.Code != 0 {
		buffer.WriteString(r.Msg)
		return exitErr(r)
	}
	buffer.Write(r.B)
	return nil
}

func (iptHandle) EnsurePolicy(table utiliptables.Table, chain utiliptables.Chain, policy string) error {
	r := iptCall("ipt.policy", []string{string(table), string(chain), policy}, nil)
	if r.Code != 0 {
		return fmt.Errorf("%v (%s)", exitErr(r), r.Msg)
	}
	return nil
}

func restore(table string, data []byte, flush utiliptables.FlushFlag) error {
	f := "0"
	if flush == utiliptables.FlushTables {
		f = "1"
	}
	r := iptCall("ipt.restore", []string{table, f}, data)
	if r.Code != 0 {
		return fmt.Errorf("%v (%s)", exitErr(r), r.Msg)
	}
	return nil
}

func (iptHandle) Restore(table utiliptables.Table, data []byte, flush utiliptables.FlushFlag, _ utiliptables.RestoreCountersFlag) error {
	return restore(string(table), data, flush)
}

func (iptHandle) RestoreAll(data []byte, flush utiliptables.FlushFlag, _ utiliptables.RestoreCountersFlag) error {
	return restore("", data, flush)
}
