package w2

import (
	"strings"

	"tkestack.io/galaxy/verifsim/core"
)

// IsIptOp reports whether op is served by the simulated kernel.
func IsIptOp(op string) bool { return strings.HasPrefix(op, "ipt.") }

func kresp(e *kErr) core.Resp {
	if e == nil {
		return core.Resp{}
	}
	return core.Resp{Code: e.Status, Msg: e.Msg}
}

// Handle serves one call of the utiliptables.Interface seam. A = table, chain, rule arguments...
// The reply code is the exit status of the (last) iptables process the real runner would have run.
func (k *Kernel) Handle(r *core.Req) core.Resp {
	arg := func(i int) string {
		if i < len(r.A) {
			return r.A[i]
		}
		return ""
	}
	if r.Op == "ipt.restore" {
		// A = table ("" = all), flush ("1"/"0")
		e := k.Restore(arg(0), r.B, arg(1) == "1")
		return kresp(e)
	}
	t, e := k.table(arg(0))
	if e != nil {
		return kresp(e)
	}
	chain := arg(1)
	var spec []string
	if len(r.A) > 2 {
		spec = r.A[2:]
	}
	switch r.Op {
	case "ipt.save":
		return core.Resp{B: []byte(k.Save(arg(0)))}
	case "ipt.newchain":
		e := tblNewChain(t, chain)
		if e == nil {
			k.Muts++
		}
		return kresp(e)
	case "ipt.flush":
		e := tblFlush(t, chain)
		if e == nil {
			k.Muts++
		} else {
			k.reject("flush-missing-chain")
		}
		return kresp(e)
	case "ipt.deletechain":
		e := tblDeleteChain(t, chain)
		if e == nil {
			k.Muts++
		} else {
			k.reject("delete-chain-refused")
		}
		return kresp(e)
	case "ipt.policy":
		c := t.Chains[chain]
		if c == nil || !c.Builtin {
			return kresp(&kErr{1, msgNoChain})
		}
		c.Policy = arg(2)
		return core.Resp{}
	case "ipt.list":
		c := t.Chains[chain]
		if c == nil {
			return kresp(&kErr{1, msgNoChain})
		}
		var out []string
		if c.Builtin {
			out = append(out, "-P "+chain+" "+c.Policy)
		} else {
			out = append(out, "-N "+chain)
		}
		for _, r := range c.Rules {
			out = append(out, "-A "+chain+" "+r.text())
		}
		return core.Resp{A: out}
	case "ipt.ensurerule":
		// A = table, chain, position, rule...
		pos := arg(2)
		spec = r.A[3:]
		i, e := tblFind(t, chain, spec)
		if e == nil && i >= 0 {
			return core.Resp{Msg: "existed"}
		}
		// -C on a missing chain exits 1 like a missing rule; the append then fails
		e = tblAppend(t, chain, spec, pos == "-I")
		if e != nil {
			k.reject("missing-chain-or-target")
			return core.Resp{Code: e.Status, Msg: e.Msg, A: []string{"append"}}
		}
		k.Muts++
		return core.Resp{}
	case "ipt.deleterule":
		i, e := tblFind(t, chain, spec)
		if e != nil || i < 0 {
			return core.Resp{Msg: "absent"} // -C exit status 1: nothing to delete
		}
		e = tblDeleteRule(t, chain, spec)
		if e == nil {
			k.Muts++
		}
		return kresp(e)
	}
	return core.Resp{Code: 2, Msg: "w2 kernel: unknown op " + r.Op}
}
