package w2

// Container runtime model, GC rounds and the oracles of C17.
//
// Safety (event oracle): a file removal or a port-clean (iptables mutation) performed by a GC task is allowed
// only if the task's most recent inspect was for the container the state belongs to, that inspect was answered
// (no injected error, runtime reachable), and at the step of the removal the runtime, asked without fault,
// reports the container absent / exited / dead (containerd: absent / sandbox not ready). A port mapping that a
// running container of a pod currently relies on must never disappear through a GC task.
// Liveness (quiescent): after faults stop, two GC rounds remove every state file, IP file and port mapping of
// every container the runtime reports dead.

import (
	"encoding/json"
	"fmt"
	"strings"

	"google.golang.org/grpc/codes"
	"tkestack.io/galaxy/verifsim/core"
)

type gcTaskState struct {
	which    string
	round    int
	cid      string // container of the most recent inspect
	asked    bool
	answered bool // the most recent inspect got an answer from the runtime
	lastRead map[string]string // ip file path -> container id it named when this task read it
}

func dockerDead(state string) bool { return state == "absent" || state == "exited" || state == "dead" }

// resolveID: container runtimes accept a unique prefix of an id (the host veth names carry only nine characters).
func (w *World) resolveID(id string) string {
	if id == "" || w.byID[id] != nil || w.leftovers[id] != nil {
		return id
	}
	var found []string
	for _, k := range sortedKeys(w.byID) {
		if strings.HasPrefix(k, id) {
			found = append(found, k)
		}
	}
	for _, k := range sortedKeys(w.leftovers) {
		if strings.HasPrefix(k, id) {
			found = append(found, k)
		}
	}
	if len(found) == 1 {
		return found[0]
	}
	return id
}

// runtimeState returns the runtime's truth about an id: state ("absent" if unknown), pod namespace and name.
func (w *World) runtimeState(id string) (state, ns, name string) {
	id = w.resolveID(id)
	if c := w.byID[id]; c != nil {
		return c.State, c.Pod.NS, c.Pod.Name
	}
	if lo := w.leftovers[id]; lo != nil {
		return lo.State, lo.PodNS, lo.PodName
	}
	return "absent", "", ""
}

// criState maps a docker-style state onto what the CRI reports for a sandbox.
func criState(state string) string {
	switch state {
	case "absent":
		return "absent"
	case "exited", "dead", "notready":
		return "notready"
	}
	return "ready"
}

// podRunsContainers: does the pod (API truth) report a container that is waiting or running?
func (w *World) podRunsContainers(ns, name string) bool {
	o := w.K.Get("pods", ns, name)
	if o == nil {
		return false
	}
	var p struct {
		Status struct {
			ContainerStatuses []struct {
				State struct {
					Waiting *struct{} `json:"waiting"`
					Running *struct{} `json:"running"`
				} `json:"state"`
			} `json:"containerStatuses"`
		} `json:"status"`
	}
	_ = json.Unmarshal(o.JSON, &p)
	for _, cs := range p.Status.ContainerStatuses {
		if cs.State.Waiting != nil || cs.State.Running != nil {
			return true
		}
	}
	return false
}

// truthDead: may the state of this container be collected now? docker: the runtime, asked without fault, reports it
// gone, exited or dead. containerd: the sandbox is gone, or it is not ready and the pod reports no waiting or running
// container ("never for a running one": containers of a pod live in the sandbox's network namespace).
func (w *World) truthDead(id string) bool {
	st, ns, name := w.runtimeState(id)
	if !w.cfg.Containerd {
		return dockerDead(st)
	}
	switch criState(st) {
	case "absent":
		return true
	case "notready":
		return !w.podRunsContainers(ns, name)
	}
	return false
}

// mustBeCleaned: the liveness obligation is the same predicate: what may be collected must be collected within the
// bounded number of rounds. A not-ready sandbox whose pod still runs containers is kept on purpose; the obligation
// starts when the runtime has removed the sandbox or the pod's containers have stopped.
func (w *World) mustBeCleaned(id string) bool { return w.truthDead(id) }

func (w *World) handleRuntime(t *core.Task, r *core.Req) core.Resp {
	id := r.A[0]
	st := w.gcState[t]
	if st != nil {
		st.cid, st.asked, st.answered = id, true, false
	}
	w.S.Stat("runtime.inspect")
	containerd := r.Op == "cri.status"
	rtName := "docker"
	if containerd {
		rtName = "containerd"
	}
	failedFor := func() {
		if st != nil {
			w.S.Stat("probe.inspect-failed." + st.which + "." + rtName)
		}
	}
	if w.faultsOn && w.rtDownLeft > 0 {
		w.rtDownLeft--
		failedFor()
		w.S.Stat("fault.runtime.down.inspect")
		if containerd {
			return core.Resp{Code: int(codes.Unavailable)}
		}
		return core.Resp{Code: 503}
	}
	if w.faultsOn && w.rtRate > 0 && w.C.Prob(w.rtRate, 1000) {
		failedFor()
		w.S.Stat("fault.runtime.err")
		w.S.Sig("F:rt.err")
		w.unscripted++
		if containerd {
			return core.Resp{Code: []int{int(codes.Unknown), int(codes.DeadlineExceeded), -2}[w.C.Choose(3)], Msg: "simulated runtime error"}
		}
		return core.Resp{Code: 500, Msg: "simulated docker daemon error"}
	}
	if st != nil {
		st.answered = true
	}
	state, ns, name := w.runtimeState(id)
	w.S.Logf("inspect %-24s %s -> %s", t.Name, short(id), state)
	if containerd {
		cs := criState(state)
		if cs == "absent" {
			return core.Resp{Code: int(codes.NotFound)}
		}
		return core.Resp{A: []string{cs, name, ns}}
	}
	if state == "absent" {
		return core.Resp{Code: 404}
	}
	body := fmt.Sprintf(`{"Id":%q,"Name":"/k8s_POD_%s_%s","State":{"Status":%q,"Running":%v,"Dead":%v}}`, id, name, ns, state, state == "running", state == "dead")
	return core.Resp{B: []byte(body)}
}

// ---- state changes ---------------------------------------------------------------------------------------------

func (w *World) deadState() string {
	if w.cfg.Containerd {
		return "notready"
	}
	return pick(w.C, []string{"exited", "exited", "dead"})
}

func (w *World) setState(c *Container, st string) {
	if c.State == st {
		return
	}
	c.State = st
	w.S.Stat("op.state." + st)
	if st != "absent" && w.C.Prob(1, 2) {
		// kubelet reports the pod's containers as terminated; otherwise they stay waiting/running (status lag, or the
		// containers are restarted in a replacement sandbox)
		w.setContainerStatus(c.Pod, "terminated")
	}
}

func (w *World) setContainerStatus(p *PodDef, state string) {
	w.K.Patch(nil, "pods", p.NS, p.Name, func(m map[string]interface{}) {
		st, _ := m["status"].(map[string]interface{})
		if st == nil {
			st = map[string]interface{}{}
			m["status"] = st
		}
		st["containerStatuses"] = []interface{}{map[string]interface{}{"name": "c", "state": map[string]interface{}{state: map[string]interface{}{}}}}
	})
}

// changeState advances the runtime state of some container (monotone: nothing comes back to life).
func (w *World) changeState() {
	type cand struct {
		set func(string)
		cur string
	}
	var cs []cand
	for _, c := range w.conts {
		c := c
		if c.State != "absent" {
			cs = append(cs, cand{func(s string) { w.setState(c, s) }, c.State})
		}
	}
	for _, id := range sortedKeys(w.leftovers) {
		lo := w.leftovers[id]
		if lo.State != "absent" {
			cs = append(cs, cand{func(s string) { lo.State = s; w.S.Stat("op.state." + s) }, lo.State})
		}
	}
	if len(cs) == 0 {
		return
	}
	x := cs[w.C.Choose(len(cs))]
	switch x.cur {
	case "running", "ready", "paused", "restarting", "created":
		x.set(w.deadState())
	default:
		x.set("absent")
	}
}

// ---- GC rounds -----------------------------------------------------------------------------------------------------

func (w *World) startGCRound() {
	if w.inst == nil || !w.ready || len(w.gcBusy) > 0 {
		return
	}
	w.gcRound++
	w.S.Stat("op.gc-round")
	inst := w.inst
	round := w.gcRound
	passes := []string{"ip", "dirs"}
	if w.phase >= 2 || w.C.Prob(1, 2) {
		passes = append(passes, "veth") // the real period of the veth collector is three times that of the others
	}
	for _, which := range passes {
		which := which
		t := w.S.Spawn(fmt.Sprintf("gc:%s#%d", which, round), w.proc, func() { gcTask(inst, which, round) })
		t.Tag = "gc"
		w.gcBusy[which] = t
		w.gcState[t] = &gcTaskState{which: which, round: round, lastRead: map[string]string{}}
	}
}

func (w *World) onGCDone(t *core.Task, which, errMsg string) {
	w.S.Stat("gc.pass-done")
}

func firstLine(data []byte) string {
	return strings.TrimSpace(strings.Split(string(data), "\n")[0])
}

func inDirs(p string, dirs []string) bool {
	i := strings.LastIndex(p, "/")
	if i <= 0 {
		return false
	}
	for _, d := range dirs {
		if p[:i] == d {
			return true
		}
	}
	return false
}

// gcReads is called (from the FS fault hook, before the operation) for every FS access of a GC task.
func (w *World) gcReads(t *core.Task, op, p string) {
	st := w.gcState[t]
	if st == nil || op != "fs.readfile" || !inDirs(p, ipDirs) {
		return
	}
	if data, ok := w.FS.Get(p); ok {
		st.lastRead[p] = firstLine(data)
	}
}

func (w *World) checkGCAction(t *core.Task, what, cid string) {
	st := w.gcState[t]
	if st == nil {
		return
	}
	state, _, _ := w.runtimeState(cid)
	switch {
	case !st.asked || st.cid != cid:
		w.fail("C17.safety", "removal-without-inspect", "GC task %s: %s of container %s, but its most recent inspect was for %q", t.Name, what, short(cid), short(st.cid))
	case !st.answered:
		w.fail("C17.safety", "removal-after-failed-inspect", "GC task %s: %s of container %s although the runtime could not be asked about it (inspect failed); runtime truth: %s", t.Name, what, short(cid), state)
	case !w.truthDead(cid):
		w.fail("C17.safety", "removal-for-live-container", "GC task %s: %s of container %s which the runtime reports as %s", t.Name, what, short(cid), state)
	default:
		w.S.Stat("probe.gc-removal")
	}
}

func short(id string) string {
	if len(id) > 12 {
		return id[:12]
	}
	return id
}

// onFSMutate observes applied file-system mutations.
func (w *World) onFSMutate(t *core.Task, op, p string) {
	switch op {
	case "create":
		w.halfWritten[p] = true
	case "write", "remove":
		delete(w.halfWritten, p)
	}
	if t == nil || t.Tag != "gc" || op != "remove" || !w.armed("C17") {
		return
	}
	switch {
	case inDirs(p, gcDirs):
		w.checkGCAction(t, "removal of "+p, p[strings.LastIndex(p, "/")+1:])
	case inDirs(p, ipDirs):
		st := w.gcState[t]
		cid, ok := st.lastRead[p]
		if !ok {
			w.fail("C17.safety", "removal-without-inspect", "GC task %s removed %s without having read which container it belongs to", t.Name, p)
			return
		}
		w.checkGCAction(t, "removal of "+p, cid)
	}
}

// oracleGCIpt is evaluated before a mutating iptables call of any task is applied (C17 only).
func (w *World) oracleGCIpt(t *core.Task, r *core.Req) {
	if t == nil || t.Tag != "gc" {
		return
	}
	st := w.gcState[t]
	if st == nil {
		return
	}
	w.checkGCAction(t, "port-clean ("+r.Op+")", st.cid)
	if w.S.Viol != nil {
		return
	}
	// would this call take away a mapping a running container relies on?
	before, _, _ := w.installed()
	snap := w.Kern.Tables["nat"].clone()
	resp := w.Kern.Handle(r)
	after, _, _ := w.installed()
	w.Kern.Tables["nat"] = snap // undo: the caller applies the call for real
	if resp.Code != 0 {
		return
	}
	have := multiset(mapStrings(after))
	for _, m := range before {
		if have[m.String()] > 0 {
			continue
		}
		for _, c := range w.conts {
			if c.Phase != "up" || w.truthDead(c.ID) {
				continue
			}
			for _, cm := range c.Mappings {
				if cm == m {
					w.fail("C17.safety", "live-port-mapping-removed", "GC task %s, cleaning the ports of dead container %s, removed the port mapping %s that running container %s of pod %s relies on", t.Name, short(st.cid), m, short(c.ID), c.Pod.key())
					return
				}
			}
		}
	}
}

// ---- liveness -------------------------------------------------------------------------------------------------------

func (w *World) oracleC17Liveness() {
	ids := map[string]bool{}
	for _, c := range w.conts {
		ids[c.ID] = true
	}
	for id := range w.leftovers {
		ids[id] = true
	}
	// also the names of files that are no container at all: the runtime reports them absent
	for _, d := range w.gcDirsCfg() {
		for _, n := range w.FS.List(d) {
			if !w.FS.IsDir(d + "/" + n) {
				ids[n] = true
			}
		}
	}
	ins, _, _ := w.installed()
	for _, id := range sortedKeys(ids) {
		if !w.mustBeCleaned(id) {
			continue
		}
		st, _, _ := w.runtimeState(id)
		for _, d := range w.gcDirsCfg() {
			if p := d + "/" + id; w.FS.Exists(p) && !w.FS.IsDir(p) {
				w.fail("C17.liveness", "state-file-left", "two fault-free GC rounds after faults stopped, %s of container %s (runtime: %s) still exists", p, short(id), st)
				return
			}
		}
		// gc_dirs without the port directory: the port file (and the mapping, below) is reached through the port-clean
		// callback of the container's other state files; it is owed for a container that had such a file and whose port
		// file held a readable port list
		reachable := w.portDirConfigured() || w.gcTriggered[id]
		if !w.portDirConfigured() && reachable && w.portValid[id] {
			if p := gcDirs[2] + "/" + id; w.FS.Exists(p) {
				w.fail("C17.liveness", "state-file-left", "two fault-free GC rounds after faults stopped, %s of container %s (runtime: %s) still exists (gc_dirs=%s)", p, short(id), st, w.cfg.GCDirsFlag)
				return
			}
		}
		for _, d := range ipDirs {
			for _, n := range w.FS.List(d) {
				if data, ok := w.FS.Get(d + "/" + n); ok && firstLine(data) == id {
					w.fail("C17.liveness", "ip-file-left", "two fault-free GC rounds after faults stopped, IP file %s/%s of container %s (runtime: %s) still exists", d, n, short(id), st)
					return
				}
			}
		}
		if c := w.byID[id]; c != nil && reachable && !c.resynced && (c.Abandoned || c.Phase == "up" || c.Phase == "delfailed") {
			for _, cm := range c.Mappings {
				for _, m := range ins {
					if m == cm && !w.liveUser(m, c) {
						w.fail("C17.liveness", "port-mapping-left", "two fault-free GC rounds after faults stopped, the port mapping %s of dead container %s (pod %s) is still installed", m, short(id), c.Pod.key())
						return
					}
				}
			}
		}
		w.S.Stat("probe.dead-container-clean")
	}
	if w.S.Viol == nil {
		w.oracleC17Links()
	}
}

// liveUser: the installed rule is that of another sandbox which the runtime does not report dead and which was given
// the very same mapping (same pod IP and a re-used host port): set up, or with a failed DEL that kubelet still has to
// retry. Rule text and chain name do not depend on the sandbox, so the rule cannot be told apart from the dead
// sandbox's; it is the living sandbox's to remove (by its DEL), not the collector's.
func (w *World) liveUser(m Mapping, not *Container) bool {
	for _, c := range w.conts {
		if c == not || (c.Phase != "up" && c.Phase != "delfailed") || w.truthDead(c.ID) {
			continue
		}
		for _, cm := range c.Mappings {
			if cm == m {
				return true
			}
		}
	}
	return false
}

// ---- end of run ---------------------------------------------------------------------------------------------------

// finalPhase drives the quiescence phase: faults are off and nothing is in flight when it is called.
func (w *World) finalPhase() bool {
	w.phase = 3
	if w.rtDownLeft > 0 {
		w.S.Stat("probe.runtime-outage-ends-before-final-rounds")
	}
	w.rtDownLeft = 0
	switch w.prop {
	case "C17":
		switch w.finalStage {
		case 0, 1:
			if w.finalStage == 0 {
				w.settleSandboxes()
				for _, d := range w.gcDirsCfg() {
					for _, n := range w.FS.List(d) {
						if !w.FS.IsDir(d + "/" + n) {
							w.gcTriggered[n] = true
						}
					}
				}
				for _, n := range w.FS.List(gcDirs[2]) {
					var ps []portJSON
					if data, ok := w.FS.Get(gcDirs[2] + "/" + n); ok && json.Unmarshal(data, &ps) == nil && len(ps) > 0 {
						w.portValid[n] = true
					}
				}
				if !w.portDirConfigured() {
					w.S.Stat("probe.gc-dirs-without-port-dir")
				}
			}
			w.finalStage++
			w.startGCRound()
			return true
		case 2:
			w.finalStage++
			w.oracleC17Liveness()
		}
	case "C18":
		// the follow-up: with the good configuration back, an ordinary request on the instance must still be answered
		switch w.finalStage {
		case 0:
			w.finalStage++
			if w.badConfig {
				w.restoreConfig()
				w.killDaemon(false)
				return true
			}
			fallthrough
		case 1:
			w.finalStage = 2
			p := w.cfg.Pods[0]
			w.made[p.Idx] = 50
			w.spawnRequest(w.newContainer(p), "ADD")
			return true
		case 2:
			w.finalStage++
			w.S.Stat("probe.follow-up-answered")
		}
	case "C14":
		// tear down what is still up, one pod at a time, then compare with the table before
		for _, c := range w.conts {
			if c.Busy == nil && (c.Phase == "up" || c.Phase == "addfailed" || c.Phase == "delfailed") && c.DelTries < 12 {
				w.spawnRequest(c, "DEL")
				return true
			}
		}
		if w.finalStage == 0 {
			w.finalStage++
			w.oracleC14Final()
		}
	}
	w.phase = 4
	return false
}

// settleSandboxes (containerd, before the final rounds): a dead sandbox that is not the pod's current one is
// eventually removed by the runtime (kubelet's sandbox GC), or kubelet reports the pod's containers as stopped;
// for part of the not-ready sandboxes whose pods still run containers one of the two happens now, the rest stay kept.
func (w *World) settleSandboxes() {
	if !w.cfg.Containerd {
		return
	}
	for _, c := range w.conts {
		if criState(c.State) == "notready" && w.podRunsContainers(c.Pod.NS, c.Pod.Name) && w.C.Prob(1, 2) {
			c.State = "absent"
			w.S.Stat("op.runtime-removes-dead-sandbox")
		}
	}
	for _, id := range sortedKeys(w.leftovers) {
		lo := w.leftovers[id]
		if criState(lo.State) == "notready" && w.podRunsContainers(lo.PodNS, lo.PodName) {
			w.S.Stat("probe.kept-sandbox-of-pod-with-running-containers")
			if w.C.Prob(1, 2) {
				lo.State = "absent"
				w.S.Stat("op.runtime-removes-dead-sandbox")
			}
		}
	}
}

// ---- host veth devices ------------------------------------------------------------------------------------------
//
// C17's statement lists files and port mappings; the collector of host veth devices (cleanupVeth) is extra
// behaviour of the same garbage collector and is judged by the same rule: a device "v-h<id>[-<x>]" of type veth is
// deleted only for a container that may be collected, never when the runtime could not be asked, nothing else is
// ever deleted, and the devices of dead containers disappear within the bounded number of (veth) passes.

func vethContainer(name, typ string) (cid string, ok bool) {
	if typ != "veth" || !strings.HasPrefix(name, "v-h") {
		return "", false
	}
	parts := strings.Split(name[3:], "-")
	if len(parts) > 2 {
		return "", false
	}
	return parts[0], true
}

func (w *World) linkFault(t *core.Task, name string) int {
	if w.faultsOn && w.nlRate > 0 && w.galaxyTask(t) && w.C.Prob(w.nlRate, 500) {
		w.S.Stat("fault.nl.linkdel.err")
		w.S.Sig("F:nl.err")
		w.unscripted++
		return 16 // EBUSY
	}
	return 0
}

func (w *World) onLinkDelete(t *core.Task, name, typ string) {
	if !w.armed("C17") || t == nil || !w.galaxyTask(t) {
		return
	}
	cid, ok := vethContainer(name, typ)
	if !ok {
		w.fail("C17.safety", "foreign-link-deleted", "GC task %s deleted the network device %s (type %s), which is not the host veth of any container", t.Name, name, typ)
		return
	}
	w.checkGCAction(t, "deletion of host veth "+name, cid)
	if w.S.Viol == nil {
		w.S.Stat("probe.gc-veth-removal")
	}
}

func (w *World) oracleC17Links() {
	for _, name := range w.Links.Names() {
		cid, ok := vethContainer(name, w.Links.Type(name))
		if !ok || !w.mustBeCleaned(cid) {
			continue
		}
		st, _, _ := w.runtimeState(cid)
		w.fail("C17.liveness", "veth-left", "two fault-free passes of the veth collector after faults stopped, the host veth %s of container %s (runtime: %s) still exists", name, cid, st)
		return
	}
}
