package w2

// Oracles of C14 (sequential histories): inverse law of setup + cleanup, exactness of the start-time full
// synchronisation, foreign rules untouched, host ports distinct and held until DEL, no socket after a failed
// setup. "Foreign" is every chain other than KUBE-HOSTPORTS, KUBE-HP-* and KUBE-MARK-MASQ (which galaxy
// rewrites on every setup by design); inside foreign (built-in) chains galaxy may add its own jump rules to
// KUBE-HOSTPORTS.

import (
	"fmt"
	"sort"
	"strconv"
	"strings"

	"tkestack.io/galaxy/verifsim/core"
	"tkestack.io/galaxy/verifsim/dropin/simnet"
)

const (
	chHostports = "KUBE-HOSTPORTS"
	chMarkMasq  = "KUBE-MARK-MASQ"
	hpPrefix    = "KUBE-HP-"
)

func multiset(lines []string) map[string]int {
	m := map[string]int{}
	for _, l := range lines {
		m[l]++
	}
	return m
}

// lineChain returns the chain a line belongs to and, for a rule, its jump target.
func lineChain(l string) (chain, target string) {
	f := strings.Fields(l)
	if len(f) < 2 {
		return "", ""
	}
	chain = f[1]
	for i := 2; i+1 < len(f); i++ {
		if f[i] == "-j" {
			target = f[i+1]
		}
	}
	return
}

func galaxyChain(ch string) bool {
	return ch == chHostports || ch == chMarkMasq || strings.HasPrefix(ch, hpPrefix)
}

// excluded: lines galaxy owns collectively rather than per pod.
func excludedLine(l string) bool {
	ch, tg := lineChain(l)
	if ch == chMarkMasq {
		return true
	}
	if l == "C "+chHostports {
		return true
	}
	if !galaxyChain(ch) && tg == chHostports {
		return true
	}
	return false
}

func diffLines(before, after []string) (removed, added []string) {
	ra, rb := multiset(after), multiset(before)
	for _, l := range before {
		if ra[l] > 0 {
			ra[l]--
		} else {
			removed = append(removed, l)
		}
	}
	for _, l := range after {
		if rb[l] > 0 {
			rb[l]--
		} else {
			added = append(added, l)
		}
	}
	return
}

// mine: the line belongs to a chain that appeared while a sandbox of this pod was being set up, or is the
// KUBE-HOSTPORTS rule that jumps to such a chain.
func (w *World) mine(c *Container, l string) bool {
	chains := w.podChains[c.Pod.Idx]
	ch, tg := lineChain(l)
	if chains[ch] {
		return true
	}
	return ch == chHostports && chains[tg]
}

// podQuiet: no other sandbox of the pod is set up or has a request in flight.
func (w *World) podQuiet(c *Container) bool {
	for _, x := range w.conts {
		if x == c || x.Pod != c.Pod {
			continue
		}
		if x.Busy != nil || x.Phase == "up" || x.Phase == "addfailed" || x.Phase == "delfailed" {
			return false
		}
	}
	return true
}

func tokAfter(toks []string, opt string) string {
	for i := 0; i+1 < len(toks); i++ {
		if toks[i] == opt {
			return toks[i+1]
		}
	}
	return ""
}

// installed parses the mappings the NAT table implements: each KUBE-HOSTPORTS rule and the DNAT of its chain.
func (w *World) installed() (ms []Mapping, chains map[string]int, problems []string) {
	t := w.Kern.Tables["nat"]
	chains = map[string]int{}
	hp := t.Chains[chHostports]
	if hp == nil {
		return
	}
	for _, r := range hp.Rules {
		tg := r.target()
		m := Mapping{Proto: tokAfter(r.Tok, "-p"), HostIP: strings.TrimSuffix(tokAfter(r.Tok, "-d"), "/32")}
		m.HostPort, _ = strconv.Atoi(tokAfter(r.Tok, "--dport"))
		chains[tg]++
		c := t.Chains[tg]
		if c == nil || !strings.HasPrefix(tg, hpPrefix) {
			problems = append(problems, "KUBE-HOSTPORTS rule jumps to "+tg)
			continue
		}
		found := false
		for _, cr := range c.Rules {
			if cr.target() == "DNAT" {
				dst := tokAfter(cr.Tok, "--to-destination")
				if i := strings.LastIndex(dst, ":"); i > 0 {
					m.PodIP = dst[:i]
					m.ContainerPort, _ = strconv.Atoi(dst[i+1:])
					found = true
				}
			}
		}
		if !found {
			problems = append(problems, "chain "+tg+" has no DNAT rule")
		}
		ms = append(ms, m)
	}
	for _, n := range t.chainNames() {
		if strings.HasPrefix(n, hpPrefix) && chains[n] != 1 {
			problems = append(problems, fmt.Sprintf("chain %s is referenced by %d KUBE-HOSTPORTS rules", n, chains[n]))
		}
	}
	return
}

func mapStrings(ms []Mapping) []string {
	var out []string
	for _, m := range ms {
		out = append(out, m.String())
	}
	sort.Strings(out)
	return out
}

func (w *World) heldByGalaxy(m Mapping) bool {
	s := w.Net.Bound(m.Proto, m.HostPort)
	return s != nil && s.Proc == w.proc
}

// checkHeld: every port handed out to a pod that is up stays bound by the daemon, and no port is handed twice.
func (w *World) checkHeld(when string) {
	seen := map[string]*Container{}
	for _, c := range w.conts {
		if c.Phase != "up" && c.Phase != "delfailed" {
			continue
		}
		if c.Busy != nil && c.Busy.Cmd == "DEL" {
			continue // being torn down
		}
		for _, m := range c.Mappings {
			k := fmt.Sprintf("%s/%d", m.Proto, m.HostPort)
			if other, dup := seen[k]; dup && other.Pod != c.Pod {
				if other.Phase == "delfailed" || c.Phase == "delfailed" {
					half := other
					if c.Phase == "delfailed" {
						half = c
					}
					w.fail("C14.ports", "port-reused-while-del-incomplete", "%s: host port %s is handed out to %s and to %s: the DEL of pod %s failed after the daemon had closed the port but before it removed the pod's rules, so the kernel gave the port to the other pod while the first pod's DNAT rules are still installed", when, k, other.Pod.key(), c.Pod.key(), half.Pod.key())
				} else {
					w.fail("C14.ports", "port-handed-twice", "%s: host port %s is handed out to %s and to %s", when, k, other.Pod.key(), c.Pod.key())
				}
				return
			}
			seen[k] = c
			if c.Lost[k] {
				continue // another process took it while the daemon was down: nothing the daemon can do (documented in setupIPtables)
			}
			if c.Phase == "up" && c.UpProc == w.proc && !w.heldByGalaxy(m) {
				w.fail("C14.ports", "port-not-held", "%s: host port %s handed out to pod %s (container %s) is not bound by the daemon although the pod has not been torn down", when, k, c.Pod.key(), c.ID[:8])
				return
			}
		}
	}
}

func (w *World) oracleC14RequestEnd(r *Request) {
	c := r.C
	ok := r.Code == 200
	who := fmt.Sprintf("pod %s container %s request %s %s", c.Pod.key(), c.ID[:8], r.ID, r.Cmd)
	after := w.Kern.Lines("nat")
	removed, added := diffLines(r.before, after)
	if w.podChains[c.Pod.Idx] == nil {
		w.podChains[c.Pod.Idx] = map[string]bool{}
	}
	if r.Cmd == "ADD" || r.overlap {
		// with an overlapping request of the same pod the two deltas cannot be told apart: the chains that appeared
		// are the pod's
		for _, l := range added {
			if ch, _ := lineChain(l); strings.HasPrefix(l, "C ") && strings.HasPrefix(ch, hpPrefix) {
				w.podChains[c.Pod.Idx][ch] = true
			}
		}
	}
	for _, l := range removed {
		if excludedLine(l) || w.mine(c, l) {
			continue
		}
		key := "setup-touched-other"
		if r.Cmd == "DEL" {
			key = "cleanup-touched-other"
		}
		w.fail("C14.inverse", key, "%s removed a NAT line that is not this pod's: %q", who, l)
		return
	}
	for _, l := range added {
		if excludedLine(l) || w.mine(c, l) {
			continue
		}
		w.fail("C14.inverse", "added-outside-own-chains", "%s added a NAT line outside this pod's chains: %q", who, l)
		return
	}
	// foreign chains and rules are the same, in the same order, after every single request (not only after full syncs)
	if fb, fa := foreignView(r.before), foreignView(after); strings.Join(fb, "\n") != strings.Join(fa, "\n") {
		rem, add := diffLines(fb, fa)
		w.fail("C14.inverse", "foreign-touched-by-request", "%s changed foreign chains/rules (removed %q, added %q, or their order)", who, rem, add)
		return
	}
	// sockets
	if r.Cmd == "ADD" && !ok {
		// which step of the port-mapping setup failed (each must leave no port open)
		for _, fp := range [][2]string{{"cannot open hostport", "open-port"}, {"failed to save ports", "save-port-file"}, {"failed to setup port mapping", "install-rules"}, {"failed to update pod", "write-back-annotation"}} {
			if strings.Contains(string(r.Resp), fp[0]) {
				w.S.Stat("probe.failed-setup-at." + fp[1])
			}
		}
		for _, s := range w.Net.Sockets() {
			if s.Opener == r.ID {
				w.fail("C14.ports", "socket-left-after-failed-setup", "%s failed (%s) but the daemon still holds %s/%d opened by it", who, strings.TrimSpace(string(r.Resp)), s.Proto, s.Port)
				return
			}
		}
	}
	if r.Cmd == "ADD" && ok && !r.overlap {
		ins, _, _ := w.installed()
		have := multiset(mapStrings(ins))
		for _, m := range c.Mappings {
			if have[m.String()] == 0 {
				w.fail("C14.inverse", "mapping-not-installed", "%s succeeded but the NAT table does not implement %s (installed: %v)", who, m, mapStrings(ins))
				return
			}
		}
		if len(c.Mappings) > 0 {
			w.S.Stat("probe.portmapping-setup")
		}
	}
	if r.Cmd == "DEL" && ok && w.podQuiet(c) {
		// the pod is torn down: nothing of it may be left, neither rules nor sockets
		left := multiset(nil)
		for _, l := range after {
			if w.mine(c, l) && !excludedLine(l) {
				left[l]++
			}
		}
		for _, l := range sortedKeys(left) {
			if left[l] > w.podBase[c.Pod.Idx][l] {
				w.fail("C14.inverse", "leftover-after-cleanup", "%s succeeded and no other sandbox of the pod exists, but the NAT table still holds this pod's %q", who, l)
				return
			}
		}
		for _, s := range w.Net.Sockets() {
			if s.Proc != w.proc || w.sockPod(s) != c.Pod.Idx {
				continue
			}
			if by := w.overwrittenBy(s); by != "" {
				w.fail("C14.ports", "socket-of-earlier-sandbox-left", "%s succeeded and no sandbox of the pod is left, but the daemon still holds %s/%d (opened by %s): while it was open the ADD %s of another sandbox of the same pod registered its own ports under the pod's name, after which nothing tracked this socket", who, s.Proto, s.Port, s.Opener, by)
			} else {
				w.fail("C14.ports", "socket-left-after-own-del", "%s succeeded and no sandbox of the pod is left, but the daemon still holds %s/%d (opened by %s) although no other sandbox of the pod registered ports after it: the port is bound and nothing tracks it any more", who, s.Proto, s.Port, s.Opener)
			}
			return
		}
		if len(w.podChains[c.Pod.Idx]) > 0 {
			w.S.Stat("probe.portmapping-cleanup")
		}
	}
	if !ok && !r.fault && !c.Tainted && !r.inUse && !r.overlap && !r.badResult && !c.Pod.ExpectFail && !w.podEdited[c.Pod.Idx] {
		if r.Cmd == "DEL" {
			w.fail("C14.inverse", "cleanup-fails-without-fault", "%s failed although no fault was injected: %s", who, strings.TrimSpace(string(r.Resp)))
		} else {
			w.fail("C14.inverse", "setup-fails-without-cause", "%s failed although no fault was injected and no port was in use: %s", who, strings.TrimSpace(string(r.Resp)))
		}
		return
	}
	w.checkHeld("after " + who)
}

// onSockClose is evaluated at the instant the daemon closes a socket: a host port handed out to a sandbox that is
// up must not be released by a request that serves another sandbox.
func (w *World) onSockClose(s *simnet.Socket, t *core.Task) {
	if !w.armed("C14") {
		return
	}
	or, cr := w.reqs[s.Opener], reqOf(t)
	if cr == nil {
		return
	}
	var x *Container
	if or != nil {
		x = or.C
	} else {
		// re-opened by the start-up code after a restart: it belongs to the sandbox that was given this port
		for _, c := range w.conts {
			for _, m := range c.Mappings {
				if c.Phase == "up" && m.Proto == s.Proto && m.HostPort == s.Port {
					x = c
				}
			}
		}
	}
	if x == nil || x == cr.C {
		return
	}
	if x.Busy != nil && x.Busy.Cmd == "DEL" {
		return // its teardown has begun: the obligation to hold its ports is over
	}
	if x.Phase == "up" || (or != nil && x.Busy == or && or.Cmd == "ADD") {
		w.fail("C14.ports", "port-released-by-request-for-other-sandbox", "request %s %s for container %s (pod %s) closed host port %s/%d, which the daemon had opened for container %s (pod %s, %s) and which has not been torn down",
			cr.ID, cr.Cmd, short(cr.C.ID), cr.C.Pod.key(), s.Proto, s.Port, short(x.ID), x.Pod.key(), x.Phase)
	}
}

// expectedFromAPI: the ports a full synchronisation is given are those of the pods of this node that have an IP.
func (w *World) expectedFromAPI() []Mapping {
	var out []Mapping
	for _, o := range w.K.List("pods", "") {
		pt, ms := mappingsOf(o.JSON)
		if pt.Spec.NodeName != nodeName || pt.Status.PodIP == "" || pt.Spec.HostNetwork {
			continue
		}
		out = append(out, ms...)
	}
	return out
}

func foreignView(lines []string) []string {
	var out []string
	for _, l := range lines {
		ch, tg := lineChain(l)
		if galaxyChain(ch) || tg == chHostports {
			continue
		}
		out = append(out, l)
	}
	return out
}

func (w *World) oracleC14Ready() {
	after := w.Kern.Lines("nat")
	exp := mapStrings(w.expectedFromAPI())
	ins, _, problems := w.installed()
	got := mapStrings(ins)
	if strings.Join(exp, "|") != strings.Join(got, "|") {
		w.fail("C14.full-sync", "full-sync-inexact", "after the start-time synchronisation the NAT table implements %v, the ports of the node's pods are %v", got, exp)
		return
	}
	if len(problems) > 0 {
		w.fail("C14.full-sync", "stale-chain-left", "after the start-time synchronisation: %s", strings.Join(problems, "; "))
		return
	}
	fb, fa := foreignView(w.preStart), foreignView(after)
	if strings.Join(fb, "\n") != strings.Join(fa, "\n") {
		removed, added := diffLines(fb, fa)
		w.fail("C14.full-sync", "foreign-touched", "the start-time synchronisation changed foreign chains/rules: removed %q added %q", removed, added)
		return
	}
	w.syncOK++
	w.S.Stat("probe.full-sync")
	if strings.Contains(strings.Join(w.preStart, "\n"), "C "+hpPrefix) {
		w.S.Stat("probe.full-sync-with-prior-hp-chains")
	}
	if w.baseNAT == nil {
		w.baseNAT = after
	}
	// ports of the pods that are up are held again
	for _, c := range w.conts {
		if c.Phase != "up" {
			continue
		}
		for _, m := range c.Mappings {
			if c.Lost[fmt.Sprintf("%s/%d", m.Proto, m.HostPort)] {
				w.S.Stat("probe.start-with-port-taken-by-other-process")
				continue
			}
			if !w.heldByGalaxy(m) {
				if len(c.Lost) > 0 {
					w.fail("C14.ports", "sibling-port-not-reopened", "after a restart host port %s/%d of pod %s is not bound by the daemon although no other process holds it: another port of the same pod (%v) was taken by another process while the daemon was down, and the start-up code then gave up all ports of the pod", m.Proto, m.HostPort, c.Pod.key(), sortedKeys(c.Lost))
				} else {
					w.fail("C14.ports", "port-not-reopened", "after a restart host port %s/%d of pod %s is not bound by the daemon although no other process holds it", m.Proto, m.HostPort, c.Pod.key())
				}
				return
			}
		}
	}
}

// oracleC14Final: once every pod has been torn down successfully the NAT table is the one the first
// synchronisation left (KUBE-MARK-MASQ and galaxy's jump rules aside).
func (w *World) oracleC14Final() {
	for _, c := range w.conts {
		if c.Phase == "up" || c.Phase == "addfailed" || c.Phase == "delfailed" || c.Busy != nil {
			return
		}
	}
	if w.baseNAT == nil {
		return
	}
	var fb, fa []string
	for _, l := range w.baseNAT {
		if !excludedLine(l) {
			fb = append(fb, l)
		}
	}
	for _, l := range w.Kern.Lines("nat") {
		if !excludedLine(l) {
			fa = append(fa, l)
		}
	}
	for _, s := range w.Net.Sockets() {
		if s.Proc != w.proc {
			continue
		}
		if by := w.overwrittenBy(s); by != "" {
			w.fail("C14.ports", "socket-of-earlier-sandbox-left", "every pod has been torn down but the daemon still holds %s/%d (opened by %s): while it was open the ADD %s of another sandbox of the same pod registered its own ports under the pod's name, after which nothing tracked this socket", s.Proto, s.Port, s.Opener, by)
		} else {
			w.fail("C14.ports", "socket-left-after-final-teardown", "every pod has been torn down but the daemon still holds %s/%d (opened by %s)", s.Proto, s.Port, s.Opener)
		}
		return
	}
	removed, added := diffLines(fb, fa)
	if len(removed)+len(added) > 0 {
		w.fail("C14.inverse", "final-table-differs", "every pod was set up and torn down again, but the NAT table differs from the one before: removed %q added %q", removed, added)
		return
	}
	w.S.Stat("probe.final-table-equal")
}

// sockPod: the pod a socket of the daemon was opened for (-1 = unknown).
func (w *World) sockPod(s *simnet.Socket) int {
	if or := w.reqs[s.Opener]; or != nil {
		return or.C.Pod.Idx
	}
	if p, ok := w.portPod[fmt.Sprintf("%s/%d", s.Proto, s.Port)]; ok {
		return p // re-opened by the start-up code for the pod that had been given this port
	}
	return -1
}

// overwrittenBy: the ADD request of another sandbox of the same pod that opened ports while s was open ("" = none).
func (w *World) overwrittenBy(s *simnet.Socket) string {
	pod := w.sockPod(s)
	if pod < 0 {
		return ""
	}
	own := w.reqs[s.Opener]
	for _, o := range w.podOpens[pod] {
		if o.step > s.Step && (own == nil || o.req.C != own.C) {
			return o.req.ID
		}
	}
	return ""
}

type openEvent struct {
	step int
	req  *Request
}

func (w *World) onSockOpen(s *simnet.Socket) {
	if or := w.reqs[s.Opener]; or != nil && or.Cmd == "ADD" {
		w.podOpens[or.C.Pod.Idx] = append(w.podOpens[or.C.Pod.Idx], openEvent{s.Step, or})
	}
}
