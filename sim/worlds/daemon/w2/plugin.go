package w2

// The fake CNI plugin runtime (scheduler side). It records what each invocation presented to the plugin,
// fails invocations as scripted per (container, interface, command, attempt), answers ADD with a result in the
// version of the configuration, decodes ipinfos arguments with the plugins' own decoder (cni/ipam.Allocate),
// and, like the real flannel/host-local plugins, leaves per-container files behind for the GC world.

import (
	"encoding/json"
	"fmt"
	"path"
	"strings"

	"github.com/containernetworking/cni/pkg/skel"
	"github.com/containernetworking/cni/pkg/types"
	t020 "github.com/containernetworking/cni/pkg/types/020"
	"tkestack.io/galaxy/cni/ipam"
	"tkestack.io/galaxy/verifsim/core"
)

// DecodedIP is one IP as the plugin-side decoder sees it.
type DecodedIP struct {
	Address   string `json:"address"`
	PrefixLen int    `json:"prefix_len"`
	Gateway   string `json:"gateway"`
	Vlan      uint16 `json:"vlan"`
}

// decodeArgs runs the plugins' real argument decoder over CNI_ARGS. ok=false: no ipinfos in the arguments.
func decodeArgs(args string, stdin []byte) (out []DecodedIP, ok bool, err error) {
	if !strings.Contains(args, "ipinfos=") {
		return nil, false, nil
	}
	// a panic of the decoder is a crashed plugin process: the runtime sees a failed plugin, nothing more
	defer func() {
		if r := recover(); r != nil {
			out, ok, err = nil, true, fmt.Errorf("plugin crashed: panic in cni/ipam.Allocate: %v", r)
		}
	}()
	// like galaxy's plugins, the decoder is given the ipam type of the network configuration (the fallback when the
	// arguments carry no ipinfos)
	var nc struct {
		IPAM struct {
			Type string `json:"type"`
		} `json:"ipam"`
	}
	_ = json.Unmarshal(stdin, &nc)
	vlans, results, err := ipam.Allocate(nc.IPAM.Type, &skel.CmdArgs{Args: args, StdinData: stdin})
	if err != nil {
		return nil, true, err
	}
	for i, r := range results {
		var res *t020.Result
		if x, isT := r.(*t020.Result); isT {
			res = x
		} else if conv, cerr := t020.GetResult(types.Result(r)); cerr == nil {
			res = conv
		}
		if res == nil || res.IP4 == nil {
			return nil, true, fmt.Errorf("decoder returned a result without IPv4 data")
		}
		ones, _ := res.IP4.IP.Mask.Size()
		d := DecodedIP{Address: res.IP4.IP.IP.String(), PrefixLen: ones, Gateway: res.IP4.Gateway.String(), Vlan: vlans[i]}
		out = append(out, d)
	}
	return out, true, nil
}

// scripted decides a plugin failure from the run's script seed only, so that a solo re-execution of the same
// container sees the same outcomes.
func (w *World) scripted(cid, ifname, cmd string, attempt int) bool {
	rate := w.cfg.AddFailRate
	if cmd == "DEL" {
		rate = w.cfg.DelFailRate
	}
	if rate == 0 {
		return false
	}
	h := core.Mix(w.cfg.ScriptSeed, strSum(cid), strSum(ifname), strSum(cmd), uint64(attempt))
	return int(h%1000) < rate
}

func strSum(s string) uint64 {
	var h uint64 = 14695981039346656037
	for i := 0; i < len(s); i++ {
		h ^= uint64(s[i])
		h *= 1099511628211
	}
	return h
}

func (w *World) resultJSON(version, ip, gw string, plen int, ifname, netns string) []byte {
	switch version {
	case "", "0.1.0", "0.2.0":
		v := version
		if v == "" {
			v = "0.2.0"
		}
		return []byte(fmt.Sprintf(`{"cniVersion":%q,"ip4":{"ip":"%s/%d","gateway":%q,"routes":[{"dst":"0.0.0.0/0"}]},"dns":{}}`, v, ip, plen, gw))
	}
	return []byte(fmt.Sprintf(`{"cniVersion":%q,"interfaces":[{"name":%q,"sandbox":%q}],"ips":[{"version":"4","interface":0,"address":"%s/%d","gateway":%q}],"routes":[{"dst":"0.0.0.0/0"}],"dns":{}}`,
		version, ifname, netns, ip, plen, gw))
}

// badResultJSON: a syntactically valid plugin result without a usable IPv4 address.
func badResultJSON(version string, kind int) []byte {
	old := version == "" || version == "0.1.0" || version == "0.2.0"
	v := version
	if v == "" {
		v = "0.2.0"
	}
	switch kind {
	case 0:
		if old {
			return []byte(fmt.Sprintf(`{"cniVersion":%q,"dns":{}}`, v))
		}
		return []byte(fmt.Sprintf(`{"cniVersion":%q,"ips":[{"version":"6","address":"fd00::2/64"}],"dns":{}}`, v))
	case 1:
		if old {
			return []byte(fmt.Sprintf(`{"cniVersion":%q,"ip4":{"ip":"fd00::2/64"},"dns":{}}`, v))
		}
		return []byte(fmt.Sprintf(`{"cniVersion":%q,"ips":[{"version":"4","address":"fd00::2/64"}],"dns":{}}`, v))
	case 2:
		return []byte(`null`)
	}
	if old {
		return []byte(fmt.Sprintf(`{"cniVersion":%q,"ip6":{"ip":"fd00::2/64"},"dns":{}}`, v))
	}
	return []byte(fmt.Sprintf(`{"cniVersion":%q,"ips":[{"version":"5","address":"10.0.0.2/24"}],"dns":{}}`, v))
}

func (w *World) handleCNI(t *core.Task, r *core.Req) core.Resp {
	switch r.Op {
	case "cni.find":
		plugin := r.A[0]
		for _, dir := range r.A[1:] {
			if dir == "" {
				continue
			}
			p := path.Join(dir, plugin)
			if _, ok := w.FS.Get(p); ok {
				return core.Resp{Msg: p}
			}
		}
		w.S.Stat("probe.plugin-not-found")
		return core.Resp{Code: 1}
	case "cni.exec":
		inv := &Invocation{Cmd: r.A[0], Container: r.A[1], Netns: r.A[2], IfName: r.A[3], Args: r.A[4], Path: r.A[5], Plugin: r.A[6], Stdin: append([]byte(nil), r.B...)}
		rq := reqOf(t)
		if rq != nil {
			inv.Req = rq.ID
		}
		c := w.byID[inv.Container]
		key := inv.Container + "|" + inv.IfName + "|" + inv.Cmd
		w.attempts[key]++
		inv.Failed = w.scripted(inv.Container, inv.IfName, inv.Cmd, w.attempts[key])
		if c != nil {
			c.Invs = append(c.Invs, inv)
		}
		if rq != nil {
			rq.invoked++
			if inv.Failed {
				rq.pluginFailed = true
			}
		}
		w.S.Stat("plugin." + strings.ToLower(inv.Cmd))
		if w.S.TraceOn {
			w.S.Logf("plugin %s %s if=%s fail=%v stdin=%s", inv.Cmd, path.Base(inv.Plugin), inv.IfName, inv.Failed, inv.Stdin)
		}
		if w.armed("C12") && c != nil && rq != nil {
			w.oracleC12Invocation(rq, inv)
		}
		if inv.Failed {
			if inv.Cmd == "ADD" {
				w.S.Stat("fault.cni.add.err")
			} else {
				w.S.Stat("fault.cni.del.err")
			}
			w.S.Sig("F:cni." + strings.ToLower(inv.Cmd))
			return core.Resp{Code: 1, Msg: "11", A: []string{fmt.Sprintf("simulated failure of %s %s on %s", inv.Cmd, path.Base(inv.Plugin), inv.IfName)}}
		}
		if inv.Cmd != "ADD" {
			if c != nil {
				w.pluginFiles(c, inv, false)
			}
			return core.Resp{}
		}
		var conf struct {
			CNIVersion string `json:"cniVersion"`
		}
		_ = json.Unmarshal(inv.Stdin, &conf)
		ip, gw, plen := "172.16.250.2", "172.16.250.1", 24
		if c != nil {
			ni := 7
			for i, e := range c.Pod.Expect {
				if e.IfName == inv.IfName {
					ni = i
					break
				}
			}
			ip = fmt.Sprintf("172.16.%d.%d", 10+c.Pod.Idx, 2+c.Seq*8+ni)
			gw = fmt.Sprintf("172.16.%d.1", 10+c.Pod.Idx)
		}
		dec, ok, err := decodeArgs(inv.Args, inv.Stdin)
		ci := C13Invocation{Plugin: path.Base(inv.Plugin), IfName: inv.IfName, HadIPInfos: ok, Decoded: dec}
		if err != nil {
			ci.Err = err.Error()
		}
		w.c13Invs = append(w.c13Invs, ci)
		if ok {
			if err != nil {
				if strings.Contains(err.Error(), "plugin crashed") {
					w.S.Stat("probe.plugin-decoder-panic")
				}
				return core.Resp{Code: 1, Msg: "100", A: []string{err.Error()}}
			}
			w.decoded = dec
			ip, gw, plen = dec[0].Address, dec[0].Gateway, dec[0].PrefixLen
		}
		if c != nil {
			w.pluginFiles(c, inv, true)
			c.lastIP = ip
		}
		if rq != nil {
			rq.badResult = false // what counts is the result of the last plugin
		}
		if w.cfg.BadResultRate > 0 {
			h := core.Mix(w.cfg.ScriptSeed, strSum(inv.Container), strSum(inv.IfName), 77, uint64(w.attempts[key]))
			if int(h%1000) < w.cfg.BadResultRate {
				// the plugin succeeds but prints a result galaxy cannot use
				inv.BadResult = true
				if rq != nil {
					rq.badResult = true
				}
				w.S.Stat("fault.cni.add.unusable-result")
				w.S.Sig("F:cni.badresult")
				return core.Resp{B: badResultJSON(conf.CNIVersion, int(h>>12)%4)}
			}
		}
		return core.Resp{B: w.resultJSON(conf.CNIVersion, ip, gw, plen, inv.IfName, inv.Netns)}
	}
	return core.Resp{Code: 400, Msg: "unknown op " + r.Op}
}

// pluginFiles mimics the state a flannel-style plugin keeps per container (only where the GC is under test).
func (w *World) pluginFiles(c *Container, inv *Invocation, add bool) {
	if !w.prof.GC && !w.prof.States {
		return
	}
	flannel := gcDirs[0] + "/" + c.ID
	// the host side veth of this interface, named as pkg/utils.HostVethName does (nine characters of the id)
	veth := "v-h" + c.ID[:9]
	if inv.IfName != kubeIf(c.Pod) {
		veth += "-" + strings.TrimPrefix(strings.TrimPrefix(inv.IfName, "eth"), "net")
	}
	if add {
		w.Links.Add(veth, "veth")
		w.FS.Put(flannel, []byte(`{"type":"galaxy-veth"}`))
		ip := fmt.Sprintf("172.16.%d.%d", 10+c.Pod.Idx, 2+c.Seq*8)
		w.FS.Put(ipDirs[1]+"/"+ip, []byte(c.ID+"\n"+inv.IfName))
		return
	}
	w.Links.Remove(veth)
	w.FS.Delete(flannel)
	for _, d := range ipDirs {
		for _, name := range w.FS.List(d) {
			if data, ok := w.FS.Get(d + "/" + name); ok && strings.HasPrefix(string(data), c.ID) {
				w.FS.Delete(d + "/" + name)
			}
		}
	}
}
