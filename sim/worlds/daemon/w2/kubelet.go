package w2

// The kubelet model: per pod a sequence of sandboxes, each with ADD, DEL, DEL retries and duplicate DELs; the
// other actors of a node (GC rounds, container state changes, foreign processes binding ports, graceful daemon
// restarts); request bookkeeping.

import (
	"encoding/json"
	"fmt"
	"strings"

	"tkestack.io/galaxy/verifsim/core"
)

type cniRequestJSON struct {
	Env    map[string]string `json:"env,omitempty"`
	Config []byte            `json:"config,omitempty"`
}

func (w *World) newContainer(p *PodDef) *Container {
	seq := w.made[p.Idx]
	w.made[p.Idx]++
	c := &Container{ID: hexID(w.cfg.ScriptSeed, p.Idx, seq), Pod: p, Seq: seq, Phase: "new"}
	c.State = "running"
	if w.cfg.Containerd {
		c.State = "ready"
	}
	w.conts = append(w.conts, c)
	w.byID[c.ID] = c
	w.cur[p.Idx] = c
	return c
}

func (w *World) spawnRequest(c *Container, cmd string) *Request {
	w.reqSeq++
	r := &Request{ID: fmt.Sprintf("r%d", w.reqSeq), Cmd: cmd, C: c, failedAt: -1, rollbackNext: -1}
	w.reqs[r.ID] = r
	c.Busy = r
	c.Cmds = append(c.Cmds, cmd)
	w.inflight = append(w.inflight, r)
	if cmd == "DEL" {
		// what the property prescribes for this DEL: the remaining networks in reverse
		for i := len(c.Remaining) - 1; i >= 0; i-- {
			r.delExpect = append(r.delExpect, c.Remaining[i])
		}
		c.DelTries++
	}
	env := map[string]string{
		"CNI_COMMAND":     cmd,
		"CNI_CONTAINERID": c.ID,
		"CNI_NETNS":       fmt.Sprintf("/proc/%d/ns/net", 1000+c.Pod.Idx*10+c.Seq),
		"CNI_IFNAME":      kubeIf(c.Pod),
		"CNI_PATH":        kubeletCNIPath,
		"CNI_ARGS":        fmt.Sprintf("IgnoreUnknown=1;K8S_POD_NAMESPACE=%s;K8S_POD_NAME=%s;K8S_POD_INFRA_CONTAINER_ID=%s", c.Pod.NS, c.Pod.Name, c.ID),
	}
	body, _ := json.Marshal(cniRequestJSON{Env: env, Config: []byte(`{"cniVersion":"0.2.0","name":"galaxy","type":"galaxy-sdn"}`)})
	if w.armed("C14") {
		r.before = w.Kern.Lines("nat")
		if w.podBase[c.Pod.Idx] == nil {
			w.podBase[c.Pod.Idx] = multiset(r.before)
		}
	}
	// requests of the same pod that overlap are judged as a pair, not one by one
	for _, o := range w.inflight {
		if o != r && !o.Done && o.C.Pod == c.Pod {
			o.overlap, r.overlap = true, true
		}
	}
	inst := w.inst
	id := r.ID
	t := w.S.Spawn(fmt.Sprintf("cni:%s:%s:%s", cmd, c.Pod.key(), c.ID[:6]), w.proc, func() { cniTask(inst, id, body) })
	t.Tag = strings.ToLower(cmd)
	t.Data = r
	r.Task = t
	w.S.Stat("op.cni." + strings.ToLower(cmd))
	w.summary = append(w.summary, fmt.Sprintf("%s:p%d.%d", cmd, c.Pod.Idx, c.Seq))
	return r
}

// podCanAct reports what kubelet could do next for a pod ("" = nothing).
func (w *World) podAction(p *PodDef) string {
	if p.OtherNode || p.HostNetwork {
		return ""
	}
	c := w.cur[p.Idx]
	if c == nil {
		if w.made[p.Idx] < p.Sandboxes {
			return "add"
		}
		return ""
	}
	if c.Busy != nil || c.Abandoned {
		return ""
	}
	switch c.Phase {
	case "new":
		return "add"
	case "up", "addfailed", "delfailed":
		if c.DelTries > 6 {
			return ""
		}
		return "del"
	case "down":
		return "after"
	}
	return ""
}

// doOp performs the next workload operation.
func (w *World) doOp() {
	w.opsLeft--
	if w.solo != nil {
		w.soloOp()
		return
	}
	var kinds []string
	var pods []*PodDef
	if len(w.inflight) < w.maxInfl {
		for _, p := range w.cfg.Pods {
			if w.podAction(p) != "" {
				pods = append(pods, p)
			}
		}
	}
	idle := len(w.inflight) == 0 && len(w.gcBusy) == 0
	if len(pods) > 0 {
		kinds = append(kinds, "cni", "cni", "cni")
	}
	var earlier []*Container
	if w.prof.Overlap && len(w.inflight) < w.maxInfl+1 {
		// kubelet's container GC / PLEG cleanup stops sandboxes that are no longer the pod's current one: a retry of
		// a failed teardown, or one more (late) DEL of a sandbox that was torn down already
		for _, x := range w.conts {
			if x != w.cur[x.Pod.Idx] && x.Busy == nil && !x.Abandoned && ((x.Phase == "delfailed" && x.DelTries < 8) || (x.Phase == "down" && x.LateDels < 2)) {
				earlier = append(earlier, x)
			}
		}
		if len(earlier) > 0 {
			kinds = append(kinds, "latedel")
		}
	}
	if w.prof.GC {
		if len(w.gcBusy) == 0 {
			kinds = append(kinds, "gc")
		}
		kinds = append(kinds, "state")
		if w.rtDownLeft == 0 && w.rtRate > 0 {
			kinds = append(kinds, "rtdown")
		}
	}
	if w.armed("C12") && w.prof.FS && w.fsRate > 0 && w.C.Prob(1, 3) {
		kinds = append(kinds, "damage")
	}
	if w.prof.States {
		kinds = append(kinds, "state", "podupdate")
	}
	if w.prof.Hostile {
		kinds = append(kinds, "raw", "raw", "hostile")
	}
	if w.prof.RealGCRun {
		kinds = append(kinds, "tick") // the periodic loops (GC, EnsureBasicRule) fire while requests are in flight
	}
	if w.prof.Stop && idle && w.C.Prob(1, 3) {
		kinds = append(kinds, "stop")
	}
	if w.prof.NetInUse {
		kinds = append(kinds, "foreign")
	}
	if idle {
		kinds = append(kinds, "tick")
	}
	if len(kinds) == 0 {
		return
	}
	switch kinds[w.C.Choose(len(kinds))] {
	case "cni":
		p := pods[w.C.Choose(len(pods))]
		w.podOp(p)
	case "damage":
		// the network state file of a sandbox that is up gets damaged (disk trouble, a crash of an earlier daemon in the
		// middle of rewriting it): truncated, emptied or garbage
		var cs []*Container
		for _, x := range w.conts {
			if x.Busy == nil && x.Phase == "up" {
				cs = append(cs, x)
			}
		}
		if len(cs) == 0 {
			return
		}
		x := cs[w.C.Choose(len(cs))]
		path := gcDirs[1] + "/" + x.ID
		data, _ := w.FS.Get(path)
		switch w.C.Choose(3) {
		case 0:
			data = data[:len(data)/2]
		case 1:
			data = []byte("{")
		case 2:
			data = []byte("[{\"NetworkType\":")
		}
		w.FS.Put(path, data)
		x.Tainted = true
		w.unscripted++
		w.S.Stat("fault.fs.state-file-damaged")
		w.S.Sig("F:fs.damaged")
	case "latedel":
		x := earlier[w.C.Choose(len(earlier))]
		x.LateDels++
		w.S.Stat("op.late-del-of-earlier-sandbox")
		w.spawnRequest(x, "DEL")
	case "gc":
		w.startGCRound()
	case "state":
		w.changeState()
	case "rtdown":
		w.rtDownLeft = 1 + w.C.Choose(6)
		w.S.Stat("fault.runtime.down")
		w.S.Sig("F:rt.down")
		w.unscripted++
	case "raw":
		w.spawnRaw()
	case "hostile":
		w.hostileOp()
	case "podupdate":
		// somebody else updates a pod (label change): the pod store moves under galaxy's feet
		p := w.cfg.Pods[w.C.Choose(len(w.cfg.Pods))]
		n := w.S.Steps
		w.K.Patch(nil, "pods", p.NS, p.Name, func(m map[string]interface{}) {
			meta := m["metadata"].(map[string]interface{})
			meta["labels"] = map[string]interface{}{"rev": fmt.Sprint(n)}
		})
		w.S.Stat("op.pod-update")
	case "stop":
		w.S.Stat("op.restart")
		w.summary = append(w.summary, "restart")
		w.killDaemon(false)
		if w.prof.NetInUse && w.C.Prob(1, 3) {
			// while the daemon is down another process binds a port that had been handed out to a pod
			var cands []*Container
			for _, c := range w.conts {
				if c.Phase == "up" && len(c.Mappings) > 0 {
					cands = append(cands, c)
				}
			}
			if len(cands) > 0 {
				c := cands[w.C.Choose(len(cands))]
				m := c.Mappings[w.C.Choose(len(c.Mappings))]
				if w.Net.BindForeign(m.Proto, m.HostPort) {
					if c.Lost == nil {
						c.Lost = map[string]bool{}
					}
					c.Lost[fmt.Sprintf("%s/%d", m.Proto, m.HostPort)] = true
					w.S.Stat("fault.net.inuse-during-restart")
					w.S.Sig("F:net.inuse.restart")
					w.unscripted++
				}
			}
		}
	case "foreign":
		w.foreignOp()
	case "tick":
		if ts, ok := w.S.NextTimer(true); ok {
			w.S.Stat("op.tick")
			w.S.AdvanceTo(ts)
		}
	}
}

func (w *World) podOp(p *PodDef) {
	switch w.podAction(p) {
	case "add":
		c := w.cur[p.Idx]
		if c == nil {
			c = w.newContainer(p)
		}
		w.spawnRequest(c, "ADD")
	case "del":
		c := w.cur[p.Idx]
		if (w.prof.GC || w.prof.States) && c.Phase == "up" && w.C.Prob(1, 3) {
			// the sandbox dies and kubelet never gets to tear it down (kubelet restart, node pressure): GC's job
			c.Abandoned = true
			w.setState(c, w.deadState())
			w.S.Stat("op.abandon")
			w.summary = append(w.summary, fmt.Sprintf("abandon:p%d.%d", p.Idx, c.Seq))
			delete(w.cur, p.Idx)
			return
		}
		if (w.prof.GC || w.prof.States) && w.C.Prob(1, 2) {
			w.setState(c, w.deadState()) // kubelet stops the sandbox, then calls DEL
		}
		w.spawnRequest(c, "DEL")
		if w.prof.Overlap && w.made[p.Idx] < p.Sandboxes && w.C.Prob(1, 3) {
			// the sandbox is dead: its teardown comes from the cleanup goroutine while the pod worker already sets up
			// the replacement sandbox of the same pod
			w.S.Stat("op.overlapping-del-add")
			w.summary = append(w.summary, fmt.Sprintf("overlap:p%d", p.Idx))
			w.spawnRequest(w.newContainer(p), "ADD")
		}
	case "after":
		c := w.cur[p.Idx]
		if w.C.Prob(1, 3) {
			w.S.Stat("probe.duplicate-del")
			w.spawnRequest(c, "DEL")
			return
		}
		// kubelet removes the sandbox; a new one may follow
		if w.prof.GC || w.prof.States {
			w.setState(c, "absent")
		}
		delete(w.cur, p.Idx)
		w.S.Stat("op.retire")
	}
}

func (w *World) soloOp() {
	p := w.cfg.Pods[w.solo.PodIdx]
	c := w.cur[p.Idx]
	if c == nil {
		w.made[p.Idx] = w.solo.Seq
		c = w.newContainer(p)
	}
	if w.soloPos < len(w.solo.Cmds) {
		w.spawnRequest(c, w.solo.Cmds[w.soloPos])
		w.soloPos++
	}
}

func (w *World) foreignOp() {
	ports := []int{30000, 30001, 30002, 30003, w.cfg.EphLo, w.cfg.EphLo + 1, w.cfg.EphLo + 2, w.cfg.EphLo + 3}
	proto := pick(w.C, []string{"tcp", "udp"})
	port := ports[w.C.Choose(len(ports))]
	key := fmt.Sprintf("%s/%d", proto, port)
	for i, f := range w.foreign {
		if f == key {
			w.Net.ReleaseForeign(proto, port)
			w.foreign = append(w.foreign[:i], w.foreign[i+1:]...)
			w.S.Stat("op.foreign-release")
			return
		}
	}
	if w.Net.BindForeign(proto, port) {
		w.foreign = append(w.foreign, key)
		w.S.Stat("fault.net.inuse")
		w.S.Sig("F:net.inuse")
	}
}

// requestEnded is called when a request's reply reached kubelet, or when the daemon died under it.
func (w *World) requestEnded(r *Request, killed bool) {
	c := r.C
	c.Busy = nil
	ok := r.Code == 200
	if killed {
		c.Tainted = true
	}
	switch r.Cmd {
	case "ADD":
		if ok {
			c.Phase = "up"
			c.UpProc = w.proc
			c.IP = resultIP(r.Resp)
			w.kubeletStatus(c, c.IP)
			c.Mappings = w.handedOut(c)
			for _, m := range c.Mappings {
				w.portPod[fmt.Sprintf("%s/%d", m.Proto, m.HostPort)] = c.Pod.Idx
			}
			w.S.Stat("cni.add.ok")
		} else {
			c.Phase = "addfailed"
			w.S.Stat("cni.add.failed")
		}
	case "DEL":
		if ok {
			if c.Phase != "down" {
				c.DelOKProc = w.proc
			}
			c.Phase = "down"
			c.DelOK = true
			if !w.armed("C12") {
				c.Tainted = false // everything of the container is gone: later requests are judged afresh
			}
			// the pod status follows the pod's current sandbox, not an earlier one that is being cleaned up
			otherUp := false
			for _, x := range w.conts {
				if x != c && x.Pod == c.Pod && x.Phase == "up" {
					otherUp = true
				}
			}
			if !otherUp {
				w.kubeletStatus(c, "")
			}
			w.S.Stat("cni.del.ok")
		} else {
			c.Phase = "delfailed"
			w.S.Stat("cni.del.failed")
		}
	}
	if w.armed("C12") {
		w.oracleC12RequestEnd(r, killed)
	}
	if w.armed("C14") && !killed {
		w.oracleC14RequestEnd(r)
	}
	if r.Cmd == "DEL" && ok {
		c.Mappings = nil
	}
}

// resultIP extracts the IPv4 address from a CNI result in 0.2.0 or current form.
func resultIP(b []byte) string {
	var r struct {
		IP4 *struct {
			IP string `json:"ip"`
		} `json:"ip4"`
		IPs []struct {
			Address string `json:"address"`
		} `json:"ips"`
	}
	if json.Unmarshal(b, &r) != nil {
		return ""
	}
	ip := ""
	if r.IP4 != nil {
		ip = r.IP4.IP
	} else if len(r.IPs) > 0 {
		ip = r.IPs[0].Address
	}
	return strings.SplitN(ip, "/", 2)[0]
}

// kubeletStatus is kubelet's status update after a sandbox came up or went away.
func (w *World) kubeletStatus(c *Container, ip string) {
	w.K.Patch(nil, "pods", c.Pod.NS, c.Pod.Name, func(m map[string]interface{}) {
		st, _ := m["status"].(map[string]interface{})
		if st == nil {
			st = map[string]interface{}{}
			m["status"] = st
		}
		if ip == "" {
			delete(st, "podIP")
			st["phase"] = "Pending"
		} else {
			st["podIP"] = ip
			st["phase"] = "Running"
			if w.C.Prob(1, 3) {
				// the sandbox is up and has its IP, but init containers / image pulls keep the pod Pending
				st["phase"] = "Pending"
				w.S.Stat("probe.pod-pending-with-ip")
			}
			if w.prof.GC || w.prof.States {
				// the pod's containers start in the new sandbox
				kind := "running"
				if w.C.Prob(1, 4) {
					kind = "waiting"
				}
				st["containerStatuses"] = []interface{}{map[string]interface{}{"name": "c", "state": map[string]interface{}{kind: map[string]interface{}{}}}}
			}
		}
	})
}

type portJSON struct {
	HostPort      int    `json:"hostPort"`
	ContainerPort int    `json:"containerPort"`
	Protocol      string `json:"protocol"`
	HostIP        string `json:"hostIP"`
	PodName       string `json:"podName"`
	PodIP         string `json:"podIP"`
}

type podTruth struct {
	Metadata struct {
		Name        string            `json:"name"`
		Namespace   string            `json:"namespace"`
		Annotations map[string]string `json:"annotations"`
	} `json:"metadata"`
	Spec struct {
		NodeName    string `json:"nodeName"`
		HostNetwork bool   `json:"hostNetwork"`
		Containers  []struct {
			Ports []struct {
				HostPort      int    `json:"hostPort"`
				ContainerPort int    `json:"containerPort"`
				Protocol      string `json:"protocol"`
				HostIP        string `json:"hostIP"`
			} `json:"ports"`
		} `json:"containers"`
	} `json:"spec"`
	Status struct {
		PodIP string `json:"podIP"`
	} `json:"status"`
}

// mappingsOf reads, from API truth, the host-port mappings a pod has been given: the documented annotation for
// pods that asked for random ports, the pod spec for fixed ports.
func mappingsOf(js []byte) (pt podTruth, out []Mapping) {
	if json.Unmarshal(js, &pt) != nil {
		return
	}
	if a := pt.Metadata.Annotations[annPortMapping]; a != "" {
		var ps []portJSON
		if json.Unmarshal([]byte(a), &ps) == nil {
			for _, p := range ps {
				out = append(out, Mapping{Proto: strings.ToLower(p.Protocol), HostPort: p.HostPort, HostIP: p.HostIP, PodIP: p.PodIP, ContainerPort: p.ContainerPort})
			}
		}
		return
	}
	for _, ct := range pt.Spec.Containers {
		for _, p := range ct.Ports {
			if p.HostPort > 0 {
				out = append(out, Mapping{Proto: strings.ToLower(p.Protocol), HostPort: p.HostPort, HostIP: p.HostIP, PodIP: pt.Status.PodIP, ContainerPort: p.ContainerPort})
			}
		}
	}
	return
}

func (w *World) handedOut(c *Container) []Mapping {
	o := w.K.Get("pods", c.Pod.NS, c.Pod.Name)
	if o == nil {
		return nil
	}
	_, ms := mappingsOf(o.JSON)
	return ms
}

// onReady runs when a daemon incarnation finished its start-up.
func (w *World) onReady() {
	if w.armed("C14") {
		w.oracleC14Ready()
	}
	// a start-time synchronisation installs the mappings of every pod that has an IP in the API server; for a sandbox
	// that was dead already these rules are not something the container left behind (C17 makes no claim about them)
	for _, c := range w.conts {
		st, _, _ := w.runtimeState(c.ID)
		if w.starts > 1 && len(c.Mappings) > 0 && (dockerDead(st) || criState(st) != "ready") {
			c.resynced = true
		}
	}
	// ports of pods that are up were re-opened by the start-up code under this incarnation
	for _, c := range w.conts {
		if c.Phase == "up" || c.Phase == "delfailed" {
			c.UpProc = w.proc
		}
	}
}

var _ = core.CodeOK

func kubeIf(p *PodDef) string {
	if p.KubeIf == "" {
		return "eth0"
	}
	return p.KubeIf
}
