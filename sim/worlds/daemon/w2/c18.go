package w2

// C18 in world W2: hostile input at every surface of the galaxy daemon, with the oracles that are native to the
// simulator: a panic in a task whose stack has a galaxy frame (C18.panic), a task that ends holding a simsync lock
// (C18.lock-leak), and a follow-up ordinary request on the same instance that can never complete (C18.wedged).
// A task that never reaches a scheduling point again is the harness watchdog's business (HANG line, exit 3).
//
// Surfaces: raw CNI request bodies (bad JSON, missing / malformed env entries and CNI_ARGS, unknown commands,
// empty and huge stdin), pod objects with hostile networks / args / portmapping annotations and odd port
// protocols, galaxy.json texts (checkNetworkConf), conf-dir files, and state / port files.

import (
	"encoding/json"
	"fmt"
	"strings"

	"tkestack.io/galaxy/verifsim/core"
)

// hostile values of the k8s.v1.cni.cncf.io/networks annotation
var hostileNetworks = []string{
	`[null]`, `[{}]`, `[{"name":5}]`, `{}`, `"net0"`, `[]`, `null`, `[[]]`, `[{"name":null}]`, `[{"name":""}]`, `[{"name":"net0","interface":7}]`,
	`[{"name":"net0"},null]`, `[{"name":"net0","interface":""},{"name":"net0","interface":"eth0"}]`, `{"name":"net0"}`, `[`, `[{"name":"net0"}`,
	`net0,,net0`, `,`, ` `, `@eth1`, `a/b/c`, `net0@`, `net0@a@b`, `/net0`, `net0/`, `NET0`, `net0, ,`, `nét0`, `net0@eth0,net0@eth0`,
	`evil-null`, `evil-notype`, `evil-emptytype`, `evil-badver`, `evil-list`, `evil-nullkube`, `evil-arr`, `evil-json-ver,evil-noplugin`, `evil-noplugin`,
	`evil-json-ver`, `[{"name":"evil-list"},{"name":"net0"}]`,
}

// hostile values of the k8s.v1.cni.galaxy.io/args annotation
var hostileArgs = []string{
	`{`, `null`, `[]`, `5`, `{"common":5}`, `{"common":null}`, `{"common":[]}`, `{"common":{"ipinfos":"x"}}`, `{"common":{"ipinfos":null}}`,
	`{"common":{"ipinfos":[]}}`, `{"common":{"ipinfos":[null]}}`, `{"common":{"ipinfos":[{"ip":"300.1.1.1/24"}]}}`, `{"common":{"ipinfos":[{"ip":null,"vlan":70000}]}}`,
	`{"common":{"a;b=c":1,"K8S_POD_NAME":"other"}}`, `{"common":{"":""}}`, `{"common":{"ipinfos":[{"ip":"10.0.0.2/33","vlan":-1,"gateway":"x"}]}}`,
	`{"request_ip_range":[[["10.0.0.1~255.255.255.255"]]],"common":{}}`, `{"common":{"ipinfos":[{"ip":"10.0.0.2/24","vlan":2,"gateway":"10.0.0.1"}],"x":{"y":[1,2,{"z":null}]}}}`,
}

// hostile values of the tkestack.io/portmapping annotation
var hostilePortAnn = []string{
	`x`, `null`, `[null]`, `{}`, `[{"hostPort":-1,"containerPort":80,"protocol":"TCP"}]`, `[{"hostPort":70000,"containerPort":0,"protocol":"tcp","podName":"p","podIP":""}]`,
	`[{"hostPort":"80"}]`, `[{"hostPort":31999,"containerPort":80,"protocol":"SCTP","podName":"a b\nc","podIP":"1.2.3.4"}]`, `[]`,
	`[{"hostPort":31998,"containerPort":80,"protocol":"","podName":"","podIP":"not-an-ip","hostIP":"::1"}]`,
}

// hostile galaxy.json texts
var hostileConfigs = []string{
	``, `{`, `null`, `[]`, `{"NetworkConf":null}`, `{"NetworkConf":[null]}`, `{"NetworkConf":[{}]}`, `{"NetworkConf":[{"type":5}]}`, `{"NetworkConf":[{"type":"x","name":null}]}`,
	`{"NetworkConf":[{"type":"x","name":7}]}`, `{"NetworkConf":[{"type":"x"},{"type":"x"}]}`, `{"NetworkConf":[{"type":""}],"DefaultNetworks":[""]}`, `{"NetworkConf":"x"}`,
	`{"NetworkConf":[{"type":"galaxy-flannel","name":"net0"}],"DefaultNetworks":null,"ENIIPNetwork":7}`, `{"NetworkConf":[{"type":"galaxy-flannel","name":"net0"}],"DefaultNetworks":[null]}`,
	`{"NetworkConf":[{"type":"galaxy-flannel","name":"net0","cniVersion":[]}],"DefaultNetworks":["net0","net0","nope"]}`, `{"NetworkConf":[[]]}`,
	`{"NetworkConf":[{"type":"galaxy-flannel","name":"net0","prevResult":{"x":1}}],"DefaultNetworks":["net0"],"ENIIPNetwork":"nope"}`,
}

// hostile state-file contents (/var/lib/cni/galaxy/<id>) and port-file contents
var hostileState = []string{
	``, `null`, `[null]`, `[]`, `{}`, `[{}]`, `[{"Conf":null}]`, `[{"NetworkType":"x","Args":null,"Conf":{"type":7},"IfName":""}]`, `x`, `[{"Conf":{"type":"galaxy-flannel"}},null]`,
	`[{"NetworkType":"galaxy-flannel","Args":{"a":"b"},"Conf":{"type":"no-such-plugin"},"IfName":"eth9"}]`,
}
var hostilePortFile = []string{``, `null`, `[null]`, `{}`, `x`, `[{"hostPort":-5,"containerPort":1,"protocol":"zzz","podName":"","podIP":""}]`, `[{"hostPort":31997,"containerPort":80,"protocol":"TCP","podName":"q","podIP":"1.2.3.4","hostIP":"999.1.1.1"}]`}

// hostileConfFiles are dropped into the conf dir; some pods name these networks.
func hostileConfFiles(c *core.Choices, cfg *Config) {
	add := func(name, data string) {
		if c.Prob(1, 3) {
			cfg.Files = append(cfg.Files, FileDef{Path: confDir + name, Data: data})
		}
	}
	if c.Prob(1, 4) {
		add("90-evil-null.conf", `null`)
	}
	add("91-evil-notype.conf", `{"name":"evil-notype"}`)
	add("92-evil-emptytype.json", `{"name":"evil-emptytype","type":""}`)
	add("93-evil-badver.conf", `{"name":"evil-badver","type":"bridge","cniVersion":"9.9.9"}`)
	add("94-evil-list.conflist", `{"name":"evil-list","cniVersion":"0.3.1","plugins":[{"type":"bridge"}]}`)
	add("95-evil-nullkube.conf", `{"name":"evil-nullkube","type":"bridge","kubeconfig":null}`)
	add("96-evil-arr.conf", `{"name":"evil-arr","type":["a"]}`)
	add("97-evil-badlist.conflist", `{"name":"evil-badlist","plugins":null}`)
	if c.Prob(1, 3) {
		cfg.Files = append(cfg.Files, FileDef{Path: confDir + "98-dir.conf", Dir: true})
	}
	// networks of the json config that pass checkNetworkConf but are broken further down
	cfg.Nets = append(cfg.Nets,
		&NetDef{Name: "evil-json-ver", Type: "bridge", HasName: true, Form: "json", Extra: map[string]interface{}{"cniVersion": map[string]interface{}{}}},
		&NetDef{Name: "evil-noplugin", Type: "no-such-plugin", HasName: true, Form: "json", Extra: map[string]interface{}{}})
}

// hostilePod replaces parts of a generated pod by hostile values.
func hostilePod(c *core.Choices, p *PodDef) {
	switch c.Choose(5) {
	case 0, 1:
		p.Annotations[annNetworks] = hostileNetworks[c.Choose(len(hostileNetworks))]
	case 2:
		p.Annotations[annArgs] = hostileArgs[c.Choose(len(hostileArgs))]
	case 3:
		p.Annotations[annPortMapping] = hostilePortAnn[c.Choose(len(hostilePortAnn))]
		p.RandomPorts = true
	case 4:
		if len(p.Ports) > 0 {
			p.Ports[c.Choose(len(p.Ports))].Proto = pick(c, []string{"SCTP", "", "tcp", "ICMP"})
		}
	}
	p.Hostile = true
}

// rawBody builds a hostile CNI request body.
func (w *World) rawBody() []byte {
	c := w.C
	p := w.cfg.Pods[c.Choose(len(w.cfg.Pods))]
	env := map[string]string{
		"CNI_COMMAND": "ADD", "CNI_CONTAINERID": hexID(w.cfg.ScriptSeed, 700, w.reqSeq), "CNI_NETNS": "/proc/1/ns/net", "CNI_IFNAME": "eth0", "CNI_PATH": kubeletCNIPath,
		"CNI_ARGS": fmt.Sprintf("IgnoreUnknown=1;K8S_POD_NAMESPACE=%s;K8S_POD_NAME=%s;K8S_POD_INFRA_CONTAINER_ID=x", p.NS, p.Name),
	}
	config := []byte(`{"cniVersion":"0.2.0","name":"galaxy","type":"galaxy-sdn"}`)
	big := strings.Repeat("A", 1<<16)
	switch c.Choose(16) {
	case 0:
		return []byte(pick(c, []string{``, `{`, `null`, `[]`, `"x"`, `{"env":5}`, `{"env":null,"config":null}`, `{"env":{"CNI_COMMAND":7}}`, `{"config":"%%%"}`, big}))
	case 1:
		keys := []string{"CNI_COMMAND", "CNI_CONTAINERID", "CNI_NETNS", "CNI_IFNAME", "CNI_PATH", "CNI_ARGS"}
		delete(env, keys[c.Choose(len(keys))])
	case 2:
		env["CNI_COMMAND"] = pick(c, []string{"", "VERSION", "CHECK", "add", "DEL ", big})
	case 3:
		env["CNI_ARGS"] = pick(c, []string{"", ";", "=;=", "K8S_POD_NAME=x", "K8S_POD_NAMESPACE=default", "K8S_POD_NAMESPACE=;K8S_POD_NAME=", "K8S_POD_NAMESPACE=default;K8S_POD_NAME=" + big,
			"K8S_POD_NAMESPACE==;K8S_POD_NAME==", "K8S_POD_NAMESPACE=a/b;K8S_POD_NAME=../..", "K8S_POD_NAMESPACE = default ; K8S_POD_NAME = " + p.Name, "K8S_POD_NAME=" + p.Name + ";K8S_POD_NAMESPACE=" + p.NS + ";ipinfos=[null]"})
	case 4:
		env["CNI_CONTAINERID"] = pick(c, []string{"", ".", "..", "../../../etc/galaxy/galaxy.json", "port", "a/b", big, "x\x00y"})
	case 5:
		env["CNI_IFNAME"] = pick(c, []string{"", big, "eth0;rm", "\n"})
	case 6:
		env["CNI_PATH"] = pick(c, []string{"", ":", ":::", "/nonexistent", big})
	case 7:
		config = []byte(pick(c, []string{``, `null`, `{`, big}))
	case 8:
		env["CNI_COMMAND"] = "DEL"
		env["CNI_CONTAINERID"] = pick(c, []string{"", "..", "port", "never-added"})
	case 9:
		env["CNI_NETNS"] = pick(c, []string{"", big})
	default:
		// a well-formed request for a (possibly hostile) pod, or for a pod that does not exist
		if c.Prob(1, 4) {
			env["CNI_ARGS"] = "K8S_POD_NAMESPACE=default;K8S_POD_NAME=no-such-pod"
		}
		if c.Prob(1, 3) {
			env["CNI_COMMAND"] = "DEL"
		}
	}
	b, _ := json.Marshal(cniRequestJSON{Env: env, Config: config})
	return b
}

// rawCNITask sends a hostile body through the real handler.
func rawCNITask(inst *Instance, id string, body []byte) {
	code, _ := inst.g.VerifServeCNI(body)
	core.CallNow(core.Req{Op: "w.rawdone", A: []string{id, fmt.Sprint(code)}})
}

func (w *World) spawnRaw() {
	w.reqSeq++
	id := fmt.Sprintf("raw%d", w.reqSeq)
	body := w.rawBody()
	inst := w.inst
	t := w.S.Spawn("cni:RAW:"+id, w.proc, func() { rawCNITask(inst, id, body) })
	t.Tag = "raw"
	w.rawBusy[id] = t
	w.S.Stat("op.hostile.raw-request")
	if w.S.TraceOn {
		b := string(body)
		if len(b) > 400 {
			b = b[:400] + "..."
		}
		w.S.Logf("hostile request %s: %s", id, b)
	}
}

// hostileOp performs one hostile operation that is not a request: configuration texts and state files.
func (w *World) hostileOp() {
	c := w.C
	switch c.Choose(4) {
	case 3:
		// a plain restart: the start-time synchronisation reads whatever hostile annotations the pods carry by now
		w.S.Stat("op.restart")
		w.killDaemon(false)
	case 0:
		// restart with a hostile galaxy.json (or back to the good one)
		if w.badConfig {
			w.restoreConfig()
		} else {
			w.badConfig = true
			txt := hostileConfigs[c.Choose(len(hostileConfigs))]
			w.FS.Put(jsonConfigPath, []byte(txt))
			w.S.Stat("op.hostile.config")
			w.S.Logf("hostile galaxy.json: %s", txt)
		}
		w.killDaemon(false)
	case 1:
		// corrupt the state file or port file of a container, kubelet's DEL follows later
		var cs []*Container
		for _, x := range w.conts {
			if x.Busy == nil && (x.Phase == "up" || x.Phase == "addfailed" || x.Phase == "delfailed") {
				cs = append(cs, x)
			}
		}
		if len(cs) == 0 {
			return
		}
		x := cs[c.Choose(len(cs))]
		var path, data string
		if c.Prob(1, 2) {
			path, data = gcDirs[1]+"/"+x.ID, hostileState[c.Choose(len(hostileState))]
		} else {
			path, data = gcDirs[2]+"/"+x.ID, hostilePortFile[c.Choose(len(hostilePortFile))]
		}
		w.FS.Put(path, []byte(data))
		w.S.Logf("hostile state file %s: %s", path, data)
		w.S.Stat("op.hostile.state-file")
	case 2:
		// stray files with hostile names and contents in the directories the collectors walk
		name := pick(c, []string{"lock", ".", "a b", strings.Repeat("f", 300), "172.16.8.77", "::1", "0.0.0.0"})
		dir := append(append([]string{}, gcDirs...), ipDirs...)[c.Choose(5)]
		w.FS.Put(dir+"/"+name, []byte(pick(c, []string{"", "\n", "\r\n\r\n", "x\ny", strings.Repeat("z", 5000)})))
		w.S.Stat("op.hostile.stray-file")
	}
}

func (w *World) restoreConfig() {
	for _, f := range w.cfg.Files {
		if f.Path == jsonConfigPath {
			w.FS.Put(f.Path, []byte(f.Data))
		}
	}
	w.badConfig = false
}

// panicSite extracts the first galaxy frame (function name) of a panic stack.
func panicSite(msg string) string {
	for _, l := range strings.Split(msg, "\n") {
		l = strings.TrimSpace(l)
		if strings.HasPrefix(l, "tkestack.io/galaxy/pkg/") || strings.HasPrefix(l, "tkestack.io/galaxy/cni/") {
			if i := strings.LastIndex(l, "("); i > 0 {
				l = l[:i]
			}
			return strings.TrimPrefix(l, "tkestack.io/galaxy/")
		}
	}
	return "unknown"
}
