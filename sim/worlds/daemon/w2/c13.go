package w2

// The daemon half of C13: an annotation produced with galaxy-ipam's own encoder (constant.MarshalCniArgs) is
// passed through the daemon and the plugin-side decoder; what arrives must be what was put in, in order.
// The coupled W1 -> W2 check calls AddWithArgsAnnotation with the annotation galaxy-ipam really stored.

import (
	"fmt"
	"net"

	"tkestack.io/galaxy/pkg/api/galaxy/constant"
	"tkestack.io/galaxy/pkg/utils/nets"
	"tkestack.io/galaxy/verifsim/core"
	"tkestack.io/galaxy/verifsim/harness"
)

func runC13(c *core.Choices, trace bool) *harness.RunResult {
	n := 1 + c.Choose(4)
	var infos []constant.IPInfo
	var want []DecodedIP
	for i := 0; i < n; i++ {
		plen := []int{24, 16, 32, 8, 25, 30, 20}[c.Choose(7)]
		ip := net.IPv4(byte(10+c.Choose(200)), byte(c.Choose(256)), byte(c.Choose(256)), byte(1+c.Choose(254)))
		gw := net.IPv4(byte(10+c.Choose(200)), byte(c.Choose(256)), byte(c.Choose(256)), byte(1+c.Choose(254)))
		vlan := uint16([]int{0, 0, 2, 100, 4094, 4095, 65535}[c.Choose(7)])
		infos = append(infos, constant.IPInfo{IP: &nets.IPNet{IP: ip, Mask: net.CIDRMask(plen, 32)}, Vlan: vlan, Gateway: gw})
		want = append(want, DecodedIP{Address: ip.String(), PrefixLen: plen, Gateway: gw.String(), Vlan: vlan})
	}
	ann, err := constant.MarshalCniArgs(infos)
	res := &harness.RunResult{Stats: map[string]int{}, Nontrivial: true, Summary: ann}
	if err != nil {
		res.Infra = err.Error()
		return res
	}
	got, status, reply, infra := AddWithArgsAnnotation("default", "c13-pod", ann)
	res.Infra = infra
	res.Steps = 1
	if infra != "" {
		return res
	}
	if status != 200 || fmt.Sprint(got) != fmt.Sprint(want) {
		res.Viol = &core.Violation{Oracle: "C13.daemon-half", Message: fmt.Sprintf("annotation %s: plugin decoded %v (status %d %s), allocated %v", ann, got, status, reply, want)}
		res.Key = "decoded-differs"
	}
	res.Stats["c13.ips"] += n
	return res
}
