package w2

// Generation of the static configuration of a run from the choice stream: network configurations (json config
// and conf-dir form), default / ENI networks, pods with their annotations and host ports, prior NAT table,
// leftover GC files. The result is plain data; a solo re-execution (C12 isolation) reuses it verbatim.

import (
	"encoding/json"
	"fmt"
	"sort"
	"strings"

	"tkestack.io/galaxy/verifsim/core"
)

const (
	annNetworks    = "k8s.v1.cni.cncf.io/networks"
	annArgs        = "k8s.v1.cni.galaxy.io/args"
	annPortMapping = "tkestack.io/portmapping"
	eniResource    = "tke.cloud.tencent.com/eni-ip"

	jsonConfigPath = "/etc/galaxy/galaxy.json"
	confDir        = "/etc/cni/net.d/"
	kubeletCNIPath = "/opt/cni/bin"
	galaxyCNIPath  = "/opt/cni/galaxy/bin"
	nodeName       = "node1"
)

// NetDef is one network configuration.
type NetDef struct {
	Name    string // the key pods refer to
	Type    string // plugin binary
	HasName bool   // json form only: without "name" the type is the key
	Form    string // "json" (galaxy.json NetworkConf) or "dir" (file in the conf dir)
	Version string // cniVersion ("" = absent)
	File    string // conf-dir form: path of the file
	Extra   map[string]interface{}
}

func (n *NetDef) conf() map[string]interface{} {
	m := map[string]interface{}{"type": n.Type}
	if n.HasName {
		m["name"] = n.Name
	}
	if n.Version != "" {
		m["cniVersion"] = n.Version
	}
	for k, v := range n.Extra {
		m[k] = v
	}
	return m
}

// ExpNet is one expected plugin invocation target of a pod.
type ExpNet struct {
	Net    string
	Type   string
	IfName string
	Named  bool // the annotation entry names the interface (otherwise eth<i>, or kubelet's name for the first)
}

// PortDef is a container port of a pod.
type PortDef struct {
	ContainerPort int
	HostPort      int
	Proto         string // "TCP" / "UDP"
	HostIP        string
}

// PodDef is a generated pod.
type PodDef struct {
	Idx         int
	NS, Name    string
	Annotations map[string]string
	WantENI     bool
	HostNetwork bool
	OtherNode   bool
	Ports       []PortDef
	RandomPorts bool // carries the tkestack.io/portmapping annotation
	// Expect is what the property text prescribes for this pod given the static configuration.
	Expect     []ExpNet
	ExpectFail bool   // the annotation names a network that is not configured: ADD must fail without invoking anything
	NContainers int   // containers of the pod (1-3)
	ENIOn      int    // index of the container that carries the ENI-IP resource request (WantENI)
	CommonArgs map[string]string // common.* of the args annotation: key -> raw JSON text, handed to every network's plugin
	KubeIf     string // the interface name kubelet passes in CNI_IFNAME for this pod's sandboxes
	Hostile    bool   // C18: carries hostile annotations or ports
	AnnForm    string // "none", "list", "json"
	Sandboxes  int    // how many sandboxes kubelet may create for it during the run
}

func (p *PodDef) key() string { return p.NS + "/" + p.Name }

// FileDef is a pre-existing file.
type FileDef struct {
	Path string
	Data string
	Dir  bool
}

// Leftover is a pre-existing container known to the runtime (or not) that left state files behind.
type Leftover struct {
	ID    string
	State string // runtime truth
	PodNS, PodName string
	// PodStatus: "" = the pod does not exist; otherwise the container statuses kubelet reports for the pod
	// ("terminated", "running", "waiting", "mixed" = one terminated and one running, "none" = no statuses yet)
	PodStatus string
}

// LinkDef is a pre-existing network device of the host.
type LinkDef struct {
	Name, Type string
}

// Config is everything static about a run.
type Config struct {
	Prop        string
	Containerd  bool
	Nets        []*NetDef
	DefaultNets []string
	ENINet      string
	Pods        []*PodDef
	Files       []FileDef // config files, conf dir, leftovers
	PriorNAT    string
	ForeignPorts []string // "tcp/8080"
	Leftovers   []Leftover
	ScriptSeed  uint64
	Links       []LinkDef
	GCDirsFlag  string // value of the daemon's --gc_dirs flag ("" = its default, which lists the flannel, galaxy and port directories)
	BadResultRate int // per mille: a successful plugin ADD prints a result galaxy cannot use (no / invalid IPv4), scripted like failures
	AddFailRate int // per mille, scripted per (container, ifname, attempt)
	DelFailRate int
	EphLo, EphHi int
	Summary     string
}

var pluginTypes = []string{"galaxy-flannel", "galaxy-k8s-vlan", "galaxy-veth", "tke-route-eni", "galaxy-sdn", "galaxy-underlay-veth", "bridge"}
var cniVersions = []string{"", "0.2.0", "0.3.1", "0.4.0", "0.1.0", "0.3.0"}

func pick(c *core.Choices, xs []string) string { return xs[c.Choose(len(xs))] }

// genNetworks generates 1-5 network configurations.
func genNetworks(c *core.Choices, cfg *Config) {
	n := c.Range(1, 5)
	usedType := map[string]bool{}
	for i := 0; i < n; i++ {
		nd := &NetDef{HasName: true, Form: "json"}
		nd.Type = pluginTypes[(i+c.Choose(len(pluginTypes)))%len(pluginTypes)]
		nd.Version = pick(c, cniVersions)
		nd.Name = fmt.Sprintf("net%d", i)
		if c.Prob(1, 3) {
			nd.Form = "dir"
		} else if c.Prob(1, 4) && !usedType[nd.Type] {
			// json form without a name: the type is the name
			nd.HasName = false
			nd.Name = nd.Type
		}
		// the name of a network must be unique over both forms
		dup := false
		for _, o := range cfg.Nets {
			if o.Name == nd.Name {
				dup = true
			}
		}
		if dup {
			nd.HasName, nd.Name = true, fmt.Sprintf("net%d", i)
		}
		if !nd.HasName {
			usedType[nd.Type] = true
		}
		nd.Extra = map[string]interface{}{}
		switch c.Choose(4) {
		case 1:
			nd.Extra["delegate"] = map[string]interface{}{"type": "galaxy-veth", "mtu": 1400 + i}
		case 2:
			nd.Extra["subnet_file"] = fmt.Sprintf("/run/flannel/subnet%d.env", i)
		case 3:
			nd.Extra["ipam"] = map[string]interface{}{"type": "host-local", "subnet": fmt.Sprintf("172.16.%d.0/24", i)}
		}
		if nd.Form == "dir" {
			sub := ""
			if c.Prob(1, 3) {
				sub = "multus/"
			}
			ext := pick(c, []string{".conf", ".json"})
			nd.File = fmt.Sprintf("%s%s%02d-%s%s", confDir, sub, 10+i, nd.Name, ext)
			if c.Prob(1, 3) {
				nd.Extra["kubeconfig"] = "/etc/kubernetes/kubelet.conf"
			}
		}
		cfg.Nets = append(cfg.Nets, nd)
	}
	// default networks: 1-2 of the configured ones (rarely none)
	switch c.Choose(8) {
	case 7:
	default:
		cfg.DefaultNets = append(cfg.DefaultNets, cfg.Nets[c.Choose(len(cfg.Nets))].Name)
		if len(cfg.Nets) > 1 && c.Prob(1, 3) {
			cfg.DefaultNets = append(cfg.DefaultNets, cfg.Nets[c.Choose(len(cfg.Nets))].Name)
		}
	}
	if c.Prob(1, 2) {
		cfg.ENINet = cfg.Nets[c.Choose(len(cfg.Nets))].Name
		if c.Prob(1, 10) {
			cfg.ENINet = "ghost-eni" // the configured ENI network does not exist: pods that want an ENI IP cannot be set up
		}
	}
}

func (cfg *Config) net(name string) *NetDef {
	for _, n := range cfg.Nets {
		if n.Name == name {
			return n
		}
	}
	return nil
}

// configFiles renders galaxy.json and the conf dir.
func (cfg *Config) configFiles(c *core.Choices) {
	jc := map[string]interface{}{}
	var nc []map[string]interface{}
	for _, n := range cfg.Nets {
		if n.Form == "json" {
			nc = append(nc, n.conf())
		}
	}
	jc["NetworkConf"] = nc
	jc["DefaultNetworks"] = cfg.DefaultNets
	if cfg.ENINet != "" {
		jc["ENIIPNetwork"] = cfg.ENINet
	}
	b, _ := json.Marshal(jc)
	cfg.Files = append(cfg.Files, FileDef{Path: jsonConfigPath, Data: string(b)})
	cfg.Files = append(cfg.Files, FileDef{Path: confDir, Dir: true})
	for _, n := range cfg.Nets {
		if n.Form == "dir" {
			b, _ := json.Marshal(n.conf())
			cfg.Files = append(cfg.Files, FileDef{Path: n.File, Data: string(b)})
		}
	}
	// clutter in the conf dir that must be ignored: wrong extension, unparsable json, another name
	if c.Prob(1, 3) {
		cfg.Files = append(cfg.Files, FileDef{Path: confDir + "00-readme.txt", Data: "not a config"})
	}
	if c.Prob(1, 4) {
		cfg.Files = append(cfg.Files, FileDef{Path: confDir + "05-broken.conf", Data: "{not json"})
	}
	if c.Prob(1, 4) {
		cfg.Files = append(cfg.Files, FileDef{Path: confDir + "06-other.conf", Data: `{"name":"unrelated","type":"bridge"}`})
	}
	// plugin binaries
	for _, t := range pluginTypes {
		dir := galaxyCNIPath
		if c.Prob(1, 4) {
			dir = kubeletCNIPath
		}
		cfg.Files = append(cfg.Files, FileDef{Path: dir + "/" + t, Data: "#!ELF"})
	}
}

// genPod generates a pod; the expected invocation list follows the property text, from the structured choice
// (not from parsing the annotation back).
func genPod(c *core.Choices, cfg *Config, idx int, withPorts bool) *PodDef {
	p := &PodDef{Idx: idx, NS: pick(c, []string{"default", "default", "kube-system", "prod"}), Annotations: map[string]string{}, Sandboxes: 1 + c.Choose(3)}
	p.Name = fmt.Sprintf("%s-%d", pick(c, []string{"web", "db", "job", "hello-74597bd87c"}), idx)
	if idx > 0 && c.Prob(1, 8) {
		// same pod name as an earlier pod, in another namespace
		o := cfg.Pods[c.Choose(len(cfg.Pods))]
		taken := false
		for _, x := range cfg.Pods {
			if x.NS == "other" && x.Name == o.Name {
				taken = true
			}
		}
		if o.NS != "other" && !taken {
			p.Name, p.NS = o.Name, "other"
		}
	}
	p.WantENI = c.Prob(1, 4)
	p.KubeIf = pick(c, []string{"eth0", "eth0", "eth0", "ens5", "enp0s3"})
	p.NContainers = 1 + c.Choose(3)
	p.ENIOn = c.Choose(p.NContainers) // app first and sidecar last, or the other way round
	type sel struct{ net, ifname string }
	var sels []sel
	switch c.Choose(5) {
	case 0, 1:
		p.AnnForm = "none"
	case 2, 3:
		p.AnnForm = "list"
	case 4:
		p.AnnForm = "json"
	}
	if p.AnnForm != "none" {
		n := 1 + c.Choose(3)
		if c.Prob(1, 6) {
			n = 4
		}
		for i := 0; i < n; i++ {
			s := sel{net: cfg.Nets[c.Choose(len(cfg.Nets))].Name}
			if c.Prob(1, 3) {
				s.ifname = fmt.Sprintf("net%d", 1+c.Choose(5))
			}
			sels = append(sels, s)
		}
		if c.Prob(1, 12) {
			sels[c.Choose(len(sels))].net = "ghost"
			p.ExpectFail = true
		}
		if p.AnnForm == "list" {
			var items []string
			for _, s := range sels {
				it := s.net
				if c.Prob(1, 4) {
					it = p.NS + "/" + it
				}
				if s.ifname != "" {
					it += "@" + s.ifname
				}
				items = append(items, it)
			}
			sep := pick(c, []string{",", ", ", " , "})
			p.Annotations[annNetworks] = strings.Join(items, sep)
		} else {
			var elems []map[string]interface{}
			for _, s := range sels {
				e := map[string]interface{}{"name": s.net}
				if s.ifname != "" {
					e["interface"] = s.ifname
				}
				if c.Prob(1, 4) {
					e["namespace"] = p.NS
				}
				elems = append(elems, e)
			}
			b, _ := json.Marshal(elems)
			p.Annotations[annNetworks] = string(b)
		}
		for i, s := range sels {
			e := ExpNet{Net: s.net, IfName: p.KubeIf}
			if i > 0 {
				e.IfName = s.ifname
				e.Named = s.ifname != ""
				if e.IfName == "" {
					e.IfName = fmt.Sprintf("eth%d", i)
				}
			}
			p.Expect = append(p.Expect, e)
		}
	} else if p.WantENI && cfg.ENINet != "" {
		p.Expect = []ExpNet{{Net: cfg.ENINet, IfName: p.KubeIf}}
		if cfg.net(cfg.ENINet) == nil {
			p.ExpectFail = true
		}
	} else {
		for i, n := range cfg.DefaultNets {
			ifn := fmt.Sprintf("eth%d", i)
			if i == 0 {
				ifn = p.KubeIf
			}
			p.Expect = append(p.Expect, ExpNet{Net: n, IfName: ifn})
		}
		if len(cfg.DefaultNets) == 0 {
			p.ExpectFail = true
		}
	}
	if p.ExpectFail {
		p.Expect = nil
	}
	for i := range p.Expect {
		p.Expect[i].Type = cfg.net(p.Expect[i].Net).Type
	}
	if c.Prob(1, 3) {
		// extended CNI args (opaque for this world; C13 checks their content)
		ipinfos := fmt.Sprintf(`[{"ip":"10.%d.0.%d/24","vlan":%d,"gateway":"10.%d.0.1"}]`, 50+idx, 2+idx, c.Choose(3), 50+idx)
		p.Annotations[annArgs] = `{"common":{"ipinfos":` + ipinfos + `}}`
		p.CommonArgs = map[string]string{"ipinfos": ipinfos}
		if c.Prob(1, 3) {
			p.Annotations[annArgs] = `{"common":{"ipinfos":` + ipinfos + `,"zone":"\"az-1\""}}`
			p.CommonArgs["zone"] = `"\"az-1\""`
		}
	}
	if withPorts {
		genPorts(c, cfg, p)
		// pods this node's daemon must ignore at start-up: bound to another node, or on the host network
		switch c.Choose(14) {
		case 12:
			p.OtherNode = true
		case 13:
			p.HostNetwork = true
		}
	}
	return p
}

// genPorts gives a pod 0-4 host ports: fixed and random, TCP/UDP, with and without host IP.
func genPorts(c *core.Choices, cfg *Config, p *PodDef) {
	n := c.Choose(5)
	p.RandomPorts = c.Prob(1, 2)
	for i := 0; i < n; i++ {
		pd := PortDef{ContainerPort: 8000 + 10*p.Idx + i, Proto: pick(c, []string{"TCP", "TCP", "UDP"})}
		switch c.Choose(4) {
		case 0:
			pd.HostPort = 0 // random if the pod asks for port mapping, ignored otherwise
		case 1:
			pd.HostPort = 30000 + c.Choose(4) // small pool: collisions between pods
		case 2:
			pd.HostPort = cfg.EphLo + c.Choose(cfg.EphHi-cfg.EphLo+1) // a fixed port inside the ephemeral range
		case 3:
			pd.HostPort = 8000 + 10*p.Idx + i
		}
		if c.Prob(1, 4) {
			pd.HostIP = pick(c, []string{"192.168.1.10", "10.0.0.5"})
		}
		p.Ports = append(p.Ports, pd)
	}
	if p.RandomPorts {
		p.Annotations[annPortMapping] = ""
	}
}

func hexID(seed uint64, a, b int) string {
	var sb strings.Builder
	h := core.Mix(seed, uint64(a), uint64(b))
	for sb.Len() < 64 {
		sb.WriteString(fmt.Sprintf("%016x", h))
		h = core.Mix(h, 1)
	}
	return sb.String()[:64]
}

func base32ish(seed uint64, n int) string {
	const al = "ABCDEFGHIJKLMNOPQRSTUVWXYZ234567"
	var sb strings.Builder
	h := seed
	for i := 0; i < n; i++ {
		h = core.Mix(h, uint64(i))
		sb.WriteByte(al[h%32])
	}
	return sb.String()
}

// genPriorNAT renders prior NAT-table contents: foreign chains and rules, stale KUBE-HP-* chains with their
// KUBE-HOSTPORTS rules, possibly a KUBE-MARK-MASQ chain and the hostport jump rules of an earlier life.
func genPriorNAT(c *core.Choices, cfg *Config) {
	var chains, rules []string
	chains = append(chains, ":PREROUTING ACCEPT [0:0]", ":INPUT ACCEPT [0:0]", ":OUTPUT ACCEPT [0:0]", ":POSTROUTING ACCEPT [0:0]")
	if c.Prob(2, 3) {
		chains = append(chains, ":DOCKER - [0:0]")
		rules = append(rules, "-A PREROUTING -m addrtype --dst-type LOCAL -j DOCKER", "-A OUTPUT ! -d 127.0.0.0/8 -m addrtype --dst-type LOCAL -j DOCKER",
			"-A POSTROUTING -s 172.17.0.0/16 ! -o docker0 -j MASQUERADE", "-A DOCKER -i docker0 -j RETURN")
	}
	if c.Prob(1, 2) {
		chains = append(chains, ":KUBE-SERVICES - [0:0]", ":KUBE-POSTROUTING - [0:0]", ":KUBE-SVC-NPX46M4PTMTKRN6Y - [0:0]", ":KUBE-SEP-ABCDEFGHIJKLMNOP - [0:0]")
		rules = append(rules, `-A PREROUTING -m comment --comment "kubernetes service portals" -j KUBE-SERVICES`,
			`-A OUTPUT -m comment --comment "kubernetes service portals" -j KUBE-SERVICES`,
			`-A POSTROUTING -m comment --comment "kubernetes postrouting rules" -j KUBE-POSTROUTING`,
			`-A KUBE-POSTROUTING -m comment --comment "kubernetes service traffic requiring SNAT" -m mark --mark 0x4000/0x4000 -j MASQUERADE`,
			`-A KUBE-SERVICES -d 10.96.0.1/32 -p tcp -m comment --comment "default/kubernetes:https cluster IP" -m tcp --dport 443 -j KUBE-SVC-NPX46M4PTMTKRN6Y`,
			`-A KUBE-SVC-NPX46M4PTMTKRN6Y -j KUBE-SEP-ABCDEFGHIJKLMNOP`,
			`-A KUBE-SEP-ABCDEFGHIJKLMNOP -p tcp -m tcp -j DNAT --to-destination 192.168.1.10:6443`)
	}
	mark := c.Choose(3)
	if mark > 0 {
		chains = append(chains, ":KUBE-MARK-MASQ - [0:0]")
		if mark == 1 {
			rules = append(rules, "-A KUBE-MARK-MASQ -j MARK --set-xmark 0x4000/0x4000")
		} else {
			rules = append(rules, "-A KUBE-MARK-MASQ -j MARK --or-mark 0x4000")
		}
	}
	stale := c.Choose(4)
	if stale > 0 || c.Prob(1, 2) {
		chains = append(chains, ":KUBE-HOSTPORTS - [0:0]")
		if c.Prob(2, 3) {
			rules = append(rules, `-A PREROUTING -m comment --comment "kube hostport portals" -m addrtype --dst-type LOCAL -j KUBE-HOSTPORTS`)
		}
		if c.Prob(2, 3) {
			rules = append(rules, `-A OUTPUT -m comment --comment "kube hostport portals" -m addrtype --dst-type LOCAL -j KUBE-HOSTPORTS`)
		}
	}
	for i := 0; i < stale; i++ {
		ch := "KUBE-HP-" + base32ish(cfg.ScriptSeed+uint64(i), 16)
		chains = append(chains, ":"+ch+" - [0:0]")
		port := 31000 + i
		switch c.Choose(3) {
		case 0, 1:
			rules = append(rules, fmt.Sprintf(`-A KUBE-HOSTPORTS -m comment --comment "old-%d hostport %d" -m tcp -p tcp --dport %d -j %s`, i, port, port, ch),
				fmt.Sprintf(`-A %s -m comment --comment "old-%d hostport %d" -s 172.16.9.%d -j KUBE-MARK-MASQ`, ch, i, port, 10+i),
				fmt.Sprintf(`-A %s -m comment --comment "old-%d hostport %d" -m tcp -p tcp -j DNAT --to-destination=172.16.9.%d:80`, ch, i, port, 10+i))
			if mark == 0 {
				chains = append(chains, ":KUBE-MARK-MASQ - [0:0]")
				mark = 1
			}
		case 2:
			// an orphan chain nobody jumps to, with a rule in it
			rules = append(rules, fmt.Sprintf(`-A %s -m tcp -p tcp -j DNAT --to-destination=172.16.9.%d:80`, ch, 10+i))
		}
	}
	cfg.PriorNAT = "*nat\n" + strings.Join(chains, "\n") + "\n" + strings.Join(rules, "\n") + "\nCOMMIT\n"
}

var gcDirs = []string{"/var/lib/cni/flannel", "/var/lib/cni/galaxy", "/var/lib/cni/galaxy/port"}
var ipDirs = []string{"/var/lib/cni/networks", "/var/lib/cni/networks/galaxy-flannel"}

// genLeftovers populates the GC and IP directories with files of containers in every state and with files that
// are not container files.
func genLeftovers(c *core.Choices, cfg *Config) {
	states := []string{"running", "exited", "dead", "absent", "created", "paused", "restarting"}
	n := c.Choose(6)
	for i := 0; i < n; i++ {
		lo := Leftover{ID: hexID(cfg.ScriptSeed, 900, i), State: states[c.Choose(len(states))], PodNS: "default", PodName: fmt.Sprintf("left-%d", i)}
		if c.Prob(1, 5) {
			lo.ID = lo.ID[:12]
		}
		lo.PodStatus = pick(c, []string{"", "", "terminated", "running", "waiting", "mixed", "none"})
		cfg.Leftovers = append(cfg.Leftovers, lo)
		if len(lo.ID) >= 9 {
			// host side veth devices it left behind
			if c.Prob(1, 2) {
				cfg.Links = append(cfg.Links, LinkDef{"v-h" + lo.ID[:9], "veth"})
			}
			if c.Prob(1, 4) {
				cfg.Links = append(cfg.Links, LinkDef{"v-h" + lo.ID[:9] + "-2", "veth"})
			}
			if c.Prob(1, 6) {
				cfg.Links = append(cfg.Links, LinkDef{"v-h" + lo.ID[:9] + "-a-b", "veth"}) // three parts: not one of galaxy's names
			}
			if c.Prob(1, 6) {
				cfg.Links = append(cfg.Links, LinkDef{"v-s" + lo.ID[:9], "veth"}) // another prefix
			}
		}
		for j, d := range gcDirs {
			if c.Prob(1, 2) {
				data := `[{"NetworkType":"galaxy-flannel","Args":{},"Conf":{"type":"galaxy-flannel"},"IfName":"eth0"}]`
				if j == 2 {
					data = fmt.Sprintf(`[{"hostPort":%d,"containerPort":80,"protocol":"TCP","podName":"%s","podIP":"172.16.8.%d"}]`, 31500+i, lo.PodName, 10+i)
					switch c.Choose(8) {
					case 0, 1:
						data = "" // created, never written (crash between open and write)
					case 2:
						data = data[:len(data)/2] // truncated by a crash or a full disk during SavePort
					case 3:
						data = pick(c, []string{"{", "x", "[{\"hostPort\":", "null"})
					}
				}
				cfg.Files = append(cfg.Files, FileDef{Path: d + "/" + lo.ID, Data: data})
			}
		}
		if c.Prob(1, 3) {
			// an IPv6 reservation of the same container
			cfg.Files = append(cfg.Files, FileDef{Path: fmt.Sprintf("%s/fd00::8:%x", ipDirs[c.Choose(2)], 16+i), Data: lo.ID + "\neth0"})
		}
		if c.Prob(2, 3) {
			sep := pick(c, []string{"\n", "\r\n", ""})
			content := lo.ID
			if sep != "" {
				content += sep + "eth0"
			}
			cfg.Files = append(cfg.Files, FileDef{Path: fmt.Sprintf("%s/172.16.8.%d", ipDirs[c.Choose(2)], 10+i), Data: content})
		}
	}
	// an earlier sandbox of one of the run's pods that died without a DEL and left its port file behind
	for _, p := range cfg.Pods {
		var ps []string
		for _, pd := range p.Ports {
			if pd.HostPort > 0 {
				hip := ""
				if pd.HostIP != "" {
					hip = fmt.Sprintf(`"hostIP":%q,`, pd.HostIP)
				}
				ps = append(ps, fmt.Sprintf(`{"hostPort":%d,"containerPort":%d,"protocol":%q,%s"podName":%q,"podIP":"172.16.%d.250"}`, pd.HostPort, pd.ContainerPort, pd.Proto, hip, p.Name, 10+p.Idx))
			}
		}
		if len(ps) == 0 || !c.Prob(1, 10) {
			continue
		}
		lo := Leftover{ID: hexID(cfg.ScriptSeed, 800, p.Idx), State: pick(c, []string{"exited", "dead", "absent", "running"}), PodNS: p.NS, PodName: p.Name}
		cfg.Leftovers = append(cfg.Leftovers, lo)
		pdata := "[" + strings.Join(ps, ",") + "]"
		if c.Prob(1, 3) {
			pdata = pdata[:len(pdata)/2]
		}
		cfg.Files = append(cfg.Files, FileDef{Path: gcDirs[2] + "/" + lo.ID, Data: pdata})
		if c.Prob(1, 2) {
			cfg.Files = append(cfg.Files, FileDef{Path: gcDirs[1] + "/" + lo.ID, Data: `[]`})
		}
	}
	// devices that are not host veths of containers
	for _, l := range []LinkDef{{"v-hbridge0", "bridge"}, {"eth0", "device"}, {"docker0", "bridge"}, {"veth12ab34", "veth"}, {"v-hdeadbeef0", "veth"}, {"v-h", "veth"}, {"v-hcafe01234-x", "veth"}, {"v-htunl0", "ipip"}} {
		if c.Prob(1, 3) {
			cfg.Links = append(cfg.Links, l)
		}
	}
	// non-container files
	if c.Prob(1, 2) {
		cfg.Files = append(cfg.Files, FileDef{Path: ipDirs[1] + "/last_reserved_ip.0", Data: "172.16.8.77"})
	}
	if c.Prob(1, 3) {
		cfg.Files = append(cfg.Files, FileDef{Path: ipDirs[0] + "/lock", Data: ""})
	}
	if c.Prob(1, 3) {
		cfg.Files = append(cfg.Files, FileDef{Path: ipDirs[1] + "/172.16.8.200", Data: ""}) // empty ip file
	}
	if c.Prob(1, 3) {
		cfg.Files = append(cfg.Files, FileDef{Path: gcDirs[0] + "/README", Data: "hello"})
	}
	if c.Prob(1, 3) {
		cfg.Files = append(cfg.Files, FileDef{Path: gcDirs[1] + "/tmpdir", Dir: true})
	}
	// files that belong to no container, in every directory the collectors walk
	for i, d := range gcDirs {
		if c.Prob(1, 3) {
			cfg.Files = append(cfg.Files, FileDef{Path: d + "/" + []string{"notes.txt", "lock", ".keep"}[i], Data: pick(c, []string{"", "x", "[]"})})
		}
	}
	for i, d := range ipDirs {
		if c.Prob(1, 3) {
			// an IP-named file whose content names nothing the runtime knows, and a file that is no IP at all
			cfg.Files = append(cfg.Files, FileDef{Path: fmt.Sprintf("%s/172.16.9.%d", d, 50+i), Data: pick(c, []string{"not-a-container", "not-a-container\neth0", "\n"})})
		}
		if c.Prob(1, 3) {
			cfg.Files = append(cfg.Files, FileDef{Path: d + "/" + []string{"last_reserved_ip.1", "README"}[i], Data: "172.16.9.9"})
		}
	}
	for _, d := range append(append([]string{}, gcDirs...), ipDirs...) {
		if c.Prob(2, 3) {
			cfg.Files = append(cfg.Files, FileDef{Path: d, Dir: true})
		}
	}
}

// genConfig draws the static configuration of a run.
func genConfig(c *core.Choices, prop string) *Config {
	cfg := &Config{Prop: prop, EphLo: 32768, EphHi: 32768 + 5}
	cfg.ScriptSeed = uint64(c.Choose(1 << 30))
	cfg.Containerd = c.Prob(1, 2)
	genNetworks(c, cfg)
	if prop == "C18" {
		hostileConfFiles(c, cfg)
	}
	cfg.configFiles(c)
	withPorts := prop == "C14" || prop == "C17" || prop == "C19" || prop == "C18"
	np := c.Range(1, 6)
	for i := 0; i < np; i++ {
		p := genPod(c, cfg, i, withPorts)
		if prop == "C18" && i > 0 && c.Prob(1, 2) {
			hostilePod(c, p) // pod 0 stays ordinary: its requests are the follow-up that must still be answered
		}
		cfg.Pods = append(cfg.Pods, p)
	}
	rates := []int{0, 0, 150, 350, 600}
	if prop == "C19" || prop == "C18" {
		cfg.AddFailRate = []int{0, 100, 250}[c.Choose(3)]
		cfg.DelFailRate = []int{0, 100, 250}[c.Choose(3)]
	}
	if prop == "C12" {
		cfg.AddFailRate = rates[c.Choose(len(rates))]
		cfg.DelFailRate = rates[c.Choose(len(rates))]
	}
	switch prop {
	case "C12":
		cfg.BadResultRate = []int{0, 0, 0, 120}[c.Choose(4)]
	case "C14", "C17", "C19":
		cfg.BadResultRate = []int{0, 0, 80}[c.Choose(3)]
	case "C18":
		cfg.BadResultRate = []int{0, 120, 250}[c.Choose(3)]
	}
	if prop == "C14" || prop == "C17" || prop == "C19" || prop == "C18" {
		genPriorNAT(c, cfg)
		for i, n := 0, c.Choose(3); i < n; i++ {
			port := []int{30000, 30001, 32768, 32770, 8000, 8011}[c.Choose(6)]
			cfg.ForeignPorts = append(cfg.ForeignPorts, fmt.Sprintf("%s/%d", pick(c, []string{"tcp", "udp"}), port))
		}
	}
	if prop == "C17" || prop == "C19" || prop == "C18" {
		genLeftovers(c, cfg)
	}
	if prop == "C17" && c.Prob(1, 3) {
		// an operator's gc_dirs that does not list the port directory: port files and mappings of dead containers are
		// then reached only through the port-clean callback that every collected state file triggers
		cfg.GCDirsFlag = gcDirs[0] + "," + gcDirs[1]
	}
	var forms []string
	for _, n := range cfg.Nets {
		forms = append(forms, n.Form[:1])
	}
	sort.Strings(forms)
	cfg.Summary = fmt.Sprintf("nets=%d(%s) defaults=%d eni=%v pods=%d containerd=%v", len(cfg.Nets), strings.Join(forms, ""), len(cfg.DefaultNets), cfg.ENINet != "", len(cfg.Pods), cfg.Containerd)
	return cfg
}
