// Package w2 is world W2: the per-node galaxy daemon (CNI multiplexer, host-port mapping, garbage collector)
// under deterministic simulation. Scheduler-side code: simulated node (file system, port table, netfilter
// kernel, container runtime, fake CNI plugin runtime, API server), kubelet model, faults, crash/restart, and
// the oracles of C12, C14 and C17.
package w2

import (
	"encoding/json"
	"fmt"
	"sort"
	"strconv"
	"strings"

	corev1 "k8s.io/api/core/v1"
	"k8s.io/apimachinery/pkg/api/resource"
	metav1 "k8s.io/apimachinery/pkg/apis/meta/v1"
	"tkestack.io/galaxy/verifsim/core"
	"tkestack.io/galaxy/verifsim/dropin/simnet"
	"tkestack.io/galaxy/verifsim/dropin/simnetlink"
	"tkestack.io/galaxy/verifsim/dropin/simos"
	"tkestack.io/galaxy/verifsim/simkube"
)

// Mapping is one host-port mapping handed out to a container.
type Mapping struct {
	Proto         string // lower case
	HostPort      int
	HostIP        string
	PodIP         string
	ContainerPort int
}

func (m Mapping) String() string {
	return fmt.Sprintf("%s:%s:%d->%s:%d", m.Proto, m.HostIP, m.HostPort, m.PodIP, m.ContainerPort)
}

// Invocation is what the fake plugin saw.
type Invocation struct {
	Req       string
	Cmd       string
	Container string
	Netns     string
	IfName    string
	Args      string
	Path      string
	Plugin    string
	Stdin     []byte
	Failed    bool
	BadResult bool // succeeded, but printed a result without a usable IPv4 address
}

// Container is a pod sandbox.
type Container struct {
	ID    string
	Pod   *PodDef
	Seq   int
	State string // runtime truth: docker status, or ready/notready for containerd; "absent" = unknown to the runtime
	Phase string // kubelet's view of the CNI life cycle: new, up, addfailed, delfailed, down
	Busy  *Request
	// C12 model
	Remaining []int // indexes into Pod.Expect of the networks whose state galaxy still has to tear down
	Tainted   bool  // an injected non-plugin fault or a crash hit one of its requests: only the weak clauses apply
	Cmds      []string
	Invs      []*Invocation
	// C14 / C17
	IP       string
	Mappings []Mapping
	UpProc   int             // daemon incarnation in which its ports were (re)opened
	DelOK    bool
	DelOKProc int // daemon incarnation that answered its first successful DEL
	prevDelClean bool // its previous request was a DEL that ended without injected fault and without plugin failure (it consumed the recorded state)
	LateDels  int  // DELs sent after it stopped being the pod's current sandbox
	Abandoned bool // kubelet will never send DEL (C17)
	DelTries int
	lastIP   string
	resynced bool // a daemon start re-installed its mappings from the API server after it had died
	Lost     map[string]bool // proto/port taken by another process while the daemon was down
}

// Request is one CNI request in flight or finished.
type Request struct {
	ID   string
	Cmd  string
	C    *Container
	Task *core.Task
	// C12
	addIdx       int
	failedAt     int
	rollbackNext int
	delExpect    []int
	delPos       int
	delFailed    []int
	lastIdx      int
	extFault     bool
	// C14
	before  []string
	inUse   bool
	fault   bool
	invoked   int  // plugin invocations during this request
	pluginFailed bool // a scripted plugin failure hit this request
	badResult bool // the last plugin succeeded with a result the daemon cannot use: the request fails for that reason
	overlap bool // another request of the same pod was in flight while this one ran
	opened  []string
	Done    bool
	Code    int
	Resp    []byte
}

// Profile selects what a run of a property exercises.
type Profile struct {
	Ops        [2]int
	Concurrent bool
	Crash      bool
	Stop       bool // graceful restart when idle
	FS, API, IPT, NetInUse, Runtime bool
	GC         bool
	Ports      bool
	SetupIPT   bool
	RealGCRun  bool // start the collectors with the real Run() (periodic loops) before the start-time synchronisation, as Galaxy.Start does
	States     bool // container states change (without GC rounds of the world's own)
	Hostile    bool // C18: hostile requests, annotations, configuration texts and state files
	Overlap    bool // the teardown of an old sandbox (kubelet GC / PLEG cleanup) may overlap the ADD of the pod's replacement sandbox, and may come late
}

func profileFor(prop string) Profile {
	switch prop {
	case "C12":
		return Profile{Ops: [2]int{4, 26}, Concurrent: true, Crash: true, FS: true, API: true, SetupIPT: true}
	case "C14":
		return Profile{Ops: [2]int{4, 22}, Stop: true, FS: true, IPT: true, API: true, NetInUse: true, Ports: true, SetupIPT: true, Overlap: true}
	case "C17":
		// the quantifier of C17 is inputs x fault sequences, not schedules: operations (requests, GC rounds, state
		// changes) do not overlap; the two collectors of a round still interleave with each other
		return Profile{Ops: [2]int{6, 28}, Runtime: true, GC: true, Ports: true, SetupIPT: true, FS: true, API: true, Crash: true}
	case "C19":
		// maximal concurrency on one shared instance: concurrent requests of several containers through the real
		// handler, the real GC loops and the real periodic EnsureBasicRule loop ticking while requests are in flight,
		// pod store updates; no crash, no injected environment faults (scripted plugin failures exercise rollback)
		return Profile{Ops: [2]int{10, 34}, Concurrent: true, Ports: true, SetupIPT: true, RealGCRun: true, States: true, Overlap: true}
	case "C18":
		return Profile{Ops: [2]int{6, 24}, Concurrent: false, Ports: true, SetupIPT: true, Hostile: true, States: true, RealGCRun: true}
	}
	return Profile{Ops: [2]int{4, 20}, Concurrent: true, SetupIPT: true}
}

// SoloSpec asks for the re-execution of one container's request sequence alone.
type SoloSpec struct {
	PodIdx int
	ID     string
	Seq    int
	Cmds   []string
}

// World is W2.
type World struct {
	S    *core.Sim
	C    *core.Choices
	K    *simkube.Kube
	FS   *simos.FS
	Net  *simnet.Table
	Links *simnetlink.Links
	Kern *Kernel
	cfg  *Config
	prop string
	prof Profile
	solo *SoloSpec

	inst     *Instance
	proc     int
	ready    bool
	down     bool // daemon not running (crashed, stopped or failed to start)
	starts   int
	startErr string

	phase    int // 1 work, 2 drain, 3 final, 4 done
	opsLeft  int
	opGap    int
	lastOp   int
	maxInfl  int
	conts    []*Container
	byID     map[string]*Container
	cur      map[int]*Container // pod idx -> current sandbox
	made     map[int]int        // pod idx -> sandboxes created
	reqs     map[string]*Request
	reqSeq   int
	inflight []*Request
	attempts map[string]int
	soloPos  int

	// faults (per-run swarm parameters, per mille)
	faultsOn  bool
	fsRate, apiRate, iptRate, rtRate int
	nlRate, conflictRate             int
	rtDownLeft int
	unscripted int // number of non-scripted faults and crashes that fired

	// runtime
	leftovers map[string]*Leftover

	// gc
	gcRound   int
	gcBusy    map[string]*core.Task
	gcState   map[*core.Task]*gcTaskState
	finalStage int

	// C14
	podChains   map[int]map[string]bool // pod idx -> KUBE-HP chains that appeared while its ADD requests ran
	podBase     map[int]map[string]int  // pod idx -> NAT lines before its first ADD
	podOpens    map[int][]openEvent     // pod idx -> socket opens by its ADD requests
	portPod     map[string]int          // proto/port -> pod idx that was last given the port
	podEdited   map[int]bool            // somebody removed the pod's annotations during the run
	gcTriggered map[string]bool         // ids that had a file in a configured gc dir when faults stopped (C17, port dir not configured)
	portValid   map[string]bool         // ids whose port file held a readable, non-empty port list at that moment
	baseNAT     []string // NAT lines after the first successful start
	preStart    []string
	syncOK      int

	killDaemonSoon bool
	initFaults, initFaultsAtStart int // faults injected into daemon start attempts
	rawBusy        map[string]*core.Task // hostile raw requests in flight (C18)
	badConfig      bool                  // a hostile galaxy.json is installed (C18)
	halfWritten    map[string]bool // files created (truncated) by the daemon whose write has not happened yet
	crashBudget    int
	crashAt        int
	foreign        []string // foreign ports bound during the run
	decoded        []DecodedIP // what the plugin-side decoder made of the last ipinfos arguments
	c13Invs        []C13Invocation // every plugin ADD: what the decoder made of its arguments

	key     string
	summary []string
	states  []string
}

func (w *World) fail(oracle, key, format string, a ...interface{}) {
	if w.S.Viol == nil {
		w.key = key
		w.S.Fail(oracle, format, a...)
	}
}

func (w *World) armed(p string) bool { return w.prop == p }

// NewWorld builds the world of one run. cfg == nil draws a configuration from the choice stream.
func NewWorld(s *core.Sim, prop string, cfg *Config, solo *SoloSpec) *World {
	w := &World{S: s, C: s.C, prop: prop, prof: profileFor(prop), solo: solo, byID: map[string]*Container{}, cur: map[int]*Container{},
		made: map[int]int{}, reqs: map[string]*Request{}, attempts: map[string]int{}, leftovers: map[string]*Leftover{},
		gcBusy: map[string]*core.Task{}, gcState: map[*core.Task]*gcTaskState{}, halfWritten: map[string]bool{}, rawBusy: map[string]*core.Task{}, podChains: map[int]map[string]bool{}, podBase: map[int]map[string]int{}, podOpens: map[int][]openEvent{}, portPod: map[string]int{}, podEdited: map[int]bool{}, gcTriggered: map[string]bool{}, portValid: map[string]bool{}}
	c := w.C
	if cfg == nil {
		cfg = genConfig(c, prop)
	}
	w.cfg = cfg
	w.K = simkube.New(s)
	w.FS = simos.NewFS()
	w.FS.Host = nodeName
	if cfg.Containerd {
		w.FS.Env["CONTAINERD_HOST"] = "unix:///run/containerd/containerd.sock"
	}
	if c.Prob(1, 2) {
		w.FS.Env["MY_NODE_NAME"] = nodeName
	}
	w.FS.FaultHook = w.fsFault
	w.FS.OnMutate = w.onFSMutate
	w.Net = simnet.NewTable(s, cfg.EphLo, cfg.EphHi)
	w.Net.OnClose = w.onSockClose
	w.Net.OnOpen = w.onSockOpen
	w.Kern = NewKernel()
	if cfg.PriorNAT != "" {
		w.Kern.LoadText(cfg.PriorNAT)
	}
	for _, f := range cfg.Files {
		if f.Dir {
			w.FS.Mkdir(f.Path)
		} else {
			w.FS.Put(f.Path, []byte(f.Data))
		}
	}
	for _, fp := range cfg.ForeignPorts {
		parts := strings.Split(fp, "/")
		port, _ := strconv.Atoi(parts[1])
		w.Net.BindForeign(parts[0], port)
	}
	for i := range cfg.Leftovers {
		lo := &cfg.Leftovers[i]
		w.leftovers[lo.ID] = lo
		if lo.PodStatus != "" && w.K.Get("pods", lo.PodNS, lo.PodName) == nil {
			w.createLeftoverPod(lo)
		}
	}
	w.Links = simnetlink.NewLinks()
	for _, l := range cfg.Links {
		w.Links.Add(l.Name, l.Type)
	}
	w.Links.FaultHook = w.linkFault
	w.Links.ListFault = func(t *core.Task) int {
		if w.faultsOn && w.nlRate > 0 && w.galaxyTask(t) && w.C.Prob(w.nlRate, 1000) {
			w.S.Stat("fault.nl.linklist.err")
			w.S.Sig("F:nl.list")
			w.unscripted++
			return 12 // ENOMEM
		}
		return 0
	}
	w.Links.OnDelete = w.onLinkDelete
	s.OnPanic = w.onPanic
	s.OnLockLeak = func(t *core.Task, held int) {
		w.S.Stat("lockleak")
		if w.armed("C18") {
			w.fail("C18.lock-leak", "lock-leak", "task %s ended while holding %d lock(s)", t.Name, held)
		}
	}
	w.phase = 1
	w.faultsOn = true
	if solo != nil {
		w.prof = Profile{SetupIPT: w.prof.SetupIPT}
		w.opsLeft = len(solo.Cmds)
		w.maxInfl = 1
		p := cfg.Pods[solo.PodIdx]
		w.createPodObject(p)
		return w
	}
	w.opsLeft = c.Range(w.prof.Ops[0], w.prof.Ops[1])
	w.maxInfl = 1
	if w.prof.Concurrent {
		w.maxInfl = 1 + c.Choose(4)
		w.opGap = []int{0, 4, 15, 40}[c.Choose(4)]
		if prop == "C19" {
			w.maxInfl = 2 + c.Choose(4)
			w.opGap = []int{0, 2, 6}[c.Choose(3)]
		}
	}
	// fault swarm: most runs enable few kinds at low rates
	rate := func(on bool) int {
		if !on {
			return 0
		}
		return []int{0, 0, 0, 15, 40, 100}[c.Choose(6)]
	}
	w.fsRate, w.apiRate, w.iptRate, w.rtRate = rate(w.prof.FS), rate(w.prof.API), rate(w.prof.IPT), rate(w.prof.Runtime)
	w.nlRate = rate(w.prof.Runtime)
	if prop == "C14" {
		w.conflictRate = []int{0, 0, 100, 300}[c.Choose(4)]
	}
	if w.prof.Crash {
		w.crashBudget = []int{0, 0, 1, 2}[c.Choose(4)]
		w.crashAt = 30 + c.Choose(500)
	}
	for _, p := range cfg.Pods {
		w.createPodObject(p)
	}
	return w
}

func (w *World) mustCreate(kind string, obj interface{}) {
	b, err := json.Marshal(obj)
	if err != nil {
		panic(err)
	}
	if _, code, msg := w.K.Create(nil, kind, b); code != 0 {
		panic(fmt.Sprintf("world create %s: %d %s", kind, code, msg))
	}
}

func (w *World) createPodObject(p *PodDef) {
	pod := corev1.Pod{TypeMeta: metav1.TypeMeta{Kind: "Pod", APIVersion: "v1"},
		ObjectMeta: metav1.ObjectMeta{Name: p.Name, Namespace: p.NS},
		Spec:       corev1.PodSpec{NodeName: nodeName, HostNetwork: p.HostNetwork, Containers: []corev1.Container{{Name: "c"}}},
		Status:     corev1.PodStatus{Phase: corev1.PodPending}}
	if len(p.Annotations) > 0 {
		pod.Annotations = map[string]string{}
		for k, v := range p.Annotations {
			pod.Annotations[k] = v
		}
	}
	if p.OtherNode {
		pod.Spec.NodeName = "node2"
		pod.Status.PodIP = fmt.Sprintf("172.16.99.%d", 10+p.Idx)
	}
	if p.HostNetwork {
		pod.Status.PodIP = "192.168.1.10"
	}
	for i := 1; i < p.NContainers; i++ {
		pod.Spec.Containers = append(pod.Spec.Containers, corev1.Container{Name: fmt.Sprintf("c%d", i)})
	}
	if p.WantENI {
		q := resource.NewQuantity(1, resource.DecimalSI)
		on := p.ENIOn
		if on >= len(pod.Spec.Containers) {
			on = 0
		}
		pod.Spec.Containers[on].Resources.Requests = corev1.ResourceList{corev1.ResourceName(eniResource): *q}
		// the other containers ask for ordinary resources only
		for i := range pod.Spec.Containers {
			if i != on {
				pod.Spec.Containers[i].Resources.Requests = corev1.ResourceList{corev1.ResourceCPU: *resource.NewMilliQuantity(100, resource.DecimalSI)}
			}
		}
	}
	for j, pd := range p.Ports {
		ci := j % len(pod.Spec.Containers)
		pod.Spec.Containers[ci].Ports = append(pod.Spec.Containers[ci].Ports, corev1.ContainerPort{ContainerPort: int32(pd.ContainerPort),
			HostPort: int32(pd.HostPort), Protocol: corev1.Protocol(pd.Proto), HostIP: pd.HostIP})
	}
	w.mustCreate("pods", pod)
}

// ---------------------------------------------------------------------------------------------------------
// process

// StartProcess starts (or restarts) the daemon.
func (w *World) StartProcess() {
	w.proc = w.S.NewProc()
	w.inst = &Instance{proc: w.proc}
	w.ready, w.down = false, false
	w.starts++
	w.startErr = ""
	w.initFaultsAtStart = w.initFaults
	inst := w.inst
	p := startParams{JSONConfigPath: jsonConfigPath, ConfDir: confDir, CNIPaths: []string{galaxyCNIPath}, SetupIPtables: w.prof.SetupIPT, RunGC: w.prof.RealGCRun, GCDirs: strings.Join(w.gcDirsCfg(), ",")}
	w.preStart = w.Kern.Lines("nat")
	t := w.S.Spawn(fmt.Sprintf("init#%d", w.proc), w.proc, func() { startDaemon(inst, p) })
	t.Tag = "init"
}

// killDaemon ends the process: tasks die, sockets close, memory is gone; files and kernel tables stay.
func (w *World) killDaemon(crash bool) {
	w.S.Kill(w.proc)
	n := w.Net.DropProc(w.proc)
	w.S.Logf("daemon killed (crash=%v): %d sockets closed", crash, n)
	if crash && len(w.halfWritten) > 0 {
		// a file had been created/truncated but its content not yet written: the write is lost
		w.S.Stat("fault.fs.lost")
		w.S.Sig("F:fs.lost")
	}
	w.halfWritten = map[string]bool{}
	w.inst = nil
	w.ready, w.down = false, true
	for _, r := range w.inflight {
		if !r.Done {
			r.Done = true
			r.Code = -1
			r.extFault = true
			w.requestEnded(r, true)
		}
	}
	w.inflight = nil
	w.gcBusy = map[string]*core.Task{}
}

func (w *World) galaxyTask(t *core.Task) bool { return t != nil && t.Proc == w.proc && t.Proc != 0 }

func reqOf(t *core.Task) *Request {
	if t == nil {
		return nil
	}
	r, _ := t.Data.(*Request)
	return r
}

// ---------------------------------------------------------------------------------------------------------
// environment calls

func (w *World) Handle(t *core.Task, r *core.Req) core.Resp {
	switch {
	case simkube.IsAPI(r.Op):
		if w.galaxyTask(t) && w.faultsOn && len(r.A) > 0 && r.A[0] == "pods" {
			w.podEdits(t, r)
		}
		// C14 also lets the start-time pod list fail (the daemon then fails to start and is restarted); C17 injects
		// API errors only into the collectors' pod lookups (part of asking whether a sandbox is dead)
		if w.galaxyTask(t) && (t.Tag != "init" || w.armed("C14")) && (!w.armed("C17") || t.Tag == "gc") && w.faultsOn && w.apiRate > 0 && w.C.Prob(w.apiRate, 1000) {
			w.S.Stat("fault.api.err")
			w.S.Sig("F:api:" + r.Op)
			w.noteFault(t)
			switch w.C.Choose(3) {
			case 0:
				return core.Resp{Code: simkube.CodeServerTimeout, Msg: "simulated server timeout"}
			case 1:
				return core.Resp{Code: simkube.CodeInternal, Msg: "simulated internal error"}
			}
			return core.Resp{Code: simkube.CodeRefused, Msg: "simulated connection refused"}
		}
		return w.K.Handle(t, r)
	case strings.HasPrefix(r.Op, "view."):
		return w.K.Handle(t, r)
	case simos.IsFSOp(r.Op):
		return w.FS.Handle(t, r)
	case simnetlink.IsLinkOp(r.Op):
		return w.Links.Handle(t, r)
	case simnet.IsNetOp(r.Op):
		if rq := reqOf(t); rq != nil {
			w.Net.CurOpener = rq.ID
		} else {
			w.Net.CurOpener = t.Tag
		}
		resp := w.Net.Handle(t, r)
		if r.Op == "net.listen" && resp.Code != 0 {
			w.S.Stat("probe.port-in-use")
			if rq := reqOf(t); rq != nil {
				rq.inUse = true
			}
		}
		return resp
	case IsIptOp(r.Op):
		return w.handleIpt(t, r)
	case strings.HasPrefix(r.Op, "cni."):
		return w.handleCNI(t, r)
	case r.Op == "rt.inspect" || r.Op == "cri.status":
		return w.handleRuntime(t, r)
	case strings.HasPrefix(r.Op, "w."):
		return w.handleReport(t, r)
	}
	return core.Resp{Code: 400, Msg: "unknown op " + r.Op}
}

// noteFault records that an injected, non-scripted fault hit the request (or background task) t runs.
func (w *World) noteFault(t *core.Task) {
	w.unscripted++
	if t != nil && t.Tag == "init" {
		w.initFaults++
	}
	if rq := reqOf(t); rq != nil {
		rq.extFault = true
		rq.fault = true
		rq.C.Tainted = true
	}
}

func (w *World) fsFault(t *core.Task, op, path string, size int) simos.Fault {
	f := simos.Fault{Short: -1}
	if t != nil && t.Tag == "gc" {
		w.gcReads(t, op, path)
	}
	if !w.faultsOn || w.fsRate == 0 || !w.galaxyTask(t) || t.Tag == "init" || !strings.HasPrefix(path, "/var/lib/cni") {
		return f
	}
	if op == "fs.stat" || op == "fs.chmod" {
		return f
	}
	if w.armed("C17") && t.Tag == "gc" && op == "fs.remove" && w.C.Prob(w.fsRate, 2000) {
		// a collector's unlink fails (the file stays for the next round)
		w.S.Stat("fault.fs.err.gc-remove")
		w.S.Sig("F:fs.err:gc-remove")
		w.unscripted++
		f.Errno = simos.EIO
		return f
	}
	if w.armed("C17") && (t.Tag == "gc" || !strings.HasPrefix(path, gcDirs[2])) {
		// C17 injects file faults only into the daemon's own writes of port files (the damaged file is then an
		// input of the collectors); the collectors' file operations are not faulted
		return f
	}
	if !w.C.Prob(w.fsRate, 1000) {
		return f
	}
	w.noteFault(t)
	if op == "fs.write" && size > 1 && w.C.Prob(1, 2) {
		w.S.Stat("fault.fs.short")
		w.S.Sig("F:fs.short")
		f.Short = w.C.Choose(size)
		return f
	}
	w.S.Stat("fault.fs.err")
	w.S.Sig("F:fs.err:" + op)
	f.Errno = []int{simos.ENOSPC, simos.EIO}[w.C.Choose(2)]
	if op == "fs.readfile" || op == "fs.readdir" || op == "fs.remove" {
		f.Errno = simos.EIO
	}
	return f
}

func (w *World) handleIpt(t *core.Task, r *core.Req) core.Resp {
	mutating := r.Op != "ipt.save" && r.Op != "ipt.list"
	if w.galaxyTask(t) && w.faultsOn && w.iptRate > 0 && w.C.Prob(w.iptRate, 1000) {
		w.noteFault(t)
		if w.C.Prob(1, 2) {
			w.S.Stat("fault.ipt.err.transient")
			w.S.Sig("F:ipt.eagain:" + r.Op)
			return core.Resp{Code: 4, Msg: "iptables: Resource temporarily unavailable."}
		}
		w.S.Stat("fault.ipt.err.hard")
		w.S.Sig("F:ipt.err:" + r.Op)
		return core.Resp{Code: 1, Msg: "iptables: Memory allocation problem."}
	}
	if mutating && w.armed("C17") {
		w.oracleGCIpt(t, r)
	}
	resp := w.Kern.Handle(r)
	w.S.Stat("ipt.calls")
	return resp
}

func (w *World) handleReport(t *core.Task, r *core.Req) core.Resp {
	switch r.Op {
	case "w.ready":
		w.ready = true
		w.S.Stat("daemon.ready")
		w.onReady()
		return core.Resp{}
	case "w.startfailed":
		w.S.Stat("daemon.startfailed")
		w.S.Logf("daemon start failed at %s: %s", r.A[0], r.A[1])
		w.startErr = r.A[0] + ": " + r.A[1]
		if w.badConfig {
			// a hostile configuration text was refused with an error: the expected outcome; back to the good one
			w.S.Stat("probe.hostile-config-refused")
			w.restoreConfig()
		} else if w.initFaults == w.initFaultsAtStart {
			// no fault was injected into this start attempt
			// the daemon cannot start on this node
			if w.armed("C18") {
				// no hostile configuration text is installed and nothing was injected, yet the daemon refuses to start:
				// with the objects now in the API server it can never come up again (crash loop)
				w.fail("C18.crash-loop", "start-fails@"+r.A[0], "with the good configuration and without any injected fault the daemon fails to start (%s): %s", r.A[0], r.A[1])
			} else if w.armed("C14") && r.A[0] == "setup-iptables" {
				w.fail("C14.full-sync", "full-sync-fails", "start-time synchronisation failed without any injected fault: %s", r.A[1])
			} else if r.A[0] != "setup-iptables" {
				w.S.Infra = "daemon failed to start: " + w.startErr
			}
		}
		// the process exits; its init task is done, reap the rest
		w.killDaemonSoon = true
		return core.Resp{}
	case "w.cnidone":
		rq := w.reqs[r.A[0]]
		if rq == nil || rq.Done {
			return core.Resp{}
		}
		rq.Done = true
		rq.Code, _ = strconv.Atoi(r.A[1])
		rq.Resp = r.B
		w.requestEnded(rq, false)
		return core.Resp{}
	case "w.rawdone":
		delete(w.rawBusy, r.A[0])
		w.S.Stat("hostile.raw-answered." + r.A[1])
		return core.Resp{}
	case "w.gcdone":
		w.onGCDone(t, r.A[0], r.A[2])
		return core.Resp{}
	case "w.held":
		return core.Resp{}
	case "w.log":
		return core.Resp{}
	}
	return core.Resp{Code: 400, Msg: "unknown report " + r.Op}
}

func (w *World) onPanic(t *core.Task, msg string) {
	first := msg
	if i := strings.Index(first, "\n"); i > 0 {
		first = first[:i]
	}
	inGalaxy := strings.Contains(msg, "tkestack.io/galaxy/pkg/") || strings.Contains(msg, "tkestack.io/galaxy/cni/")
	if !inGalaxy || strings.Contains(first, "verifsim") {
		if len(msg) > 1500 {
			msg = msg[:1500]
		}
		w.S.Infra = fmt.Sprintf("task %s panicked outside galaxy code: %s", t.Name, msg)
		w.S.Stop()
		return
	}
	// a panic inside galaxy code ends the request (net/http recovers it); a verdict only for C18
	w.S.Stat("panic.galaxy")
	if w.armed("C18") {
		site := panicSite(msg)
		w.fail("C18.panic", "panic@"+site, "task %s panicked: %s at %s", t.Name, first, site)
	}
	for _, id := range sortedKeys(w.rawBusy) {
		if w.rawBusy[id] == t {
			delete(w.rawBusy, id)
		}
	}
	if rq := reqOf(t); rq != nil && !rq.Done {
		rq.Done = true
		rq.Code = -2
		rq.extFault = true
		w.requestEnded(rq, true)
	}
}

// ---------------------------------------------------------------------------------------------------------
// scheduling loop glue

func (w *World) AfterStep() {
	if w.killDaemonSoon {
		w.killDaemonSoon = false
		w.S.Kill(w.proc)
		w.Net.DropProc(w.proc)
		w.inst = nil
		w.ready, w.down = false, true
	}
}

func (w *World) taskDone(t *core.Task) bool {
	for _, x := range w.S.Tasks() {
		if x == t {
			return false
		}
	}
	return true
}

func (w *World) reap() {
	var keep []*Request
	for _, r := range w.inflight {
		if !r.Done {
			keep = append(keep, r)
		}
	}
	w.inflight = keep
	for _, k := range sortedKeys(w.gcBusy) {
		if w.taskDone(w.gcBusy[k]) {
			delete(w.gcBusy, k)
		}
	}
	for _, k := range sortedKeys(w.rawBusy) {
		if w.taskDone(w.rawBusy[k]) {
			delete(w.rawBusy, k)
		}
	}
}

func sortedKeys[V any](m map[string]V) []string {
	ks := make([]string, 0, len(m))
	for k := range m {
		ks = append(ks, k)
	}
	sort.Strings(ks)
	return ks
}

func (w *World) Actions() []core.Action {
	w.reap()
	var acts []core.Action
	if w.down {
		if w.phase <= 3 {
			acts = append(acts, core.Action{Name: "restart", Do: func() { w.S.Stat("fault.restart"); w.S.Sig("F:restart"); w.StartProcess() }})
		}
		return acts
	}
	if !w.ready {
		return nil
	}
	if w.phase == 1 {
		busy := len(w.inflight) + len(w.gcBusy) + len(w.rawBusy)
		calm := len(w.S.Enabled()) == 0
		if w.opsLeft > 0 && busy < w.maxInfl && (calm || busy == 0 || w.S.Steps-w.lastOp >= w.opGap) {
			acts = append(acts, core.Action{Name: "op", Do: func() { w.lastOp = w.S.Steps; w.doOp() }})
		}
		if w.prof.Crash && w.faultsOn && w.crashBudget > 0 && w.S.Steps >= w.crashAt {
			acts = append(acts, core.Action{Name: "crash", Do: func() {
				w.crashBudget--
				w.crashAt = w.S.Steps + 30 + w.C.Choose(300)
				w.unscripted++
				w.S.Stat("fault.crash")
				w.S.Sig("F:crash")
				w.killDaemon(true)
			}})
		}
	}
	return acts
}

// Idle drives timers and the end-of-run phases.
func (w *World) Idle() bool {
	w.reap()
	if w.S.Viol != nil || w.S.Infra != "" {
		return false
	}
	if w.down {
		if w.phase > 3 {
			return false
		}
		w.StartProcess()
		return true
	}
	if ts, ok := w.S.NextTimer(false); ok {
		w.S.AdvanceTo(ts)
		return true
	}
	if !w.ready {
		w.S.Infra = "daemon never became ready"
		return false
	}
	if len(w.inflight) > 0 || len(w.gcBusy) > 0 || len(w.rawBusy) > 0 {
		if b := w.S.Blocked(); len(b) > 0 {
			if w.armed("C18") {
				w.fail("C18.wedged", "wedged", "%d request(s) can never complete: tasks blocked forever on locks: %v", len(b), taskNames(b))
				return false
			}
			w.S.Infra = "tasks blocked forever on locks"
			return false
		}
		// a request is waiting for something periodic only
		if ts, ok := w.S.NextTimer(true); ok {
			w.S.AdvanceTo(ts)
			return true
		}
		w.S.Infra = "request in flight but nothing can run"
		return false
	}
	switch w.phase {
	case 1:
		if w.opsLeft > 0 {
			w.lastOp = w.S.Steps
			w.doOp()
			return true
		}
		w.phase = 2
		w.faultsOn = false
		return true
	case 2, 3:
		return w.finalPhase()
	}
	return false
}

func taskNames(ts []*core.Task) []string {
	var out []string
	for _, t := range ts {
		out = append(out, t.Name)
	}
	return out
}

// podEdits: somebody else edits a pod right under a request of the daemon (C14): a label change just before the
// daemon's Update makes it conflict, and an edit that removes all annotations makes the next Get return a pod
// without an annotation map.
func (w *World) podEdits(t *core.Task, r *core.Req) {
	if !w.armed("C14") || len(r.A) < 3 || t.Tag == "init" {
		return
	}
	ns, name := r.A[1], r.A[2]
	switch r.Op {
	case "api.update":
		if w.conflictRate > 0 && w.C.Prob(w.conflictRate, 1000) {
			n := w.S.Steps
			w.K.Patch(nil, "pods", ns, name, func(m map[string]interface{}) {
				meta := m["metadata"].(map[string]interface{})
				meta["labels"] = map[string]interface{}{"rev": fmt.Sprint(n)}
			})
			w.S.Stat("fault.api.conflict")
			w.S.Sig("F:api.conflict")
			w.noteFault(t)
		}
	case "api.get":
		// only the Get of updatePortMappingAnnotation (the request has opened its ports already): the edit then
		// cannot change which networks or ports the pod is given
		opened := false
		if rq := reqOf(t); rq != nil {
			for _, sk := range w.Net.Sockets() {
				if sk.Opener == rq.ID {
					opened = true
				}
			}
		}
		if opened && w.conflictRate > 0 && t.Tag == "add" && w.C.Prob(w.conflictRate, 2000) {
			w.K.Patch(nil, "pods", ns, name, func(m map[string]interface{}) {
				meta := m["metadata"].(map[string]interface{})
				delete(meta, "annotations")
			})
			w.S.Stat("op.pod-annotations-removed")
			if rq := reqOf(t); rq != nil {
				w.podEdited[rq.C.Pod.Idx] = true // its networks annotation is gone too: later sandboxes may select other networks
			}
		}
	}
}

func (w *World) createLeftoverPod(lo *Leftover) {
	st := func(kind string) map[string]interface{} {
		return map[string]interface{}{"name": "c-" + kind, "state": map[string]interface{}{kind: map[string]interface{}{}}}
	}
	var statuses []interface{}
	switch lo.PodStatus {
	case "terminated", "running", "waiting":
		statuses = []interface{}{st(lo.PodStatus)}
	case "mixed":
		statuses = []interface{}{st("terminated"), st("running")}
	}
	pod := map[string]interface{}{"apiVersion": "v1", "kind": "Pod",
		"metadata": map[string]interface{}{"name": lo.PodName, "namespace": lo.PodNS},
		"spec":     map[string]interface{}{"nodeName": nodeName, "containers": []interface{}{map[string]interface{}{"name": "c"}}},
		"status":   map[string]interface{}{"phase": "Running", "containerStatuses": statuses}}
	w.mustCreate("pods", pod)
}

// gcDirsCfg: the directories the daemon's collectors are configured to walk.
func (w *World) gcDirsCfg() []string {
	if w.cfg.GCDirsFlag == "" {
		return gcDirs
	}
	return strings.Split(w.cfg.GCDirsFlag, ",")
}

func (w *World) portDirConfigured() bool {
	for _, d := range w.gcDirsCfg() {
		if d == gcDirs[2] {
			return true
		}
	}
	return false
}
