package w2

// Strict simulated iptables kernel (scheduler side). It is stricter than the repo's lenient test fake in
// exactly the ways DESIGN §7.1 lists, each a documented behaviour of the real tools:
//
//   - iptables-restore --noflush applies the lines of a table to a private copy and commits at COMMIT; any
//     failing line aborts the whole restore with nothing applied. A ":CHAIN" line creates a missing user chain
//     and flushes an existing user-defined chain; built-in chains are not flushed (only their policy is set).
//   - -A/-I fail if the chain or the jump target chain is missing ("No chain/target/match by that name").
//   - -X fails on a non-empty chain ("Directory not empty") and on a chain still referenced by a rule ("Too many
//     links"); -F/-X/-S on a missing chain fail with "No chain/target/match by that name".
//   - iptables -N on an existing chain reports "Chain already exists" (exit status 1).
//   - -C on a missing rule exits with status 1; -D on a missing rule fails.
//
// Rules are kept as canonical token lists (quotes removed, "--opt=value" split, host addresses of -s/-d given a
// /32), so that a rule written through iptables-restore (quoted comment) and the same rule given as an argv
// (comment as one argument) are the same rule for -C/-D, as they are for the real iptables.

import (
	"fmt"
	"sort"
	"strings"
)

type kRule struct {
	Tok []string
}

func (r *kRule) text() string { return joinTokens(r.Tok) }

func (r *kRule) target() string {
	for i := 0; i+1 < len(r.Tok); i++ {
		if r.Tok[i] == "-j" || r.Tok[i] == "-g" || r.Tok[i] == "--jump" || r.Tok[i] == "--goto" {
			return r.Tok[i+1]
		}
	}
	return ""
}

type kChain struct {
	Name    string
	Builtin bool
	Policy  string
	Rules   []*kRule
}

type kTable struct {
	Name   string
	Chains map[string]*kChain
}

func (t *kTable) clone() *kTable {
	n := &kTable{Name: t.Name, Chains: map[string]*kChain{}}
	for k, c := range t.Chains {
		nc := &kChain{Name: c.Name, Builtin: c.Builtin, Policy: c.Policy}
		nc.Rules = append(nc.Rules, c.Rules...) // rules are immutable once created
		n.Chains[k] = nc
	}
	return n
}

func (t *kTable) chainNames() []string {
	out := make([]string, 0, len(t.Chains))
	for k := range t.Chains {
		out = append(out, k)
	}
	sort.Strings(out)
	return out
}

// Kernel holds the netfilter tables of the simulated node. It survives daemon crashes.
type Kernel struct {
	Tables map[string]*kTable
	// Rejected counts restores / commands refused by a strictness rule, by reason.
	Rejected map[string]int
	Muts     int // number of applied mutations (commands that changed something)
}

var builtinChains = map[string][]string{
	"nat":    {"PREROUTING", "INPUT", "OUTPUT", "POSTROUTING"},
	"filter": {"INPUT", "FORWARD", "OUTPUT"},
	"mangle": {"PREROUTING", "INPUT", "FORWARD", "OUTPUT", "POSTROUTING"},
}

var builtinTargets = map[string]bool{"ACCEPT": true, "DROP": true, "RETURN": true, "QUEUE": true, "DNAT": true, "SNAT": true,
	"MASQUERADE": true, "MARK": true, "REDIRECT": true, "LOG": true, "REJECT": true, "NOTRACK": true, "TCPMSS": true, "NETMAP": true,
	"CONNMARK": true, "TPROXY": true, "CT": true, "CHECKSUM": true}

// NewKernel returns a kernel with empty nat, filter and mangle tables.
func NewKernel() *Kernel {
	k := &Kernel{Tables: map[string]*kTable{}, Rejected: map[string]int{}}
	for name, chains := range builtinChains {
		t := &kTable{Name: name, Chains: map[string]*kChain{}}
		for _, c := range chains {
			t.Chains[c] = &kChain{Name: c, Builtin: true, Policy: "ACCEPT"}
		}
		k.Tables[name] = t
	}
	return k
}

// kErr is a failed command: exit status and the text iptables prints.
type kErr struct {
	Status int
	Msg    string
}

func (e *kErr) Error() string { return fmt.Sprintf("exit status %d: %s", e.Status, e.Msg) }

const (
	msgNoChain  = "iptables: No chain/target/match by that name."
	msgExists   = "iptables: Chain already exists."
	msgNotEmpty = "iptables: Directory not empty."
	msgLinks    = "iptables: Too many links."
	msgBadRule  = "iptables: Bad rule (does a matching rule exist in that chain?)."
)

// ---- tokenising -------------------------------------------------------------------------------------------------

// splitLine splits an iptables-restore line into tokens, honouring double quotes and backslash escapes.
func splitLine(line string) ([]string, error) {
	var out []string
	var cur strings.Builder
	inTok, inQ := false, false
	for i := 0; i < len(line); i++ {
		c := line[i]
		switch {
		case inQ:
			if c == '\\' && i+1 < len(line) {
				i++
				cur.WriteByte(line[i])
			} else if c == '"' {
				inQ = false
			} else {
				cur.WriteByte(c)
			}
		case c == '"':
			inQ, inTok = true, true
		case c == ' ' || c == '\t':
			if inTok {
				out = append(out, cur.String())
				cur.Reset()
				inTok = false
			}
		default:
			inTok = true
			cur.WriteByte(c)
		}
	}
	if inQ {
		return nil, fmt.Errorf("unterminated quote")
	}
	if inTok {
		out = append(out, cur.String())
	}
	return out, nil
}

func joinTokens(toks []string) string {
	var sb strings.Builder
	for i, t := range toks {
		if i > 0 {
			sb.WriteByte(' ')
		}
		if t == "" || strings.ContainsAny(t, " \t\"") {
			sb.WriteByte('"')
			sb.WriteString(strings.ReplaceAll(strings.ReplaceAll(t, `\`, `\\`), `"`, `\"`))
			sb.WriteByte('"')
		} else {
			sb.WriteString(t)
		}
	}
	return sb.String()
}

// canonRule normalises a rule specification.
func canonRule(toks []string) []string {
	var out []string
	for i := 0; i < len(toks); i++ {
		t := toks[i]
		if strings.HasPrefix(t, "--") && strings.Contains(t, "=") && !(i > 0 && toks[i-1] == "--comment") {
			j := strings.Index(t, "=")
			out = append(out, t[:j], t[j+1:])
			continue
		}
		out = append(out, t)
		if (t == "-s" || t == "-d" || t == "--source" || t == "--destination") && i+1 < len(toks) {
			v := toks[i+1]
			if v != "!" && !strings.Contains(v, "/") {
				v += "/32"
			}
			out = append(out, v)
			i++
		}
	}
	return out
}

func sameRule(a, b []string) bool {
	if len(a) != len(b) {
		return false
	}
	for i := range a {
		if a[i] != b[i] {
			return false
		}
	}
	return true
}

// ---- single commands (iptables ...) ---------------------------------------------------------------------------

func (k *Kernel) table(name string) (*kTable, *kErr) {
	t := k.Tables[name]
	if t == nil {
		return nil, &kErr{3, fmt.Sprintf("iptables v1.8.4: can't initialize iptables table `%s': Table does not exist", name)}
	}
	return t, nil
}

func (k *Kernel) reject(reason string) { k.Rejected[reason]++ }

func checkTarget(t *kTable, r *kRule) *kErr {
	tg := r.target()
	if tg == "" || builtinTargets[tg] {
		return nil
	}
	if t.Chains[tg] == nil {
		return &kErr{1, msgNoChain}
	}
	return nil
}

func referenced(t *kTable, chain string) bool {
	for _, c := range t.Chains {
		for _, r := range c.Rules {
			if r.target() == chain {
				return true
			}
		}
	}
	return false
}

func tblNewChain(t *kTable, chain string) *kErr {
	if t.Chains[chain] != nil {
		return &kErr{1, msgExists}
	}
	t.Chains[chain] = &kChain{Name: chain, Policy: "-"}
	return nil
}

func tblFlush(t *kTable, chain string) *kErr {
	c := t.Chains[chain]
	if c == nil {
		return &kErr{1, msgNoChain}
	}
	c.Rules = nil
	return nil
}

func tblDeleteChain(t *kTable, chain string) *kErr {
	c := t.Chains[chain]
	if c == nil {
		return &kErr{1, msgNoChain}
	}
	if c.Builtin {
		return &kErr{1, "iptables: Invalid argument. Run `dmesg' for more information."}
	}
	if referenced(t, chain) {
		return &kErr{1, msgLinks}
	}
	if len(c.Rules) > 0 {
		return &kErr{1, msgNotEmpty}
	}
	delete(t.Chains, chain)
	return nil
}

func tblAppend(t *kTable, chain string, spec []string, insert bool) *kErr {
	c := t.Chains[chain]
	if c == nil {
		return &kErr{1, msgNoChain}
	}
	r := &kRule{Tok: canonRule(spec)}
	if e := checkTarget(t, r); e != nil {
		return e
	}
	if insert {
		c.Rules = append([]*kRule{r}, c.Rules...)
	} else {
		c.Rules = append(c.Rules, r)
	}
	return nil
}

func tblFind(t *kTable, chain string, spec []string) (int, *kErr) {
	c := t.Chains[chain]
	if c == nil {
		return -1, &kErr{1, msgNoChain}
	}
	want := canonRule(spec)
	for i, r := range c.Rules {
		if sameRule(r.Tok, want) {
			return i, nil
		}
	}
	return -1, nil
}

func tblDeleteRule(t *kTable, chain string, spec []string) *kErr {
	i, e := tblFind(t, chain, spec)
	if e != nil {
		return e
	}
	if i < 0 {
		return &kErr{1, msgBadRule}
	}
	c := t.Chains[chain]
	c.Rules = append(append([]*kRule(nil), c.Rules[:i]...), c.Rules[i+1:]...)
	return nil
}

// ---- iptables-save / iptables-restore -------------------------------------------------------------------------

// Save renders a table in iptables-save format: built-in chains first, user chains sorted by name.
func (k *Kernel) Save(table string) string {
	t := k.Tables[table]
	if t == nil {
		return ""
	}
	var sb strings.Builder
	sb.WriteString("*" + table + "\n")
	order := append([]string(nil), builtinChains[table]...)
	for _, n := range t.chainNames() {
		if !t.Chains[n].Builtin {
			order = append(order, n)
		}
	}
	for _, n := range order {
		c := t.Chains[n]
		sb.WriteString(fmt.Sprintf(":%s %s [0:0]\n", n, c.Policy))
	}
	for _, n := range order {
		for _, r := range t.Chains[n].Rules {
			sb.WriteString("-A " + n + " " + r.text() + "\n")
		}
	}
	sb.WriteString("COMMIT\n")
	return sb.String()
}

// Restore applies iptables-restore input. flush=false is --noflush.
func (k *Kernel) Restore(onlyTable string, data []byte, flush bool) *kErr {
	var cur *kTable // private copy of the table being restored
	changed := false
	lines := strings.Split(string(data), "\n")
	fail := func(n int, e *kErr, reason string) *kErr {
		k.reject(reason)
		return &kErr{e.Status, fmt.Sprintf("iptables-restore: line %d failed: %s", n+1, e.Msg)}
	}
	for n, raw := range lines {
		line := strings.TrimSpace(raw)
		if line == "" || strings.HasPrefix(line, "#") {
			continue
		}
		switch {
		case strings.HasPrefix(line, "*"):
			name := strings.TrimSpace(line[1:])
			t, e := k.table(name)
			if e != nil {
				return fail(n, e, "no-table")
			}
			cur = t.clone()
			if flush {
				for _, cn := range cur.chainNames() {
					if c := cur.Chains[cn]; c.Builtin {
						c.Rules = nil
					} else {
						delete(cur.Chains, cn)
					}
				}
			}
		case line == "COMMIT":
			if cur == nil {
				return fail(n, &kErr{2, "COMMIT without a table"}, "syntax")
			}
			if onlyTable == "" || onlyTable == cur.Name {
				k.Tables[cur.Name] = cur
				changed = true
			}
			cur = nil
		case strings.HasPrefix(line, ":"):
			if cur == nil {
				return fail(n, &kErr{2, "chain line outside a table"}, "syntax")
			}
			f := strings.Fields(line[1:])
			if len(f) < 2 {
				return fail(n, &kErr{2, "bad chain line"}, "syntax")
			}
			name, policy := f[0], f[1]
			if c := cur.Chains[name]; c == nil {
				cur.Chains[name] = &kChain{Name: name, Policy: "-"}
			} else if c.Builtin {
				if policy != "-" {
					c.Policy = policy
				}
			} else {
				c.Rules = nil // a chain line flushes an existing user-defined chain
			}
		default:
			if cur == nil {
				return fail(n, &kErr{2, "rule outside a table"}, "syntax")
			}
			toks, err := splitLine(line)
			if err != nil || len(toks) < 2 {
				return fail(n, &kErr{2, "bad line"}, "syntax")
			}
			// optional counters prefix "[0:0]"
			if strings.HasPrefix(toks[0], "[") {
				toks = toks[1:]
			}
			var e *kErr
			reason := "other"
			switch toks[0] {
			case "-A", "--append":
				e = tblAppend(cur, toks[1], toks[2:], false)
				reason = "missing-chain-or-target"
			case "-I", "--insert":
				e = tblAppend(cur, toks[1], toks[2:], true)
				reason = "missing-chain-or-target"
			case "-D", "--delete":
				e = tblDeleteRule(cur, toks[1], toks[2:])
				reason = "delete-missing-rule"
			case "-X", "--delete-chain":
				e = tblDeleteChain(cur, toks[1])
				if e != nil {
					switch e.Msg {
					case msgLinks:
						reason = "delete-referenced-chain"
					case msgNotEmpty:
						reason = "delete-nonempty-chain"
					default:
						reason = "delete-missing-chain"
					}
				}
			case "-F", "--flush":
				e = tblFlush(cur, toks[1])
				reason = "flush-missing-chain"
			case "-N", "--new-chain":
				e = tblNewChain(cur, toks[1])
				reason = "chain-exists"
			default:
				e = &kErr{2, "unknown command " + toks[0]}
				reason = "syntax"
			}
			if e != nil {
				return fail(n, e, reason)
			}
		}
	}
	if changed {
		k.Muts++
	}
	return nil
}

// LoadText installs prior table contents given in iptables-save form (world set-up; panics on bad input).
func (k *Kernel) LoadText(text string) {
	if e := k.Restore("", []byte(text), false); e != nil {
		panic("w2: bad prior table: " + e.Error())
	}
	k.Muts = 0
	k.Rejected = map[string]int{}
}

// Lines returns the table as a multiset of lines: "C <chain>" per chain and "R <chain> <rule>" per rule, chains
// in name order and rules in chain order.
func (k *Kernel) Lines(table string) []string {
	t := k.Tables[table]
	var out []string
	for _, n := range t.chainNames() {
		out = append(out, "C "+n)
		for _, r := range t.Chains[n].Rules {
			out = append(out, "R "+n+" "+r.text())
		}
	}
	return out
}
