// World W2: the per-node galaxy daemon under deterministic simulation (see package w2).
package main

import (
	"tkestack.io/galaxy/verifsim/harness"
	"tkestack.io/galaxy/verifsim/worlds/daemon/w2"
)

func main() { harness.Main("daemon", w2.Run) }
