#!/usr/bin/env python3
"""Sensitivity catalogue of world W2 (C12, C14, C17).

Each entry is a deliberate property-breaking edit of galaxy. It is applied to a scratch copy of /repo under
/var/tmp (never to /repo), the daemon world is built from that copy (VERIF_REPO=<copy> scripts/build.sh daemon)
and one worker runs the property for 25 s; the mutation counts as caught when a violation is reported.
Scratch copies are removed afterwards.

    python3 mutations.py            # all mutations
    python3 mutations.py M3-inspect-error-as-notfound ...

Measured (16-core sandbox, one worker each): every mutation below was caught within 0.3-12 s of run time.
The proposed known findings must be passed as -known so that they do not stop the exploration early.
"""
import os
os.makedirs('/var/tmp/w2sens',exist_ok=True)
import json as _j
_j.dump(_j.load(open('/verif/known_findings.json'))+_j.load(open('/verif/sim/worlds/daemon/PROPOSED_FINDINGS.json')),open('/var/tmp/w2sens/known.json','w'))  # def _known
import sys,os,subprocess,shutil,json,time
muts={
 'D1-state-file-kept-when-it-cannot-be-decoded':('C12','pkg/api/cniutil/cni.go',"""	defer os.Remove(path) // nolint: errcheck
""","""	defer func() {
		if len(infos) > 0 {
			os.Remove(path) // nolint: errcheck
		}
	}()
"""),
 'D2-eni-request-counted-on-last-container-only':('C12','pkg/api/galaxy/constant/utils/utils.go',"	for i := range spec.Containers {","	for i := len(spec.Containers) - 1; i >= 0 && i == len(spec.Containers)-1; i-- {"),
 'D4-common-args-only-for-first-network':('C12','pkg/galaxy/server.go',"			networkInfos[i].Args[k] = string(v)","			networkInfos[i].Args[k] = string(v)\n			if i > 0 {\n				delete(networkInfos[i].Args, k)\n			}"),
 'D5-ipv6-reservation-files-skipped':('C17','pkg/gc/flannel_gc.go',"			if fi.IsDir() || len(net.ParseIP(fi.Name())) == 0 {","			if fi.IsDir() || net.ParseIP(fi.Name()).To4() == nil {"),

 'A1-eni-network-ignored':('C12','pkg/galaxy/server.go',"		if utils.WantENIIP(&pod.Spec) && g.ENIIPNetwork != \"\" {","		if utils.WantENIIP(&pod.Spec) && g.ENIIPNetwork == \"-\" {"),
 'A2-eni-network-preferred-over-annotation':('C12','pkg/galaxy/server.go',"	if pod.Annotations == nil || pod.Annotations[constant.MultusCNIAnnotation] == \"\" {","	if pod.Annotations == nil || pod.Annotations[constant.MultusCNIAnnotation] == \"\" || (utils.WantENIIP(&pod.Spec) && g.ENIIPNetwork != \"\") {"),
 'A3-entry-interface-name-ignored':('C12','pkg/galaxy/server.go',"""	if netIf != "" {
		return netIf
	}""","""	if netIf == "-" {
		return netIf
	}"""),
 'A4-first-interface-hard-coded-eth0':('C12','pkg/galaxy/server.go',"""	if idx == 0 {
		return argIf
	}""","""	if idx == 0 {
		return "eth0"
	}"""),
 'A5-failed-add-reported-as-success':('C12','pkg/galaxy/server.go',"""		if err1 != nil {
			err = err1
			return
		} else {""","""		if err1 != nil {
			err = nil
			return
		} else {"""),
 'A6-failed-del-saves-all-networks-for-retry':('C12','pkg/api/cniutil/cni.go',"		if err := saveNetworkInfo(cmdArgs.ContainerID, fails); err != nil {","		if err := saveNetworkInfo(cmdArgs.ContainerID, networkInfos[:lastIdx+1]); err != nil {"),
 'A7-pod-setup-flushes-a-foreign-chain':('C14','pkg/network/portmapping/iptables.go',"""	writeLine(natChains, "*nat")
	writeKubeMarkRule(natChains, natRules)

	for _, containerPort := range ports {
		protocol := strings.ToLower(containerPort.Protocol)
		hostportChain := hostportChainName(containerPort, containerPort.PodName)
		// write chain name""","""	writeLine(natChains, "*nat")
	writeKubeMarkRule(natChains, natRules)
	writeLine(natChains, utiliptables.MakeChainLine("DOCKER"))

	for _, containerPort := range ports {
		protocol := strings.ToLower(containerPort.Protocol)
		hostportChain := hostportChainName(containerPort, containerPort.PodName)
		// write chain name"""),
 'A8-full-sync-deletes-chains-that-are-not-galaxys':('C14','pkg/network/portmapping/iptables.go',"""			if !strings.HasPrefix(chainString, kubeHostportChainPrefix) {
				// Ignore chains that aren't ours.
				continue
			}""","""			if !strings.HasPrefix(chainString, "KUBE-") || chain == kubeHostportsChain || chain == KubeMarkMasqChain {
				// Ignore chains that aren't ours.
				continue
			}"""),
 'A9-docker-created-container-treated-as-exited':('C17','pkg/gc/flannel_gc.go',"		if c.State != nil && (c.State.Status == ContainerExited || c.State.Status == ContainerDead) {","		if c.State != nil && (c.State.Status == ContainerExited || c.State.Status == ContainerDead || c.State.Status == \"created\") {"),

 'N1-gc-collects-notready-sandbox-of-pod-with-running-containers':('C17','pkg/gc/flannel_gc.go',"""					if status.State.Waiting != nil || status.State.Running != nil {
						return false
					}""","""					if status.State.Waiting != nil && status.State.Running != nil {
						return false
					}"""),
 'N2-veth-collector-skips-inspect':('C17','pkg/gc/flannel_gc.go',"		if gc.shouldCleanup(cid) {\n			if err = netlink.LinkDel(link)","		if cid != \"\" {\n			if err = netlink.LinkDel(link)"),
 'N3-veth-collector-ignores-link-type':('C17','pkg/gc/flannel_gc.go',"""		if link.Type() != "veth" {
			continue
		}""","""		if link.Type() == "" {
			continue
		}"""),
 'N4-veth-collector-accepts-only-two-part-names':('C17','pkg/gc/flannel_gc.go',"		if len(parts) == 1 || len(parts) == 2 {","		if len(parts) == 2 {"),
 'N5-start-skips-rules-of-pod-whose-port-is-taken':('C14','pkg/galaxy/server.go',"""			glog.Warning(err)
		}
		allPorts = append(allPorts, ports...)""","""			glog.Warning(err)
			continue
		}
		allPorts = append(allPorts, ports...)"""),
 'N6-failed-port-setup-not-cleaned-up':('C14','pkg/galaxy/server.go',"""				if err != nil {
					g.cleanupPortMapping(req)
					return
				}""","""				if err != nil {
					return
				}"""),
 'N7-unusable-result-reported-as-success':('C12','pkg/galaxy/server.go',"""			if err2 != nil {
				err = err2
			} else {""","""			if err2 != nil {
				err = nil
			} else {"""),

 'M14-closehostports-drops-lock-while-closing':('C14','pkg/network/portmapping/portmapping.go',"""	h.Lock()
	defer h.Unlock()
	// In case of kubelet restart, the port should have been closed
	if ports, ok := h.podPortMap[podFullName]; ok {
		for port, closer := range ports {
			if err := closer.Close(); err != nil {
				glog.Errorf("Cannot clean up hostport %v for pod %s: %v", port, podFullName, err)
			}
		}
		delete(h.podPortMap, podFullName)
	}""","""	h.Lock()
	ports, ok := h.podPortMap[podFullName]
	h.Unlock()
	if ok {
		for port, closer := range ports {
			if err := closer.Close(); err != nil {
				glog.Errorf("Cannot clean up hostport %v for pod %s: %v", port, podFullName, err)
			}
		}
		h.Lock()
		delete(h.podPortMap, podFullName)
		h.Unlock()
	}"""),
 'M15-gc-keeps-state-file-when-port-clean-fails':('C17','pkg/gc/flannel_gc.go',"""		glog.Warningf("failed to clean port of file %s: %v", file, err)
""","""		glog.Warningf("failed to clean port of file %s: %v", file, err)
		return
"""),

 'M13-args-map-shared-across-requests':('C12','pkg/api/cniutil/cni.go','return &NetworkInfo{NetworkType: networkType, Args: map[string]string{}, Conf: conf, IfName: ifName}','return &NetworkInfo{NetworkType: networkType, Args: sharedArgsM, Conf: conf, IfName: ifName}\n}\n\nvar sharedArgsM = map[string]string{}\n\nfunc unusedM() {'),
 'M1-del-forward-order':('C12','pkg/api/cniutil/cni.go','for idx := lastIdx; idx >= 0; idx-- {','for idx := 0; idx <= lastIdx; idx++ {'),
 'M2-skip-rollback':('C12','pkg/api/cniutil/cni.go','delErr := CmdDel(cmdArgs, idx)','var delErr error; _ = idx'),
 'M3-inspect-error-as-notfound':('C17','pkg/gc/flannel_gc.go','''			glog.Warningf("Error inspect container %s: %v", cid, err)
		}
	} else {
		if c.State != nil''','''			glog.Warningf("Error inspect container %s: %v", cid, err)
			return true
		}
	} else {
		if c.State != nil'''),
 'M4-socket-left-after-failed-setup':('C14','pkg/network/portmapping/portmapping.go','''			if err := socket.Close(); err != nil {''','''			if err := error(nil); socket == nil {'''),
 'M5-fullsync-keeps-stale-chains':('C14','pkg/network/portmapping/iptables.go','''			writeLine(natChains, existingNATChains[chain])
			writeLine(natRules, "-X", chainString)''','''			_ = chainString'''),
 'M6-ifname-off-by-one':('C12','pkg/galaxy/server.go','return fmt.Sprintf("eth%d", idx)','return fmt.Sprintf("eth%d", idx+1)'),
 'M7-gc-never-cleans-exited':('C17','pkg/gc/flannel_gc.go','if c.State != nil && (c.State.Status == ContainerExited || c.State.Status == ContainerDead) {','if c.State != nil && (c.State.Status == ContainerDead) {'),
 'M8-clean-keeps-chain':('C14','pkg/network/portmapping/iptables.go','		writeLine(natRules, "-X", string(hostportChain))\n','		_ = natRules\n'),
 'M9-del-keeps-state-file':('C12','pkg/api/cniutil/cni.go','defer os.Remove(path) // nolint: errcheck','_ = path'),
 'M10-cri-error-as-notfound':('C17','pkg/gc/flannel_gc.go','''				glog.Warningf("Error inspect container %s: %v", cid, err)
			} else {''','''				glog.Warningf("Error inspect container %s: %v", cid, err)
				return true
			} else {'''),
 'M11-default-networks-reversed':('C12','pkg/galaxy/server.go','for i, netName := range g.DefaultNetworks {','for i := range g.DefaultNetworks { netName := g.DefaultNetworks[len(g.DefaultNetworks)-1-i]'),
 'M12-random-port-not-held':('C14','pkg/network/portmapping/portmapping.go','''	if len(ports) != 0 {
		h.Lock()''','''	if randomPortMapping { for _, s := range ports { s.Close() } }
	if len(ports) != 0 {
		h.Lock()'''),
}
which=sys.argv[1:] or sorted(muts)
env=dict(os.environ,GOFLAGS='-mod=mod',GOPROXY='off',GOSUMDB='off',GOTOOLCHAIN='local')
for name in which:
    prop,f,old,new=muts[name]
    d='/var/tmp/w2sens/repo'
    shutil.rmtree(d,ignore_errors=True)
    subprocess.check_call(['rsync','-a','--exclude','.git','/repo/',d+'/'])
    p=os.path.join(d,f); s=open(p).read()
    assert s.count(old)>=1,(name,'pattern not found')
    s=s.replace(old,new,1); open(p,'w').write(s)
    e=dict(env,VERIF_REPO=d)
    t0=time.time()
    r=subprocess.run(['/verif/scripts/build.sh','daemon'],env=e,capture_output=True,text=True)
    if r.returncode!=0:
        print(name,'BUILD FAILED',r.stderr[-800:]); continue
    b=r.stdout.strip(); tb=time.time()-t0
    out='/var/tmp/w2sens/%s.json'%name
    t1=time.time()
    r=subprocess.run([b,'-prop',prop,'-budget','25','-out',out,'-replaydir','/var/tmp/w2sens/replays/'+name,'-known','/var/tmp/w2sens/known.json'],capture_output=True,text=True)
    rep=json.load(open(out))
    viol=[os.path.basename(v) for v in (rep.get('violations') or [])]
    print('%-36s %s exit=%d runs=%d wall=%.1fs build=%.0fs violations=%s infra=%s'%(name,prop,r.returncode,rep['runs'],time.time()-t1,tb,viol,(rep.get('infra') or [])[:1]))
    sys.stdout.flush()
shutil.rmtree('/var/tmp/w2sens/repo',ignore_errors=True)
shutil.rmtree('/var/tmp/w2sens',ignore_errors=True)
