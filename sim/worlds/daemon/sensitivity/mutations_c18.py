os_mk=__import__('os').makedirs('/var/tmp/w2sens',exist_ok=True)
import sys,os,subprocess,shutil,json,time
muts={
 'L3-closehostports-self-deadlock':('pkg/network/portmapping/portmapping.go','	h.Lock()\n	defer h.Unlock()\n	// In case of kubelet restart','	h.Lock()\n	h.Lock()\n	defer h.Unlock()\n	// In case of kubelet restart'),
 'L1-closehostports-never-unlocks':('pkg/network/portmapping/portmapping.go','	h.Lock()\n	defer h.Unlock()\n	// In case of kubelet restart','	h.Lock()\n	// In case of kubelet restart'),
 'L2-openhostports-returns-with-lock-on-second-call':('pkg/network/portmapping/portmapping.go','		h.podPortMap[podFullName] = ports\n		h.Unlock()','		h.podPortMap[podFullName] = ports\n		if len(h.podPortMap) < 2 {\n			h.Unlock()\n		}'),
}
env=dict(os.environ,GOFLAGS='-mod=mod',GOPROXY='off',GOSUMDB='off',GOTOOLCHAIN='local')
for name in sys.argv[1:] or sorted(muts):
    f,old,new=muts[name]
    d='/var/tmp/w2sens/repo'
    shutil.rmtree(d,ignore_errors=True)
    subprocess.check_call(['rsync','-a','--exclude','.git','/repo/',d+'/'])
    p=os.path.join(d,f); s=open(p).read(); assert s.count(old)==1,(name,); open(p,'w').write(s.replace(old,new))
    r=subprocess.run(['/verif/scripts/build.sh','daemon'],env=dict(env,VERIF_REPO=d),capture_output=True,text=True)
    if r.returncode!=0: print(name,'BUILD FAILED',r.stderr[-1200:]); continue
    b=r.stdout.strip(); out='/var/tmp/w2sens/%s.json'%name
    t=time.time()
    r=subprocess.run([b,'-prop','C18','-budget','25','-out',out,'-replaydir','/var/tmp/w2sens/replays/'+name,'-known','/verif/sim/worlds/daemon/PROPOSED_FINDINGS.json'],capture_output=True,text=True)
    rep=json.load(open(out)); v=[os.path.basename(x)[:70] for x in (rep.get('violations') or [])]
    print('%-50s exit=%d runs=%d wall=%.1fs violations=%s infra=%s'%(name,r.returncode,rep['runs'],time.time()-t,v,(rep.get('infra') or [])[:1])); sys.stdout.flush()
shutil.rmtree('/var/tmp/w2sens/repo',ignore_errors=True)
