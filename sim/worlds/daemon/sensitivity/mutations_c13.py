os_mk=__import__('os').makedirs('/var/tmp/w2sens',exist_ok=True)
import sys,os,subprocess,shutil,json,time
muts={
 'K5-network-ipam-section-wins-over-ipinfos':('cni/ipam/ipam.go','	if ipInfoStr := kvMap[constant.IPInfosKey]; ipInfoStr != "" {','	if ipInfoStr := kvMap[constant.IPInfosKey]; ipInfoStr != "" && ipamType == "" {'),
 'K6-common-args-only-with-first-network-and-not-accumulated':[('pkg/galaxy/server.go',"			networkInfos[i].Args[k] = string(v)","			networkInfos[i].Args[k] = string(v)\n			if i > 0 {\n				delete(networkInfos[i].Args, k)\n			}"),('pkg/api/cniutil/cni.go','''	for idx, networkInfo := range networkInfos {
		//append additional args from network info
		cmdArgs.Args = strings.TrimRight(fmt.Sprintf("%s;%s", cmdArgs.Args, BuildCNIArgs(networkInfo.Args)), ";")''','''	kubeletArgs := cmdArgs.Args
	for idx, networkInfo := range networkInfos {
		//append additional args from network info
		cmdArgs.Args = strings.TrimRight(fmt.Sprintf("%s;%s", kubeletArgs, BuildCNIArgs(networkInfo.Args)), ";")''')],

 'K1-decoder-drops-vlan':('cni/ipam/ipam.go','vlanIDs = append(vlanIDs, ipInfos[j].Vlan)','vlanIDs = append(vlanIDs, 0)'),
 'K2-address-masked-on-decode':('pkg/utils/nets/ip.go','	netIPNet.IP = ip\n','	_ = ip\n'),
 'K3-mask-truncated-to-24':('pkg/api/cniutil/cni.go','IP:      net.IPNet(*ipInfo.IP),','IP:      net.IPNet{IP: ipInfo.IP.IP, Mask: net.CIDRMask(24, 32)},'),
 'K4-daemon-drops-args-after-first-semicolon':('pkg/galaxy/server.go','networkInfos[i].Args[k] = string(v)','networkInfos[i].Args[k] = strings.SplitN(string(v), "},{", 2)[0]'),
}
env=dict(os.environ,GOFLAGS='-mod=mod',GOPROXY='off',GOSUMDB='off',GOTOOLCHAIN='local')
os.makedirs('/var/tmp/w2sens',exist_ok=True)
for name in sys.argv[1:] or sorted(muts):
    edits=muts[name]
    if isinstance(edits,tuple): edits=[edits]
    d='/var/tmp/w2sens/repo'
    shutil.rmtree(d,ignore_errors=True)
    subprocess.check_call(['rsync','-a','--exclude','.git','/repo/',d+'/'])
    for f,old,new in edits:
        p=os.path.join(d,f); s=open(p).read(); assert s.count(old)==1,(name,f); open(p,'w').write(s.replace(old,new))
    r=subprocess.run(['/verif/scripts/build.sh','c13'],env=dict(env,VERIF_REPO=d),capture_output=True,text=True)
    if r.returncode!=0: print(name,'BUILD FAILED',r.stderr[-1200:]); continue
    b=r.stdout.strip(); out='/var/tmp/w2sens/%s.json'%name
    t=time.time()
    r=subprocess.run([b,'-prop','C13','-budget','15','-out',out,'-replaydir','/var/tmp/w2sens/replays/'+name,'-known','/verif/known_findings.json'],capture_output=True,text=True)
    rep=json.load(open(out)); v=[os.path.basename(x) for x in (rep.get('violations') or [])]
    print('%-44s exit=%d runs=%d wall=%.1fs violations=%s infra=%s'%(name,r.returncode,rep['runs'],time.time()-t,v,(rep.get('infra') or [])[:1])); sys.stdout.flush()
shutil.rmtree('/var/tmp/w2sens/repo',ignore_errors=True)
