#!/usr/bin/env python3
"""Candidate repairs for the three findings of world W2, tried on scratch copies of /repo only (the lead decides
whether any of them goes into galaxy). A candidate is good if the property's check is silent on the patched copy
with the finding NOT listed as known (8 workers x 25 s).

Result when written: FIX-A (copy the per-network conf before adding prevResult) silences C12 isolation;
FIX-B (DEL closes the held ports only after the rules were removed) silences C14 ports;
FIX-C (skip chains whose DNAT target is another pod IP) does NOT silence C17 safety: a pod with a floating IP
keeps its IP across sandboxes, so the recorded podIP cannot tell the dead sandbox from the running one.
"""
import sys,os,subprocess,shutil,json,time
fixes={
 'FIX-A-prevResult-copy':('C12',[('pkg/api/cniutil/cni.go','''		if result != nil {
			networkInfo.Conf["prevResult"] = result
		}''','''		if result != nil {
			conf := make(map[string]interface{}, len(networkInfo.Conf)+1)
			for k, v := range networkInfo.Conf {
				conf[k] = v
			}
			conf["prevResult"] = result
			networkInfo.Conf = conf
		}''')]),
 'FIX-B-del-closes-ports-after-rules':('C14',[('pkg/galaxy/server.go','''		if err == nil {
			err = g.cleanupPortMapping(req)
		}''','''		if err == nil {
			if err = g.cleanIPtables(req.ContainerID); err == nil {
				g.pmhandler.CloseHostports(k8s.GetPodFullName(req.PodName, req.PodNamespace))
			}
		}''')]),
 'FIX-C-clean-only-own-dnat':('C17',[('pkg/network/portmapping/iptables.go','''func (h *PortMappingHandler) CleanPortMapping(ports []k8s.Port) error {
''','''func (h *PortMappingHandler) CleanPortMapping(ports []k8s.Port) error {
	// skip chains that have been re-written for another pod IP since this port list was recorded
	if save := bytes.NewBuffer(nil); h.Interface.SaveInto(utiliptables.TableNAT, save) == nil {
		var mine []k8s.Port
		for _, p := range ports {
			chain := string(hostportChainName(p, p.PodName))
			other := false
			for _, line := range strings.Split(save.String(), "\\n") {
				if strings.HasPrefix(line, "-A "+chain+" ") && strings.Contains(line, "DNAT") &&
					!strings.Contains(line, fmt.Sprintf("%s:%d", p.PodIP, p.ContainerPort)) {
					other = true
				}
			}
			if !other {
				mine = append(mine, p)
			}
		}
		ports = mine
	}
''')]),
}
def known_without(prop):
    l=[f for f in json.load(open('/verif/sim/worlds/daemon/PROPOSED_FINDINGS.json')) if f['property']!=prop]
    p='/var/tmp/w2sens/known_without_%s.json'%prop
    json.dump(l,open(p,'w'))
    return p

os.makedirs('/var/tmp/w2sens',exist_ok=True)
env=dict(os.environ,GOFLAGS='-mod=mod',GOPROXY='off',GOSUMDB='off',GOTOOLCHAIN='local')
for name in sys.argv[1:] or sorted(fixes):
    prop,edits=fixes[name]
    d='/var/tmp/w2sens/repo'
    shutil.rmtree(d,ignore_errors=True)
    subprocess.check_call(['rsync','-a','--exclude','.git','/repo/',d+'/'])
    for f,old,new in edits:
        p=os.path.join(d,f); s=open(p).read(); assert s.count(old)==1,(name,f); open(p,'w').write(s.replace(old,new))
    r=subprocess.run(['/verif/scripts/build.sh','daemon'],env=dict(env,VERIF_REPO=d),capture_output=True,text=True)
    if r.returncode!=0: print(name,'BUILD FAILED',r.stderr[-1500:]); continue
    b=r.stdout.strip()
    # no known findings for this property: a fixed tree must be silent
    ps=[]
    for w in range(8):
        out='/var/tmp/w2sens/%s.%d.json'%(name,w)
        ps.append((out,subprocess.Popen([b,'-prop',prop,'-worker',str(w),'-budget','25','-out',out,'-replaydir','/var/tmp/w2sens/replays/'+name,'-known',known_without(prop)],stdout=subprocess.DEVNULL,stderr=subprocess.DEVNULL)))
    runs=0; viol=[]; known={}
    for out,p in ps:
        p.wait(); rep=json.load(open(out)); runs+=rep['runs']; viol+= [os.path.basename(v) for v in (rep.get('violations') or [])]
    print('%-40s %s runs=%d violations=%s'%(name,prop,runs,viol[:4])); sys.stdout.flush()
shutil.rmtree('/var/tmp/w2sens/repo',ignore_errors=True)
shutil.rmtree('/var/tmp/w2sens',ignore_errors=True)
