os_mk=__import__('os').makedirs('/var/tmp/w2sens',exist_ok=True)
import sys,os,subprocess,shutil,json,time,glob
muts={
 'R1-prevResult-into-shared-conf':('C19','pkg/api/cniutil/cni.go',[('''			conf["prevResult"] = result
		}
		result, err = DelegateAdd(conf, cmdArgs, networkInfo.IfName)''','''			conf["prevResult"] = result
			networkInfo.Conf["prevResult"] = result
		}
		result, err = DelegateAdd(networkInfo.Conf, cmdArgs, networkInfo.IfName)''')]),
 'R2-portmapping-no-mutex':('C19','pkg/network/portmapping/portmapping.go',[('''		h.Lock()
		h.podPortMap[podFullName] = ports
		h.Unlock()''','''		h.podPortMap[podFullName] = ports'''),('''	h.Lock()
	defer h.Unlock()
	// In case of kubelet restart''','''	// In case of kubelet restart''')]),
}
env=dict(os.environ,GOFLAGS='-mod=mod',GOPROXY='off',GOSUMDB='off',GOTOOLCHAIN='local')
for name in sys.argv[1:] or sorted(muts):
    prop,f,edits=muts[name]
    d='/var/tmp/w2sens/repo'
    shutil.rmtree(d,ignore_errors=True)
    subprocess.check_call(['rsync','-a','--exclude','.git','/repo/',d+'/'])
    p=os.path.join(d,f); s=open(p).read()
    for old,new in edits:
        assert s.count(old)==1,(name,old[:30]); s=s.replace(old,new)
    open(p,'w').write(s)
    r=subprocess.run(['/verif/scripts/build.sh','daemon','race'],env=dict(env,VERIF_REPO=d),capture_output=True,text=True)
    if r.returncode!=0: print(name,'BUILD FAILED',r.stderr[-1500:]); continue
    b=r.stdout.strip()
    out='/var/tmp/w2sens/%s.json'%name; rd='/var/tmp/w2sens/replays/'+name
    shutil.rmtree(rd,ignore_errors=True)
    e=dict(os.environ,GORACE='halt_on_error=0 exitcode=0 log_path=/var/tmp/w2sens/race.'+name)
    t=time.time()
    r=subprocess.run([b,'-prop',prop,'-budget','25','-out',out,'-replaydir',rd,'-known','/verif/known_findings.json'],env=e,capture_output=True,text=True)
    rep=json.load(open(out))
    v=rep.get('violations') or []
    print('%-34s exit=%d runs=%d wall=%.0fs violations=%d infra=%s'%(name,r.returncode,rep['runs'],time.time()-t,len(v),(rep.get('infra') or [])[:1]))
    for f in v:
        rr=json.load(open(f)); print('   key:',rr.get('finding_key'))
        e2=dict(os.environ,GORACE='halt_on_error=0 exitcode=0 log_path=/var/tmp/w2sens/racereplay.'+name)
        r2=subprocess.run([b,'-replay',f],env=e2,capture_output=True,text=True)
        print('   replay exit',r2.returncode, [l for l in r2.stdout.splitlines() if l.startswith('REPLAY')][:1])
    sys.stdout.flush()
shutil.rmtree('/var/tmp/w2sens/repo',ignore_errors=True)
