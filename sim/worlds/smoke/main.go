// smoke: pipeline test — the real crdIpam driven by a few concurrent tasks.
package main

import (
	"encoding/json"
	"fmt"
	"net"
	"os"
	"strconv"

	"tkestack.io/galaxy/pkg/ipam/floatingip"
	"tkestack.io/galaxy/verifsim/core"
	"tkestack.io/galaxy/verifsim/kubeclient"
	"tkestack.io/galaxy/verifsim/simkube"
)

type world struct {
	s    *core.Sim
	k    *simkube.Kube
	ipam floatingip.IPAM
}

func (w *world) Handle(t *core.Task, r *core.Req) core.Resp { return w.k.Handle(t, r) }
func (w *world) Actions() []core.Action                      { return nil }
func (w *world) Idle() bool                                  { return false }
func (w *world) AfterStep()                                  {}

const conf = `[{"nodeSubnets":["10.49.27.0/24"],"ips":["10.49.27.205","10.49.27.216~10.49.27.218"],"subnet":"10.49.27.0/24","gateway":"10.49.27.1","vlan":2}]`

func run(seed uint64) uint64 {
	s := core.NewSim(core.NewChoices(seed))
	w := &world{s: s, k: simkube.New(s)}
	s.W = w
	p := s.NewProc()
	var pools []*floatingip.FloatingIPPool
	if err := json.Unmarshal([]byte(conf), &pools); err != nil {
		panic(err)
	}
	s.Spawn("init", p, func() {
		w.ipam = floatingip.NewCrdIPAM(kubeclient.NewGalaxyClientset(), nil)
		if err := w.ipam.ConfigurePool(pools); err != nil {
			panic(err)
		}
		core.InitDone()
		_, sub, _ := net.ParseCIDR("10.49.27.0/24")
		for i := 0; i < 6; i++ {
			i := i
			core.Go(func() {
				ip, err := w.ipam.AllocateInSubnet("k"+strconv.Itoa(i), sub, floatingip.Attr{})
				core.CallNow(core.Req{Op: "sim.note", A: []string{fmt.Sprint(i, ip, err)}})
				if err == nil && i%2 == 0 {
					_ = w.ipam.Release("k"+strconv.Itoa(i), ip)
				}
			})
		}
	})
	s.Loop()
	s.KillAll()
	n := len(w.k.List("floatingips", ""))
	fmt.Printf("seed %d steps %d hash %x fips %d infra %q\n", seed, s.Steps, s.Hash(), n, s.Infra)
	return s.Hash()
}

func main() {
	n, _ := strconv.Atoi(os.Args[1])
	for i := 0; i < n; i++ {
		run(uint64(i))
	}
}
