package simkernel

// Packet walk: what netfilter would decide for one packet traversing a chain of a table, over the current
// rules and sets. Used by the semantic oracles (C16; reusable for the NAT rules of C14).

import (
	"fmt"
	"strconv"
	"strings"
)

// Packet is the part of a packet the modelled matches look at.
type Packet struct {
	Src, Dst     uint32
	Proto        string // tcp, udp, icmp
	SPort, DPort int
	State        string // conntrack state: NEW, ESTABLISHED, RELATED
	In, Out      string
	Mark         uint32
	DstLocal     bool // addrtype --dst-type LOCAL
	SrcLocal     bool
}

// Verdict of a walk.
type Verdict int

const (
	Fallthrough Verdict = iota // end of a user chain / RETURN: the calling chain continues
	Accept
	Drop
	Nat // a NAT target rewrote the packet (terminal in the nat table)
)

func (v Verdict) String() string { return [...]string{"fallthrough", "ACCEPT", "DROP", "NAT"}[v] }

// WalkError is a rule the walk cannot evaluate (unmodelled match or target): harness trouble, not a verdict.
type WalkError struct{ Msg string }

func (e *WalkError) Error() string { return e.Msg }

func portIn(list string, port int) bool {
	for _, part := range strings.Split(list, ",") {
		lo, hi := part, part
		if i := strings.IndexByte(part, ':'); i >= 0 {
			lo, hi = part[:i], part[i+1:]
		}
		l, err1 := strconv.Atoi(lo)
		h, err2 := strconv.Atoi(hi)
		if lo == "" {
			l, err1 = 0, nil
		}
		if hi == "" {
			h, err2 = 65535, nil
		}
		if err1 != nil || err2 != nil {
			continue
		}
		if port >= l && port <= h {
			return true
		}
	}
	return false
}

func inList(list, v string) bool {
	for _, x := range strings.Split(list, ",") {
		if x == v {
			return true
		}
	}
	return false
}

func (k *Kernel) matchOne(m *Match, p *Packet) (bool, error) {
	for _, o := range m.Opts {
		var ok bool
		switch m.Mod + " " + o.Name {
		case "comment --comment":
			continue
		case "set --match-set":
			s := k.Sets[o.Args[0]]
			if s == nil {
				return false, &WalkError{"rule names missing set " + o.Args[0]}
			}
			if !s.modelled() {
				return false, &WalkError{"set type " + s.Type + " is not modelled by the packet walk"}
			}
			dir := strings.Split(o.Args[1], ",")[0]
			if dir == "src" {
				ok = s.Test(p.Src)
			} else {
				ok = s.Test(p.Dst)
			}
		case "multiport --dports":
			ok = (p.Proto == "tcp" || p.Proto == "udp") && portIn(o.Args[0], p.DPort)
		case "multiport --sports":
			ok = (p.Proto == "tcp" || p.Proto == "udp") && portIn(o.Args[0], p.SPort)
		case "multiport --ports":
			ok = (p.Proto == "tcp" || p.Proto == "udp") && (portIn(o.Args[0], p.SPort) || portIn(o.Args[0], p.DPort))
		case "tcp --dport", "udp --dport":
			ok = p.Proto == m.Mod && portIn(o.Args[0], p.DPort)
		case "tcp --sport", "udp --sport":
			ok = p.Proto == m.Mod && portIn(o.Args[0], p.SPort)
		case "conntrack --ctstate", "state --state":
			ok = inList(o.Args[0], p.State)
		case "addrtype --dst-type":
			ok = o.Args[0] == "LOCAL" && p.DstLocal
		case "addrtype --src-type":
			ok = o.Args[0] == "LOCAL" && p.SrcLocal
		case "mark --mark":
			val, mask := o.Args[0], "0xffffffff"
			if i := strings.IndexByte(val, '/'); i >= 0 {
				val, mask = val[:i], val[i+1:]
			}
			v, err1 := strconv.ParseUint(val, 0, 32)
			mk, err2 := strconv.ParseUint(mask, 0, 32)
			if err1 != nil || err2 != nil {
				return false, &WalkError{"bad mark " + o.Args[0]}
			}
			ok = p.Mark&uint32(mk) == uint32(v)
		default:
			return false, &WalkError{fmt.Sprintf("match -m %s %s is not modelled by the packet walk", m.Mod, o.Name)}
		}
		if ok == o.Neg {
			return false, nil
		}
	}
	if len(m.Opts) == 0 && (m.Mod == "tcp" || m.Mod == "udp") {
		return p.Proto == m.Mod, nil
	}
	return true, nil
}

// Matches reports whether the rule's selectors match the packet.
func (k *Kernel) Matches(r *Rule, p *Packet) (bool, error) {
	if r.Src != nil && r.Src.Contains(p.Src) == r.Src.Neg {
		return false, nil
	}
	if r.Dst != nil && r.Dst.Contains(p.Dst) == r.Dst.Neg {
		return false, nil
	}
	if r.Proto != nil && (r.Proto.V == p.Proto) == r.Proto.Neg {
		return false, nil
	}
	if r.In != nil && (r.In.V == p.In) == r.In.Neg {
		return false, nil
	}
	if r.Out != nil && (r.Out.V == p.Out) == r.Out.Neg {
		return false, nil
	}
	for i := range r.Matches {
		ok, err := k.matchOne(&r.Matches[i], p)
		if err != nil || !ok {
			return false, err
		}
	}
	return true, nil
}

// Walk traverses chain of table for packet p (p may be rewritten by MARK / NAT targets). The policy of a
// built-in chain is applied at its end; a user chain that ends returns Fallthrough.
func (k *Kernel) Walk(table, chain string, p *Packet) (Verdict, error) {
	return k.walk(k.Tables[table], chain, p, 0)
}

func (k *Kernel) walk(t *Table, chain string, p *Packet, depth int) (Verdict, error) {
	if t == nil {
		return Fallthrough, &WalkError{"no such table"}
	}
	ch := t.Chains[chain]
	if ch == nil {
		return Fallthrough, &WalkError{"no such chain " + chain}
	}
	if depth > 16 {
		return Fallthrough, &WalkError{"chain loop at " + chain}
	}
	for _, r := range ch.Rules {
		ok, err := k.Matches(r, p)
		if err != nil {
			return Fallthrough, err
		}
		if !ok {
			continue
		}
		switch r.Target {
		case "":
			continue
		case "ACCEPT":
			return Accept, nil
		case "DROP", "REJECT":
			return Drop, nil
		case "RETURN":
			if ch.Builtin {
				return policyVerdict(ch), nil
			}
			return Fallthrough, nil
		case "LOG", "NOTRACK", "TCPMSS":
			continue
		case "MARK":
			for _, o := range r.TOpts {
				val, mask := o.Args[0], ""
				if i := strings.IndexByte(val, '/'); i >= 0 {
					val, mask = val[:i], val[i+1:]
				}
				v, _ := strconv.ParseUint(val, 0, 32)
				mk := uint64(0xffffffff)
				if mask != "" {
					mk, _ = strconv.ParseUint(mask, 0, 32)
				}
				switch o.Name {
				case "--set-xmark":
					p.Mark = (p.Mark &^ uint32(mk)) ^ uint32(v)
				case "--set-mark":
					p.Mark = (p.Mark &^ uint32(mk)) | uint32(v)
				case "--or-mark":
					p.Mark |= uint32(v)
				case "--and-mark":
					p.Mark &= uint32(v)
				}
			}
			continue
		case "DNAT":
			for _, o := range r.TOpts {
				if o.Name == "--to-destination" {
					host, port := o.Args[0], ""
					if i := strings.LastIndexByte(host, ':'); i >= 0 {
						host, port = host[:i], host[i+1:]
					}
					if ip, ok := IPToU32(host); ok {
						p.Dst = ip
					}
					if n, err := strconv.Atoi(port); err == nil {
						p.DPort = n
					}
				}
			}
			return Nat, nil
		case "SNAT", "MASQUERADE", "REDIRECT":
			return Nat, nil
		default:
			if IsBuiltinTarget(r.Target) {
				return Fallthrough, &WalkError{"target " + r.Target + " is not modelled by the packet walk"}
			}
			v, err := k.walk(t, r.Target, p, depth+1)
			if err != nil {
				return Fallthrough, err
			}
			if v != Fallthrough {
				return v, nil
			}
			if r.Goto {
				if ch.Builtin {
					return policyVerdict(ch), nil
				}
				return Fallthrough, nil
			}
		}
	}
	if ch.Builtin {
		return policyVerdict(ch), nil
	}
	return Fallthrough, nil
}

func policyVerdict(ch *Chain) Verdict {
	if ch.Policy == "DROP" {
		return Drop
	}
	return Accept
}
