// Package simkernel is the strict simulated kernel behind the iptables and ipset seams (DESIGN §7.1).
//
// Scheduler side (this file, rule.go, ipset.go, walk.go): netfilter tables "filter", "nat" and "mangle" with
// their built-in chains, user chains and rules, and the ipset sets. State is owned by the scheduler goroutine;
// the only way in is Exec, which takes the command line of one of the four tools (iptables, iptables-save,
// iptables-restore, ipset) plus its standard input and returns an exit status and the combined output, i.e.
// exactly what the exec-backed runners of pkg/utils/iptables and pkg/utils/ipset see.
//
// Task side (stubs.go): implementations of utiliptables.Interface and ipset.Interface that build the same
// command lines as those runners and forward them with core.Call.
//
// The kernel is "strict" in precisely the ways listed in DESIGN §7.1 (each one is a documented behaviour of
// the real tools, and each refusal is recorded as an Event with a Reject kind so that worlds can build
// oracles on them); in everything else it is as permissive as the repository's test fakes.
package simkernel

import (
	"fmt"
	"sort"
	"strconv"
	"strings"

	"tkestack.io/galaxy/verifsim/core"
)

// Reject says why a command was refused.
type Reject int

const (
	RejNone           Reject = iota
	RejSyntax                // malformed command line / unknown option (exit 2): the model cannot parse it
	RejBadValue              // a value the real tool refuses: non-IPv4 address, non-numeric port, >15 multiport slots, comment >255
	RejNoChain               // the chain operated on does not exist ("No chain/target/match by that name")
	RejNoTarget              // the jump target chain does not exist
	RejNoSet                 // --match-set names a set that does not exist
	RejChainExists           // -N of an existing chain
	RejTooManyLinks          // -X of a chain that is still referenced
	RejNotEmpty              // -X of a chain that still has rules
	RejBadRule               // -C / -D of a rule that is not there
	RejBuiltin               // -X of a built-in chain, policy on a user chain, ...
	RejSetMissing            // ipset command on a set that does not exist
	RejSetExists             // ipset create of an existing set (without -exist, or with other parameters)
	RejSetInUse              // ipset destroy of a set referenced by a rule
	RejElemExists            // ipset add of an element that is there (without -exist)
	RejElemMissing           // ipset del of an element that is not there (without -exist)
	RejBadElem               // ipset add/del/test of a member the set type cannot hold (e.g. a zero prefix in hash:net)
	RejNoTable               // unknown table
	RejFault                 // injected by the world (not produced here)
)

func (r Reject) String() string {
	return [...]string{"", "syntax", "bad-value", "no-chain", "no-target", "no-set", "chain-exists", "too-many-links", "not-empty", "bad-rule",
		"builtin", "set-missing", "set-exists", "set-in-use", "elem-exists", "elem-missing", "bad-elem", "no-table", "fault"}[r]
}

const msgNoChain = "No chain/target/match by that name."

// Event describes one executed command.
type Event struct {
	Tool    string
	Args    []string
	Stdin   string
	Exit    int
	Out     string
	Reject  Reject
	Subject string // chain / set the rejection is about
	Line    int    // iptables-restore: failing line
	Mutator bool   // the command was meant to change state (as opposed to -C, -S, list, save)
	Changed bool   // kernel state differs after the command
}

// Chain is a netfilter chain.
type Chain struct {
	Name    string
	Builtin bool
	Policy  string // built-in chains only
	Rules   []*Rule
}

// Table is a netfilter table.
type Table struct {
	Name   string
	Chains map[string]*Chain
}

var builtins = map[string][]string{
	"filter": {"INPUT", "FORWARD", "OUTPUT"},
	"nat":    {"PREROUTING", "INPUT", "OUTPUT", "POSTROUTING"},
	"mangle": {"PREROUTING", "INPUT", "FORWARD", "OUTPUT", "POSTROUTING"},
}

var tableOrder = []string{"mangle", "nat", "filter"}

// Kernel is the simulated netfilter + ipset state.
type Kernel struct {
	Tables map[string]*Table
	Sets   map[string]*Set
	// OnEvent observes every executed command after it has been applied.
	OnEvent func(ev *Event)
	Execs   int
}

// New returns a kernel with empty built-in chains (policy ACCEPT) and no sets.
func New() *Kernel {
	k := &Kernel{Tables: map[string]*Table{}, Sets: map[string]*Set{}}
	for name, chains := range builtins {
		t := &Table{Name: name, Chains: map[string]*Chain{}}
		for _, c := range chains {
			t.Chains[c] = &Chain{Name: c, Builtin: true, Policy: "ACCEPT"}
		}
		k.Tables[name] = t
	}
	return k
}

func (t *Table) clone() *Table {
	n := &Table{Name: t.Name, Chains: make(map[string]*Chain, len(t.Chains))}
	for name, c := range t.Chains {
		nc := &Chain{Name: c.Name, Builtin: c.Builtin, Policy: c.Policy, Rules: make([]*Rule, len(c.Rules))}
		copy(nc.Rules, c.Rules) // rules are immutable once parsed
		n.Chains[name] = nc
	}
	return n
}

// ChainNames returns built-in chains in kernel order followed by user chains sorted by name (the order in
// which iptables-save of the legacy backend lists them).
func (t *Table) ChainNames() []string {
	out := append([]string{}, builtins[t.Name]...)
	var user []string
	for n, c := range t.Chains {
		if !c.Builtin {
			user = append(user, n)
		}
	}
	sort.Strings(user)
	return append(out, user...)
}

// refs counts the rules of the table that jump to chain.
func (t *Table) refs(chain string) int {
	n := 0
	for _, c := range t.Chains {
		for _, r := range c.Rules {
			if r.Target == chain {
				n++
			}
		}
	}
	return n
}

// setRefs counts the rules (all tables) that name the set.
func (k *Kernel) setRefCount(set string) int {
	n := 0
	for _, t := range k.Tables {
		for _, c := range t.Chains {
			for _, r := range c.Rules {
				for _, s := range r.setRefs() {
					if s == set {
						n++
					}
				}
			}
		}
	}
	return n
}

// fail is a refused command.
type fail struct {
	rej     Reject
	subject string
	exit    int
	msg     string
}

func (f *fail) Error() string { return f.msg }

func noChain(chain string) *fail {
	return &fail{rej: RejNoChain, subject: chain, exit: 1, msg: "iptables: " + msgNoChain}
}

// checkRefs verifies what the real tools verify when a rule is added: the sets it names exist (checked when
// the rule is parsed, exit 2) and its target is a verdict, an extension target or an existing chain.
func (k *Kernel) checkRefs(t *Table, r *Rule) *fail {
	for _, s := range r.setRefs() {
		if k.Sets[s] == nil {
			return &fail{rej: RejNoSet, subject: s, exit: 2, msg: fmt.Sprintf("iptables v1.4.21: Set %s doesn't exist.", s)}
		}
	}
	if r.Target != "" && !IsBuiltinTarget(r.Target) {
		if t.Chains[r.Target] == nil {
			return &fail{rej: RejNoTarget, subject: r.Target, exit: 2,
				msg: fmt.Sprintf("iptables v1.4.21: Couldn't load target `%s':No such file or directory", r.Target)}
		}
	}
	return nil
}

// cmd is a parsed iptables command line.
type cmd struct {
	table  string
	op     string // -A -I -D -C -N -X -F -S -L -P
	chain  string
	pos    int    // -I position, -D rule number (0 = none)
	policy string // -P
	spec   []string
}

func parseCmd(args []string, inRestore bool) (*cmd, error) {
	c := &cmd{table: "filter"}
	for i := 0; i < len(args); i++ {
		a := args[i]
		switch a {
		case "-t", "--table":
			if inRestore {
				return nil, &syntaxErr{"The -t option cannot be used in iptables-restore"}
			}
			if i+1 >= len(args) {
				return nil, &syntaxErr{"option \"-t\" requires an argument"}
			}
			i++
			c.table = args[i]
		case "-w", "--wait":
			if i+1 < len(args) {
				if _, err := strconv.Atoi(args[i+1]); err == nil {
					i++
				}
			}
		case "-n", "--numeric", "-v", "--verbose", "--line-numbers", "-x", "--exact":
		case "-A", "--append", "-I", "--insert", "-D", "--delete", "-C", "--check", "-N", "--new-chain", "-X", "--delete-chain",
			"-F", "--flush", "-S", "--list-rules", "-L", "--list", "-P", "--policy":
			if c.op != "" {
				return nil, &syntaxErr{"Cannot use " + a + " with " + c.op}
			}
			c.op = shortOp(a)
			if i+1 < len(args) && !strings.HasPrefix(args[i+1], "-") && args[i+1] != "!" {
				i++
				c.chain = args[i]
			}
			switch c.op {
			case "-A", "-I", "-D", "-C", "-N", "-P":
				if c.chain == "" {
					return nil, &syntaxErr{"option \"" + a + "\" requires an argument"}
				}
			}
			if (c.op == "-I" || c.op == "-D") && i+1 < len(args) {
				if n, err := strconv.Atoi(args[i+1]); err == nil {
					c.pos = n
					i++
				}
			}
			if c.op == "-P" {
				if i+1 >= len(args) {
					return nil, &syntaxErr{"-P requires a chain and a policy"}
				}
				i++
				c.policy = args[i]
			}
		default:
			c.spec = append(c.spec, a)
		}
	}
	if c.op == "" {
		return nil, &syntaxErr{"no command specified"}
	}
	return c, nil
}

func shortOp(a string) string {
	switch a {
	case "--append":
		return "-A"
	case "--insert":
		return "-I"
	case "--delete":
		return "-D"
	case "--check":
		return "-C"
	case "--new-chain":
		return "-N"
	case "--delete-chain":
		return "-X"
	case "--flush":
		return "-F"
	case "--list-rules":
		return "-S"
	case "--list":
		return "-L"
	case "--policy":
		return "-P"
	}
	return a
}

// apply executes one command against table t (already the private copy when called from restore). It returns
// the text output of listing commands.
func (k *Kernel) apply(t *Table, c *cmd) (string, *fail) {
	switch c.op {
	case "-N":
		if len(c.chain) > 28 {
			return "", &fail{rej: RejSyntax, exit: 2, msg: fmt.Sprintf("iptables v1.4.21: chain name `%s' too long (must be under 29 chars)", c.chain)}
		}
		if t.Chains[c.chain] != nil || IsBuiltinTarget(c.chain) {
			return "", &fail{rej: RejChainExists, subject: c.chain, exit: 1, msg: "iptables: Chain already exists."}
		}
		t.Chains[c.chain] = &Chain{Name: c.chain}
		return "", nil
	case "-X":
		names := []string{c.chain}
		if c.chain == "" {
			names = nil
			for _, n := range t.ChainNames() {
				if !t.Chains[n].Builtin {
					names = append(names, n)
				}
			}
		}
		for _, n := range names {
			ch := t.Chains[n]
			if ch == nil {
				return "", noChain(n)
			}
			if ch.Builtin {
				return "", &fail{rej: RejBuiltin, subject: n, exit: 1, msg: "iptables: Invalid argument. Run `dmesg' for more information."}
			}
			if t.refs(n) > 0 {
				return "", &fail{rej: RejTooManyLinks, subject: n, exit: 1, msg: "iptables: Too many links."}
			}
			if len(ch.Rules) > 0 {
				return "", &fail{rej: RejNotEmpty, subject: n, exit: 1, msg: "iptables: Directory not empty."}
			}
			delete(t.Chains, n)
		}
		return "", nil
	case "-F":
		if c.chain == "" {
			for _, ch := range t.Chains {
				ch.Rules = nil
			}
			return "", nil
		}
		ch := t.Chains[c.chain]
		if ch == nil {
			return "", noChain(c.chain)
		}
		ch.Rules = nil
		return "", nil
	case "-P":
		ch := t.Chains[c.chain]
		if ch == nil {
			return "", noChain(c.chain)
		}
		if !ch.Builtin {
			return "", &fail{rej: RejBuiltin, subject: c.chain, exit: 1, msg: "iptables: Bad built-in chain name."}
		}
		if c.policy != "ACCEPT" && c.policy != "DROP" {
			return "", &fail{rej: RejSyntax, exit: 1, msg: "iptables: Bad policy name. Run `dmesg' for more information."}
		}
		ch.Policy = c.policy
		return "", nil
	case "-S", "-L":
		var sb strings.Builder
		names := []string{c.chain}
		if c.chain == "" {
			names = t.ChainNames()
		} else if t.Chains[c.chain] == nil {
			return "", noChain(c.chain)
		}
		for _, n := range names {
			ch := t.Chains[n]
			if ch.Builtin {
				fmt.Fprintf(&sb, "-P %s %s\n", n, ch.Policy)
			} else {
				fmt.Fprintf(&sb, "-N %s\n", n)
			}
		}
		for _, n := range names {
			for _, r := range t.Chains[n].Rules {
				sb.WriteString(ruleLine(n, r))
			}
		}
		return sb.String(), nil
	case "-A", "-I", "-C", "-D":
		var r *Rule
		if !(c.op == "-D" && c.pos > 0 && len(c.spec) == 0) {
			var err error
			r, err = parseRule(c.spec)
			if err != nil {
				if _, ok := err.(*valueErr); ok {
					return "", &fail{rej: RejBadValue, exit: 2, msg: "iptables v1.4.21: " + err.Error()}
				}
				return "", &fail{rej: RejSyntax, exit: 2, msg: "iptables v1.4.21: " + err.Error()}
			}
			// sets are looked up while the command line is parsed, before the chain is looked at
			for _, s := range r.setRefs() {
				if k.Sets[s] == nil {
					return "", &fail{rej: RejNoSet, subject: s, exit: 2, msg: fmt.Sprintf("iptables v1.4.21: Set %s doesn't exist.", s)}
				}
			}
		}
		ch := t.Chains[c.chain]
		switch c.op {
		case "-A", "-I":
			if f := k.checkRefs(t, r); f != nil {
				return "", f
			}
			if ch == nil {
				return "", noChain(c.chain)
			}
			if c.op == "-A" {
				ch.Rules = append(ch.Rules, r)
			} else {
				pos := c.pos
				if pos <= 0 {
					pos = 1
				}
				if pos > len(ch.Rules)+1 {
					return "", &fail{rej: RejSyntax, exit: 1, msg: "iptables: Index of insertion too big."}
				}
				rules := make([]*Rule, 0, len(ch.Rules)+1)
				rules = append(rules, ch.Rules[:pos-1]...)
				rules = append(rules, r)
				rules = append(rules, ch.Rules[pos-1:]...)
				ch.Rules = rules
			}
			return "", nil
		case "-C", "-D":
			if r != nil {
				if f := k.checkRefs(t, r); f != nil {
					return "", f
				}
			}
			if ch == nil {
				return "", noChain(c.chain)
			}
			idx := -1
			if r == nil {
				if c.pos <= len(ch.Rules) {
					idx = c.pos - 1
				}
			} else {
				for i, x := range ch.Rules {
					if x.text == r.text {
						idx = i
						break
					}
				}
			}
			if idx < 0 {
				return "", &fail{rej: RejBadRule, subject: c.chain, exit: 1, msg: "iptables: Bad rule (does a matching rule exist in that chain?)."}
			}
			if c.op == "-D" {
				ch.Rules = append(append([]*Rule{}, ch.Rules[:idx]...), ch.Rules[idx+1:]...)
			}
			return "", nil
		}
	}
	return "", &fail{rej: RejSyntax, exit: 2, msg: "iptables: unsupported command " + c.op}
}

func ruleLine(chain string, r *Rule) string {
	if r.text == "" {
		return "-A " + chain + "\n"
	}
	return "-A " + chain + " " + r.text + "\n"
}

// Save renders one table as iptables-save does.
func (k *Kernel) Save(table string) string {
	t := k.Tables[table]
	if t == nil {
		return ""
	}
	var sb strings.Builder
	sb.WriteString("# Generated by iptables-save v1.4.21 on Thu Jan  1 00:00:00 2026\n")
	sb.WriteString("*" + table + "\n")
	names := t.ChainNames()
	for _, n := range names {
		ch := t.Chains[n]
		pol := "-"
		if ch.Builtin {
			pol = ch.Policy
		}
		fmt.Fprintf(&sb, ":%s %s [0:0]\n", n, pol)
	}
	for _, n := range names {
		for _, r := range t.Chains[n].Rules {
			sb.WriteString(ruleLine(n, r))
		}
	}
	sb.WriteString("COMMIT\n# Completed on Thu Jan  1 00:00:00 2026\n")
	return sb.String()
}

// SaveAll renders every table (the order iptables-save uses) followed by `ipset save`: the complete state.
func (k *Kernel) SaveAll() string {
	var sb strings.Builder
	for _, t := range tableOrder {
		sb.WriteString(k.Save(t))
	}
	sb.WriteString(k.SaveSets())
	return sb.String()
}

// restore implements iptables-restore [--noflush] [--counters] [-T table]: each table section is applied to
// a private copy that replaces the table at COMMIT; any failing line aborts the run with nothing of the
// current section applied (sections committed earlier stay, as with the real tool).
func (k *Kernel) restore(args []string, stdin string, ev *Event) (int, string) {
	noflush := false
	only := ""
	for i := 0; i < len(args); i++ {
		switch args[i] {
		case "--noflush", "-n":
			noflush = true
		case "--counters", "-c", "-v", "--verbose":
		case "-w", "--wait", "-W", "--wait-interval":
			if i+1 < len(args) {
				if _, err := strconv.Atoi(args[i+1]); err == nil {
					i++
				}
			}
		case "-T", "--table":
			if i+1 >= len(args) {
				ev.Reject = RejSyntax
				return 2, "iptables-restore: option requires an argument -- 'T'\n"
			}
			i++
			only = args[i]
		default:
			ev.Reject = RejSyntax
			return 2, fmt.Sprintf("iptables-restore: unrecognized option '%s'\n", args[i])
		}
	}
	var cur *Table
	skip := false
	lines := strings.Split(stdin, "\n")
	bad := func(n int, f *fail) (int, string) {
		ev.Reject, ev.Subject, ev.Line = f.rej, f.subject, n
		if f.exit == 2 {
			return 2, fmt.Sprintf("%s\n\nError occurred at line: %d\nTry `iptables-restore -h' or 'iptables-restore --help' for more information.\n",
				strings.Replace(f.msg, "iptables v", "iptables-restore v", 1), n)
		}
		return 1, fmt.Sprintf("iptables-restore: line %d failed (%s)\n", n, strings.TrimPrefix(f.msg, "iptables: "))
	}
	for i, raw := range lines {
		n := i + 1
		line := strings.TrimSpace(raw)
		if line == "" || line[0] == '#' {
			continue
		}
		switch {
		case line[0] == '*':
			name := strings.Fields(line[1:])
			if len(name) == 0 {
				return bad(n, &fail{rej: RejSyntax, exit: 2, msg: "iptables-restore: table name missing"})
			}
			t := k.Tables[name[0]]
			if t == nil {
				return bad(n, &fail{rej: RejNoTable, subject: name[0], exit: 1,
					msg: fmt.Sprintf("iptables-restore v1.4.21: can't initialize iptables table `%s': Table does not exist", name[0])})
			}
			skip = only != "" && only != name[0]
			cur = t.clone()
			if !noflush && !skip {
				for cn, ch := range cur.Chains {
					if ch.Builtin {
						ch.Rules = nil
					} else {
						delete(cur.Chains, cn)
					}
				}
			}
		case line == "COMMIT":
			if cur == nil {
				return bad(n, &fail{rej: RejSyntax, exit: 2, msg: "iptables-restore: COMMIT outside a table"})
			}
			if !skip {
				if !tablesEqual(k.Tables[cur.Name], cur) {
					ev.Changed = true
				}
				k.Tables[cur.Name] = cur
			}
			cur = nil
		case cur == nil:
			return bad(n, &fail{rej: RejSyntax, exit: 2, msg: "iptables-restore: line outside a table"})
		case skip:
		case line[0] == ':':
			f := strings.Fields(line[1:])
			if len(f) < 2 {
				return bad(n, &fail{rej: RejSyntax, exit: 2, msg: "iptables-restore: bad chain line"})
			}
			name, pol := f[0], f[1]
			ch := cur.Chains[name]
			switch {
			case ch != nil && ch.Builtin:
				if pol != "-" {
					ch.Policy = pol
				}
			case ch != nil:
				// --noflush: an existing user-defined chain that is mentioned is flushed
				ch.Rules = nil
				if pol != "-" {
					return bad(n, &fail{rej: RejBuiltin, subject: name, exit: 2, msg: "iptables-restore: policy for a user-defined chain"})
				}
			default:
				if len(name) > 28 {
					return bad(n, &fail{rej: RejSyntax, exit: 2, msg: "iptables-restore: chain name too long"})
				}
				if pol != "-" {
					return bad(n, &fail{rej: RejBuiltin, subject: name, exit: 2, msg: "iptables-restore: policy for a user-defined chain"})
				}
				cur.Chains[name] = &Chain{Name: name}
			}
		default:
			// optional [packets:bytes] prefix
			if line[0] == '[' {
				if j := strings.IndexByte(line, ']'); j > 0 {
					line = strings.TrimSpace(line[j+1:])
				}
			}
			toks, err := splitLine(line)
			if err != nil {
				return bad(n, &fail{rej: RejSyntax, exit: 2, msg: "iptables-restore: " + err.Error()})
			}
			c, err := parseCmd(toks, true)
			if err != nil {
				return bad(n, &fail{rej: RejSyntax, exit: 2, msg: "iptables-restore: " + err.Error()})
			}
			c.table = cur.Name
			if _, f := k.apply(cur, c); f != nil {
				return bad(n, f)
			}
		}
	}
	return 0, ""
}

// Exec runs one tool invocation.
func (k *Kernel) Exec(tool string, args []string, stdin string) *Event {
	k.Execs++
	ev := &Event{Tool: tool, Args: args, Stdin: stdin}
	switch tool {
	case "iptables":
		if len(args) == 1 && (args[0] == "--version" || args[0] == "-V") {
			ev.Out = "iptables v1.4.21\n"
			break
		}
		c, err := parseCmd(args, false)
		if err != nil {
			ev.Exit, ev.Out, ev.Reject = 2, "iptables v1.4.21: "+err.Error()+"\n", RejSyntax
			break
		}
		ev.Mutator = c.op != "-C" && c.op != "-S" && c.op != "-L"
		t := k.Tables[c.table]
		if t == nil {
			ev.Exit, ev.Reject, ev.Subject = 3, RejNoTable, c.table
			ev.Out = fmt.Sprintf("iptables v1.4.21: can't initialize iptables table `%s': Table does not exist (do you need to insmod?)\n", c.table)
			break
		}
		var snap *Table
		if ev.Mutator {
			snap = t.clone()
		}
		out, f := k.apply(t, c)
		if f != nil {
			ev.Exit, ev.Out, ev.Reject, ev.Subject = f.exit, f.msg+"\n", f.rej, f.subject
		} else {
			ev.Out = out
		}
		if ev.Mutator {
			ev.Changed = !tablesEqual(snap, t)
		}
	case "iptables-save":
		table := ""
		for i := 0; i < len(args); i++ {
			if (args[i] == "-t" || args[i] == "--table") && i+1 < len(args) {
				table = args[i+1]
				i++
			}
		}
		if table == "" {
			for _, t := range tableOrder {
				ev.Out += k.Save(t)
			}
		} else if k.Tables[table] == nil {
			ev.Exit, ev.Reject, ev.Subject = 1, RejNoTable, table
			ev.Out = fmt.Sprintf("iptables-save v1.4.21: Cannot initialize: Table does not exist\n")
		} else {
			ev.Out = k.Save(table)
		}
	case "iptables-restore":
		if len(args) == 1 && args[0] == "--version" {
			ev.Out = "iptables-restore v1.4.21\n"
			break
		}
		ev.Mutator = true
		ev.Exit, ev.Out = k.restore(args, stdin, ev)
	case "ipset":
		k.execIPSet(args, ev)
	default:
		ev.Exit, ev.Out, ev.Reject = 127, tool + ": command not found\n", RejSyntax
	}
	if k.OnEvent != nil {
		k.OnEvent(ev)
	}
	return ev
}

// tablesEqual compares two versions of a table (chains, policies and rule texts in order).
func tablesEqual(a, b *Table) bool {
	if len(a.Chains) != len(b.Chains) {
		return false
	}
	for n, ca := range a.Chains {
		cb := b.Chains[n]
		if cb == nil || ca.Policy != cb.Policy || len(ca.Rules) != len(cb.Rules) {
			return false
		}
		for i := range ca.Rules {
			if ca.Rules[i] != cb.Rules[i] && ca.Rules[i].text != cb.Rules[i].text {
				return false
			}
		}
	}
	return true
}

func (k *Kernel) saveTables() string {
	var sb strings.Builder
	for _, t := range tableOrder {
		sb.WriteString(k.Save(t))
	}
	return sb.String()
}

// IsExecOp reports whether op is a tool invocation forwarded by the task-side stubs.
func IsExecOp(op string) bool { return op == "exec" }

// Handle serves an "exec" request: A = tool followed by its arguments, B = standard input. The response
// carries the exit status in Code and the combined output in B.
func (k *Kernel) Handle(r *core.Req) core.Resp {
	if len(r.A) == 0 {
		return core.Resp{Code: 127, B: []byte("exec: no command\n")}
	}
	ev := k.Exec(r.A[0], r.A[1:], string(r.B))
	return core.Resp{Code: ev.Exit, B: []byte(ev.Out)}
}

// MustRestore installs prior state given as iptables-restore input (world set-up); it panics on a refusal.
func (k *Kernel) MustRestore(data string) {
	ev := k.Exec("iptables-restore", []string{"--noflush"}, data)
	if ev.Exit != 0 {
		panic(fmt.Sprintf("simkernel: prior state refused: %s\n%s", ev.Out, data))
	}
}

// MustIPSet runs an ipset command during world set-up; it panics on a refusal.
func (k *Kernel) MustIPSet(args ...string) {
	ev := k.Exec("ipset", args, "")
	if ev.Exit != 0 {
		panic(fmt.Sprintf("simkernel: ipset %v refused: %s", args, ev.Out))
	}
}
