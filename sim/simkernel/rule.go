package simkernel

// Rule grammar: parsing of iptables rule specifications (argv form and iptables-restore line form), the
// canonical iptables-save rendering, and equality (what -C / -D compare). Only the option vocabulary listed
// in the tables below is understood; anything else is a syntax error (exit status 2), which the worlds
// report as harness trouble rather than as a verdict, so an unknown option can never silently match.

import (
	"fmt"
	"net"
	"strconv"
	"strings"
)

// Addr is an -s/-d operand.
type Addr struct {
	Neg  bool
	IP   uint32
	Bits int
}

func (a *Addr) String() string { return fmt.Sprintf("%s/%d", U32ToIP(a.IP), a.Bits) }

// Contains reports whether ip is inside the prefix (ignoring Neg).
func (a *Addr) Contains(ip uint32) bool { return ip&maskOf(a.Bits) == a.IP }

// SVal is a possibly negated string operand (-p, -i, -o).
type SVal struct {
	Neg bool
	V   string
}

// Opt is one option of a match or target extension, in canonical (long) spelling.
type Opt struct {
	Neg  bool
	Name string
	Args []string
}

// Match is one -m module instance.
type Match struct {
	Mod  string
	Opts []Opt
}

// Rule is a parsed rule.
type Rule struct {
	Src, Dst       *Addr
	In, Out, Proto *SVal
	Matches        []Match
	Target         string
	Goto           bool
	TOpts          []Opt
	text           string
}

// Spec is the canonical rule text as iptables-save prints it after "-A <chain>" (no leading space).
func (r *Rule) Spec() string { return r.text }

func maskOf(bits int) uint32 {
	if bits <= 0 {
		return 0
	}
	return ^uint32(0) << (32 - uint(bits))
}

// IPToU32 parses a dotted quad.
func IPToU32(s string) (uint32, bool) {
	ip := net.ParseIP(s)
	if ip == nil {
		return 0, false
	}
	ip = ip.To4()
	if ip == nil {
		return 0, false
	}
	return uint32(ip[0])<<24 | uint32(ip[1])<<16 | uint32(ip[2])<<8 | uint32(ip[3]), true
}

// U32ToIP renders a dotted quad.
func U32ToIP(v uint32) string {
	return fmt.Sprintf("%d.%d.%d.%d", byte(v>>24), byte(v>>16), byte(v>>8), byte(v))
}

// ParsePrefix parses "a.b.c.d" or "a.b.c.d/n" and masks host bits (as iptables and ipset do).
func ParsePrefix(s string) (ip uint32, bits int, ok bool) {
	bits = 32
	host := s
	if i := strings.IndexByte(s, '/'); i >= 0 {
		host = s[:i]
		n, err := strconv.Atoi(s[i+1:])
		if err != nil || n < 0 || n > 32 {
			return 0, 0, false
		}
		bits = n
	}
	v, ok := IPToU32(host)
	if !ok {
		return 0, 0, false
	}
	return v & maskOf(bits), bits, true
}

// number of arguments of the options of each match module (canonical names)
var matchOpts = map[string]map[string]int{
	"comment":   {"--comment": 1},
	"set":       {"--match-set": 2},
	"multiport": {"--dports": 1, "--sports": 1, "--ports": 1},
	"conntrack": {"--ctstate": 1, "--ctproto": 1, "--ctorigsrc": 1, "--ctorigdst": 1, "--ctstatus": 1, "--ctdir": 1},
	"state":     {"--state": 1},
	"tcp":       {"--dport": 1, "--sport": 1, "--tcp-flags": 2, "--syn": 0},
	"udp":       {"--dport": 1, "--sport": 1},
	"addrtype":  {"--src-type": 1, "--dst-type": 1, "--limit-iface-in": 0, "--limit-iface-out": 0},
	"mark":      {"--mark": 1},
	"limit":     {"--limit": 1, "--limit-burst": 1},
	"icmp":      {"--icmp-type": 1},
	"physdev":   {"--physdev-in": 1, "--physdev-out": 1, "--physdev-is-bridged": 0},
	"pkttype":   {"--pkt-type": 1},
}

// number of arguments of the options of each extension target; a target that is neither a standard verdict
// nor listed here must be the name of a user chain of the table
var targetOpts = map[string]map[string]int{
	"ACCEPT":     {},
	"DROP":       {},
	"RETURN":     {},
	"QUEUE":      {},
	"REJECT":     {"--reject-with": 1},
	"LOG":        {"--log-prefix": 1, "--log-level": 1},
	"MARK":       {"--set-xmark": 1, "--set-mark": 1, "--and-mark": 1, "--or-mark": 1, "--xor-mark": 1},
	"DNAT":       {"--to-destination": 1, "--random": 0, "--persistent": 0},
	"SNAT":       {"--to-source": 1, "--random": 0, "--persistent": 0},
	"MASQUERADE": {"--to-ports": 1, "--random": 0},
	"REDIRECT":   {"--to-ports": 1, "--random": 0},
	"NOTRACK":    {},
	"TCPMSS":     {"--set-mss": 1, "--clamp-mss-to-pmtu": 0},
}

var optAlias = map[string]string{
	"--destination-port":  "--dport",
	"--source-port":       "--sport",
	"--destination-ports": "--dports",
	"--source-ports":      "--sports",
	"--set":               "--match-set",
	"--to":                "--to-destination",
}

// IsBuiltinTarget reports whether name is a verdict or extension target (as opposed to a user chain).
func IsBuiltinTarget(name string) bool { _, ok := targetOpts[name]; return ok }

// syntaxErr is a malformed command line (exit status 2): something the kernel model does not understand.
type syntaxErr struct{ msg string }

func (e *syntaxErr) Error() string { return e.msg }

// valueErr is a well-formed option whose VALUE the real tool refuses (exit status 2): an address that is not
// IPv4, a port that is neither a number nor a range (service names are not resolved: a NetworkPolicy port name
// is a container port name, not an /etc/services entry), more than 15 ports in a multiport list, a comment of
// 256 characters or more.
type valueErr struct{ msg string }

func (e *valueErr) Error() string { return e.msg }

func checkPort(s string) error {
	n, err := strconv.Atoi(s)
	if err != nil || n < 0 || n > 65535 {
		return &valueErr{fmt.Sprintf("invalid port/service `%s' specified", s)}
	}
	return nil
}

// checkPorts validates a port, a range a:b or (multi) a comma list of those with at most 15 slots.
func checkPorts(list string, multi bool) error {
	parts := []string{list}
	if multi {
		parts = strings.Split(list, ",")
	}
	slots := 0
	for _, p := range parts {
		lo, hi := p, ""
		if i := strings.IndexByte(p, ':'); i >= 0 {
			lo, hi = p[:i], p[i+1:]
			slots++
		}
		slots++
		if lo != "" || hi == "" {
			if err := checkPort(lo); err != nil {
				return err
			}
		}
		if hi != "" {
			if err := checkPort(hi); err != nil {
				return err
			}
		}
	}
	if multi && slots > 15 {
		return &valueErr{"too many ports specified"}
	}
	return nil
}

func checkOptValue(mod, name string, args []string) error {
	switch {
	case mod == "multiport":
		return checkPorts(args[0], true)
	case (mod == "tcp" || mod == "udp") && (name == "--dport" || name == "--sport"):
		return checkPorts(args[0], false)
	case mod == "comment" && len(args[0]) > 255:
		return &valueErr{"comment too long"}
	}
	return nil
}

// setRef is the name of a set a rule refers to; its existence is checked by the caller at parse time, as
// the real set match does.
func (r *Rule) setRefs() []string {
	var out []string
	for _, m := range r.Matches {
		if m.Mod != "set" {
			continue
		}
		for _, o := range m.Opts {
			if o.Name == "--match-set" && len(o.Args) > 0 {
				out = append(out, o.Args[0])
			}
		}
	}
	return out
}

// parseRule parses a rule specification (everything except the command and the chain).
func parseRule(toks []string) (*Rule, error) {
	r := &Rule{}
	neg := false
	takeNeg := func() bool { n := neg; neg = false; return n }
	i := 0
	next := func(opt string) (string, error) {
		if i+1 >= len(toks) {
			return "", &syntaxErr{fmt.Sprintf("option %q requires an argument", opt)}
		}
		i++
		return toks[i], nil
	}
	// an argument may itself be preceded by "!" (old syntax: -s ! 10.0.0.0/8)
	nextNeg := func(opt string) (string, bool, error) {
		v, err := next(opt)
		if err != nil {
			return "", false, err
		}
		n := takeNeg()
		if v == "!" {
			n = true
			v, err = next(opt)
			if err != nil {
				return "", false, err
			}
		}
		return v, n, nil
	}
	for ; i < len(toks); i++ {
		t := toks[i]
		// --opt=value
		if strings.HasPrefix(t, "--") {
			if eq := strings.IndexByte(t, '='); eq > 0 {
				rest := append([]string{t[:eq], t[eq+1:]}, toks[i+1:]...)
				toks = append(append([]string{}, toks[:i]...), rest...)
				t = toks[i]
			}
		}
		switch t {
		case "!":
			neg = true
		case "-s", "--source", "--src", "-d", "--destination", "--dst":
			v, n, err := nextNeg(t)
			if err != nil {
				return nil, err
			}
			ip, bits, ok := ParsePrefix(v)
			if !ok {
				return nil, &valueErr{fmt.Sprintf("host/network `%s' not found", v)}
			}
			a := &Addr{Neg: n, IP: ip, Bits: bits}
			if t == "-s" || t == "--source" || t == "--src" {
				r.Src = a
			} else {
				r.Dst = a
			}
		case "-p", "--protocol":
			v, n, err := nextNeg(t)
			if err != nil {
				return nil, err
			}
			v = strings.ToLower(v)
			switch v {
			case "6":
				v = "tcp"
			case "17":
				v = "udp"
			case "1":
				v = "icmp"
			case "0":
				v = "all"
			}
			switch v {
			case "tcp", "udp", "icmp", "all", "sctp", "udplite", "esp", "ah":
			default:
				return nil, &syntaxErr{fmt.Sprintf("unknown protocol \"%s\" specified", v)}
			}
			if v == "all" && !n {
				r.Proto = nil
			} else {
				r.Proto = &SVal{Neg: n, V: v}
			}
		case "-i", "--in-interface":
			v, n, err := nextNeg(t)
			if err != nil {
				return nil, err
			}
			r.In = &SVal{Neg: n, V: v}
		case "-o", "--out-interface":
			v, n, err := nextNeg(t)
			if err != nil {
				return nil, err
			}
			r.Out = &SVal{Neg: n, V: v}
		case "-m", "--match":
			v, err := next(t)
			if err != nil {
				return nil, err
			}
			if _, ok := matchOpts[v]; !ok {
				return nil, &syntaxErr{fmt.Sprintf("Couldn't load match `%s':No such file or directory", v)}
			}
			r.Matches = append(r.Matches, Match{Mod: v})
		case "-j", "--jump", "-g", "--goto":
			v, err := next(t)
			if err != nil {
				return nil, err
			}
			if r.Target != "" {
				return nil, &syntaxErr{"multiple -j flags not allowed"}
			}
			r.Target = v
			r.Goto = t == "-g" || t == "--goto"
		case "-c", "--set-counters":
			if _, err := next(t); err != nil {
				return nil, err
			}
			if _, err := next(t); err != nil {
				return nil, err
			}
		default:
			if !strings.HasPrefix(t, "--") {
				return nil, &syntaxErr{fmt.Sprintf("Bad argument `%s'", t)}
			}
			name := t
			if a, ok := optAlias[name]; ok {
				name = a
			}
			if err := r.extensionOpt(name, takeNeg(), &i, toks); err != nil {
				return nil, err
			}
		}
	}
	if neg {
		return nil, &syntaxErr{"nothing after '!'"}
	}
	r.text = r.render()
	return r, nil
}

// extensionOpt attaches --name to the target (if it owns the option), else to the most recent match that owns
// it, else to the implicit protocol match (-p tcp --dport N loads the tcp match).
func (r *Rule) extensionOpt(name string, neg bool, i *int, toks []string) error {
	take := func(n int) ([]string, bool, error) {
		var args []string
		for k := 0; k < n; k++ {
			if *i+1 >= len(toks) {
				return nil, false, &syntaxErr{fmt.Sprintf("option %q requires an argument", name)}
			}
			*i++
			args = append(args, toks[*i])
		}
		return args, neg, nil
	}
	if r.Target != "" {
		if tm, ok := targetOpts[r.Target]; ok {
			if n, ok := tm[name]; ok {
				args, ng, err := take(n)
				if err != nil {
					return err
				}
				r.TOpts = append(r.TOpts, Opt{Neg: ng, Name: name, Args: args})
				return nil
			}
		}
	}
	for k := len(r.Matches) - 1; k >= 0; k-- {
		if n, ok := matchOpts[r.Matches[k].Mod][name]; ok {
			args, ng, err := take(n)
			if err != nil {
				return err
			}
			args = canonArgs(r.Matches[k].Mod, name, args)
			if len(args) > 0 {
				if err := checkOptValue(r.Matches[k].Mod, name, args); err != nil {
					return err
				}
			}
			r.Matches[k].Opts = append(r.Matches[k].Opts, Opt{Neg: ng, Name: name, Args: args})
			return nil
		}
	}
	if r.Proto != nil && !r.Proto.Neg {
		if n, ok := matchOpts[r.Proto.V][name]; ok {
			args, ng, err := take(n)
			if err != nil {
				return err
			}
			if len(args) > 0 {
				if err := checkOptValue(r.Proto.V, name, args); err != nil {
					return err
				}
			}
			r.Matches = append(r.Matches, Match{Mod: r.Proto.V, Opts: []Opt{{Neg: ng, Name: name, Args: args}}})
			return nil
		}
	}
	return &syntaxErr{fmt.Sprintf("unknown option \"%s\"", name)}
}

func canonArgs(mod, name string, args []string) []string {
	if mod == "comment" && len(args) == 1 {
		// the exec-free callers sometimes pass a comment that still carries its shell quotes
		a := args[0]
		if len(a) >= 2 && a[0] == '"' && a[len(a)-1] == '"' {
			args = []string{a[1 : len(a)-1]}
		}
	}
	return args
}

// saveString is xtables_save_string: plain if the text has no character that needs quoting.
func saveString(s string) string {
	plain := s != ""
	for _, c := range s {
		if c == ' ' || c == '\t' || c == '"' || c == '\\' || c == '\'' || c == '\n' {
			plain = false
			break
		}
	}
	if plain {
		return s
	}
	var sb strings.Builder
	sb.WriteByte('"')
	for _, c := range s {
		if c == '"' || c == '\\' {
			sb.WriteByte('\\')
		}
		sb.WriteRune(c)
	}
	sb.WriteByte('"')
	return sb.String()
}

func renderOpts(sb *strings.Builder, opts []Opt, quoteAll bool) {
	for _, o := range opts {
		if o.Neg {
			sb.WriteString(" !")
		}
		sb.WriteByte(' ')
		sb.WriteString(o.Name)
		for _, a := range o.Args {
			sb.WriteByte(' ')
			if quoteAll {
				sb.WriteString(saveString(a))
			} else {
				sb.WriteString(a)
			}
		}
	}
}

// render prints the rule in iptables-save order: -s -d -i -o -p, matches in the order given, -j target.
func (r *Rule) render() string {
	var sb strings.Builder
	addr := func(flag string, a *Addr) {
		if a == nil || (a.Bits == 0 && !a.Neg) {
			return
		}
		if a.Neg {
			sb.WriteString(" !")
		}
		sb.WriteString(" " + flag + " " + a.String())
	}
	sval := func(flag string, v *SVal) {
		if v == nil {
			return
		}
		if v.Neg {
			sb.WriteString(" !")
		}
		sb.WriteString(" " + flag + " " + v.V)
	}
	addr("-s", r.Src)
	addr("-d", r.Dst)
	sval("-i", r.In)
	sval("-o", r.Out)
	sval("-p", r.Proto)
	for _, m := range r.Matches {
		sb.WriteString(" -m " + m.Mod)
		renderOpts(&sb, m.Opts, m.Mod == "comment" || m.Mod == "limit")
	}
	if r.Target != "" {
		if r.Goto {
			sb.WriteString(" -g " + r.Target)
		} else {
			sb.WriteString(" -j " + r.Target)
		}
		renderOpts(&sb, r.TOpts, r.Target == "LOG")
	}
	return strings.TrimPrefix(sb.String(), " ")
}

// splitLine tokenises one iptables-restore line the way add_param_to_argv does: blanks separate parameters,
// double quotes group, a backslash inside quotes escapes the next character.
func splitLine(line string) ([]string, error) {
	var out []string
	var cur strings.Builder
	inTok, quote, esc := false, false, false
	for i := 0; i < len(line); i++ {
		c := line[i]
		if quote {
			switch {
			case esc:
				cur.WriteByte(c)
				esc = false
			case c == '\\':
				esc = true
			case c == '"':
				quote = false
			default:
				cur.WriteByte(c)
			}
			continue
		}
		switch c {
		case '"':
			quote = true
			inTok = true
		case ' ', '\t', '\n', '\r':
			if inTok {
				out = append(out, cur.String())
				cur.Reset()
				inTok = false
			}
		default:
			cur.WriteByte(c)
			inTok = true
		}
	}
	if quote {
		return nil, &syntaxErr{"missing closing quote"}
	}
	if inTok {
		out = append(out, cur.String())
	}
	return out, nil
}

// ParseSpec parses canonical rule text (as produced by Spec or found in a save file).
func ParseSpec(spec string) (*Rule, error) {
	toks, err := splitLine(spec)
	if err != nil {
		return nil, err
	}
	return parseRule(toks)
}
