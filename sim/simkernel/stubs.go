package simkernel

// Task-side stubs: utiliptables.Interface and ipset.Interface implemented by "executing" the tools inside the
// simulated kernel. Each tool invocation is one core.Call (a scheduling point, like a fork/exec), carrying
// the argument vector and standard input as text. The command lines, the locking and the interpretation of
// exit statuses mirror the exec-backed runners in pkg/utils/iptables/iptables.go (iptables >= 1.4.22: -C is
// available) and pkg/utils/ipset/ipset.go line by line; they are not invented here. What the runners do
// before exec'ing (argument validation, default filling) is repeated so that callers see the same errors.

import (
	"bytes"
	"fmt"
	"regexp"
	"strconv"
	"strings"

	"tkestack.io/galaxy/pkg/utils/ipset"
	utiliptables "tkestack.io/galaxy/pkg/utils/iptables"
	"tkestack.io/galaxy/verifsim/core"
	"tkestack.io/galaxy/verifsim/dropin/simsync"
)

// exitError stands in for utilexec.ExitError: the runners format it with %v.
type exitError struct{ code int }

func (e exitError) Error() string { return "exit status " + strconv.Itoa(e.code) }

// Run "executes" a tool in the simulated kernel.
func Run(tool string, stdin []byte, args ...string) ([]byte, error) {
	r := core.Call(core.Req{Op: "exec", A: append([]string{tool}, args...), B: stdin})
	if r.Code == core.CodeDead {
		return nil, fmt.Errorf("fork/exec %s: process killed", tool)
	}
	if r.Code != 0 {
		return r.B, exitError{r.Code}
	}
	return r.B, nil
}

// IPTables implements utiliptables.Interface.
type IPTables struct {
	mu simsync.Mutex // the runner serialises its commands with a mutex (check-then-append is atomic per process)
}

// NewIPTables returns the iptables stub.
func NewIPTables() *IPTables { return &IPTables{} }

var _ utiliptables.Interface = &IPTables{}

func fullArgs(table utiliptables.Table, chain utiliptables.Chain, args ...string) []string {
	return append([]string{string(chain), "-t", string(table)}, args...)
}

func (i *IPTables) run(op string, args []string) ([]byte, error) {
	return Run("iptables", nil, append([]string{op}, args...)...)
}

// GetVersion is part of Interface.
func (i *IPTables) GetVersion() (string, error) {
	out, err := Run("iptables", nil, "--version")
	if err != nil {
		return "", err
	}
	m := regexp.MustCompile(`v([0-9]+(\.[0-9]+)+)`).FindStringSubmatch(string(out))
	if m == nil {
		return "", fmt.Errorf("no iptables version found in string: %s", out)
	}
	return m[1], nil
}

// EnsureChain is part of Interface.
func (i *IPTables) EnsureChain(table utiliptables.Table, chain utiliptables.Chain) (bool, error) {
	i.mu.Lock()
	defer i.mu.Unlock()
	out, err := i.run("-N", fullArgs(table, chain))
	if err != nil {
		if ee, ok := err.(exitError); ok && ee.code == 1 {
			return true, nil
		}
		return false, fmt.Errorf("error creating chain %q: %v: %s", chain, err, out)
	}
	return false, nil
}

// FlushChain is part of Interface.
func (i *IPTables) FlushChain(table utiliptables.Table, chain utiliptables.Chain) error {
	i.mu.Lock()
	defer i.mu.Unlock()
	out, err := i.run("-F", fullArgs(table, chain))
	if err != nil {
		return fmt.Errorf("error flushing chain %q: %v: %s", chain, err, out)
	}
	return nil
}

// DeleteChain is part of Interface.
func (i *IPTables) DeleteChain(table utiliptables.Table, chain utiliptables.Chain) error {
	i.mu.Lock()
	defer i.mu.Unlock()
	out, err := i.run("-X", fullArgs(table, chain))
	if err != nil {
		return fmt.Errorf("error deleting chain %q: %v: %s", chain, err, out)
	}
	return nil
}

func (i *IPTables) checkRule(args []string) (bool, error) {
	out, err := i.run("-C", args)
	if err == nil {
		return true, nil
	}
	if ee, ok := err.(exitError); ok && ee.code == 1 {
		return false, nil
	}
	return false, fmt.Errorf("error checking rule: %v: %s", err, out)
}

// EnsureRule is part of Interface.
func (i *IPTables) EnsureRule(position utiliptables.RulePosition, table utiliptables.Table, chain utiliptables.Chain, args ...string) (bool, error) {
	full := fullArgs(table, chain, args...)
	i.mu.Lock()
	defer i.mu.Unlock()
	exists, err := i.checkRule(full)
	if err != nil {
		return false, err
	}
	if exists {
		return true, nil
	}
	out, err := i.run(string(position), full)
	if err != nil {
		return false, fmt.Errorf("error appending rule: %v: %s", err, out)
	}
	return false, nil
}

// DeleteRule is part of Interface.
func (i *IPTables) DeleteRule(table utiliptables.Table, chain utiliptables.Chain, args ...string) error {
	full := fullArgs(table, chain, args...)
	i.mu.Lock()
	defer i.mu.Unlock()
	exists, err := i.checkRule(full)
	if err != nil {
		return err
	}
	if !exists {
		return nil
	}
	out, err := i.run("-D", full)
	if err != nil {
		return fmt.Errorf("error deleting rule: %v: %s", err, out)
	}
	return nil
}

// ListRule is part of Interface.
func (i *IPTables) ListRule(table utiliptables.Table, chain utiliptables.Chain, args ...string) ([]string, error) {
	i.mu.Lock()
	defer i.mu.Unlock()
	out, err := i.run("-S", fullArgs(table, chain, args...))
	if err != nil {
		return nil, fmt.Errorf("error listing rule: %v: %s", err, out)
	}
	return strings.Split(string(out), "\n"), nil
}

// IsIpv6 is part of Interface.
func (i *IPTables) IsIpv6() bool { return false }

// SaveInto is part of Interface.
func (i *IPTables) SaveInto(table utiliptables.Table, buffer *bytes.Buffer) error {
	i.mu.Lock()
	defer i.mu.Unlock()
	out, err := Run("iptables-save", nil, "-t", string(table))
	buffer.Write(out)
	return err
}

// EnsurePolicy is part of Interface.
func (i *IPTables) EnsurePolicy(table utiliptables.Table, chain utiliptables.Chain, policy string) error {
	out, err := Run("iptables", nil, "-t", string(table), "-P", string(chain), policy)
	if err != nil {
		return fmt.Errorf("%v (%s)", err, out)
	}
	return nil
}

func (i *IPTables) restore(args []string, data []byte, flush utiliptables.FlushFlag, counters utiliptables.RestoreCountersFlag) error {
	i.mu.Lock()
	defer i.mu.Unlock()
	if !flush {
		args = append(args, "--noflush")
	}
	if counters {
		args = append(args, "--counters")
	}
	// iptables-restore >= 1.6.2 supports --wait, so the runner does not take the xtables lock file itself
	full := append([]string{"-w", "5"}, args...)
	out, err := Run("iptables-restore", data, full...)
	if err != nil {
		return fmt.Errorf("%v (%s)", err, out)
	}
	return nil
}

// Restore is part of Interface.
func (i *IPTables) Restore(table utiliptables.Table, data []byte, flush utiliptables.FlushFlag, counters utiliptables.RestoreCountersFlag) error {
	return i.restore([]string{"-T", string(table)}, data, flush, counters)
}

// RestoreAll is part of Interface.
func (i *IPTables) RestoreAll(data []byte, flush utiliptables.FlushFlag, counters utiliptables.RestoreCountersFlag) error {
	return i.restore(nil, data, flush, counters)
}

// IPSet implements ipset.Interface.
type IPSet struct{}

// NewIPSet returns the ipset stub.
func NewIPSet() *IPSet { return &IPSet{} }

var _ ipset.Interface = &IPSet{}

func ipsetRun(args ...string) ([]byte, error) { return Run("ipset", nil, args...) }

// CreateSet is part of Interface (defaults and validation as in the runner).
func (s *IPSet) CreateSet(set *ipset.IPSet, ignoreExistErr bool) error {
	if set.HashSize == 0 {
		set.HashSize = 1024
	}
	if set.MaxElem == 0 {
		set.MaxElem = 65536
	}
	if set.HashFamily == "" {
		set.HashFamily = ipset.ProtocolFamilyIPV4
	}
	if len(set.SetType) == 0 {
		set.SetType = ipset.HashIPPort
	}
	if len(set.PortRange) == 0 {
		set.PortRange = ipset.DefaultPortRange
	}
	if !set.Validate() {
		return fmt.Errorf("error creating ipset since it's invalid")
	}
	args := []string{"create", set.Name, string(set.SetType)}
	if set.SetType == ipset.HashIPPortIP || set.SetType == ipset.HashIPPort {
		args = append(args, "family", set.HashFamily, "hashsize", strconv.Itoa(set.HashSize), "maxelem", strconv.Itoa(set.MaxElem))
	}
	if set.SetType == ipset.BitmapPort {
		args = append(args, "range", set.PortRange)
	}
	if ignoreExistErr {
		args = append(args, "-exist")
	}
	if _, err := ipsetRun(args...); err != nil {
		return fmt.Errorf("error creating ipset %s, error: %v", set.Name, err)
	}
	return nil
}

// AddEntry is part of Interface.
func (s *IPSet) AddEntry(entry string, set *ipset.IPSet, ignoreExistErr bool) error {
	args := []string{"add", set.Name, entry}
	if ignoreExistErr {
		args = append(args, "-exist")
	}
	if _, err := ipsetRun(args...); err != nil {
		return fmt.Errorf("error adding entry %s, error: %v", entry, err)
	}
	return nil
}

// AddEntryWithOptions is part of Interface.
func (s *IPSet) AddEntryWithOptions(entry *ipset.Entry, set *ipset.IPSet, ignoreExistErr bool) error {
	args := []string{"add"}
	if ignoreExistErr {
		args = append(args, "-exist")
	}
	args = append(args, set.Name, entry.String())
	args = append(args, entry.Options...)
	if _, err := ipsetRun(args...); err != nil {
		return fmt.Errorf("error adding entry %s, error: %v", entry, err)
	}
	return nil
}

// DelEntry is part of Interface.
func (s *IPSet) DelEntry(entry string, set string) error {
	if _, err := ipsetRun("del", set, entry); err != nil {
		return fmt.Errorf("error deleting entry %s: from set: %s, error: %v", entry, set, err)
	}
	return nil
}

// DelEntryWithOptions is part of Interface (the runner drops the options: ipset del takes none).
func (s *IPSet) DelEntryWithOptions(set, entry string, options ...string) error {
	if _, err := ipsetRun("del", set, entry); err != nil {
		return fmt.Errorf("error deleting entry %s: from set: %s, error: %v", entry, set, err)
	}
	return nil
}

// TestEntry is part of Interface.
func (s *IPSet) TestEntry(entry string, set string) (bool, error) {
	out, err := ipsetRun("test", set, entry)
	if err == nil {
		return !strings.Contains(string(out), "NOT"), nil
	}
	return false, fmt.Errorf("error testing entry %s: %v (%s)", entry, err, out)
}

// FlushSet is part of Interface.
func (s *IPSet) FlushSet(set string) error {
	if _, err := ipsetRun("flush", set); err != nil {
		return fmt.Errorf("error flushing set: %s, error: %v", set, err)
	}
	return nil
}

// DestroySet is part of Interface.
func (s *IPSet) DestroySet(set string) error {
	if out, err := ipsetRun("destroy", set); err != nil {
		return fmt.Errorf("error destroying set %s, error: %v(%s)", set, err, out)
	}
	return nil
}

// DestroyAllSets is part of Interface.
func (s *IPSet) DestroyAllSets() error {
	if _, err := ipsetRun("destroy"); err != nil {
		return fmt.Errorf("error destroying all sets, error: %v", err)
	}
	return nil
}

// ListSets is part of Interface.
func (s *IPSet) ListSets() ([]string, error) {
	out, err := ipsetRun("list", "-n")
	if err != nil {
		return nil, fmt.Errorf("error listing all sets, error: %v", err)
	}
	return strings.Split(string(out), "\n"), nil
}

// ListEntries is part of Interface.
func (s *IPSet) ListEntries(set string) ([]string, error) {
	if len(set) == 0 {
		return nil, fmt.Errorf("set name can't be nil")
	}
	out, err := ipsetRun("list", set)
	if err != nil {
		return nil, fmt.Errorf("error listing set: %s, error: %v", set, err)
	}
	// compiled per call, as the runner does (a shared *regexp.Regexp would synchronise callers through its pool)
	list := regexp.MustCompile(ipset.EntryMemberPattern).ReplaceAllString(string(out), "")
	results := make([]string, 0)
	for _, l := range strings.Split(list, "\n") {
		if len(l) > 0 {
			results = append(results, l)
		}
	}
	return results, nil
}

// GetVersion is part of Interface.
func (s *IPSet) GetVersion() (string, error) {
	out, err := ipsetRun("--version")
	if err != nil {
		return "", err
	}
	m := regexp.MustCompile(ipset.VersionPattern).FindStringSubmatch(string(out))
	if m == nil {
		return "", fmt.Errorf("no ipset version found in string: %s", out)
	}
	return m[0], nil
}

// SaveAllSets is part of Interface (the runner runs `ipset list`).
func (s *IPSet) SaveAllSets() ([]byte, error) {
	out, err := ipsetRun("list")
	if err != nil {
		return nil, fmt.Errorf("error saving all sets, error: %v", err)
	}
	return out, nil
}
