package simkernel

// ipset: sets of type hash:ip and hash:net are modelled completely (members are parsed, nomatch is honoured);
// the other types galaxy's ipset package knows are accepted and keep their members as opaque strings.

import (
	"fmt"
	"sort"
	"strings"
)

// Elem is a member of a hash:ip / hash:net set.
type Elem struct {
	IP      uint32
	Bits    int
	NoMatch bool
	Raw     string // opaque types only
}

// Set is an ipset.
type Set struct {
	Name     string
	Type     string
	Family   string
	HashSize int
	MaxElem  int
	Range    string
	Elems    map[string]*Elem // key: canonical member text without options
}

var knownSetTypes = map[string]bool{"hash:ip": true, "hash:net": true, "hash:ip,port": true, "hash:ip,port,ip": true,
	"hash:ip,port,net": true, "hash:net,port": true, "bitmap:port": true}

func (s *Set) modelled() bool { return s.Type == "hash:ip" || s.Type == "hash:net" }

// memberKey is how `ipset list` prints a member (hash:net omits /32, as the real tool does).
func memberKey(ip uint32, bits int) string {
	if bits == 32 {
		return U32ToIP(ip)
	}
	return fmt.Sprintf("%s/%d", U32ToIP(ip), bits)
}

// Members returns the member lines as `ipset list` prints them, sorted.
func (s *Set) Members() []string {
	out := make([]string, 0, len(s.Elems))
	for k, e := range s.Elems {
		if e.NoMatch {
			k += " nomatch"
		}
		out = append(out, k)
	}
	sort.Strings(out)
	return out
}

// Test is the kernel-side lookup used by the set match: hash:ip is membership; hash:net walks the prefix
// lengths present in the set from the most specific to the least and stops at the first member that covers
// the address - a nomatch member makes the lookup fail there.
func (s *Set) Test(ip uint32) bool {
	switch s.Type {
	case "hash:ip":
		_, ok := s.Elems[U32ToIP(ip)]
		return ok
	case "hash:net":
		for bits := 32; bits >= 1; bits-- {
			if e, ok := s.Elems[memberKey(ip&maskOf(bits), bits)]; ok {
				return !e.NoMatch
			}
		}
	}
	return false
}

func (k *Kernel) header(s *Set) string {
	switch {
	case strings.HasPrefix(s.Type, "hash:"):
		return fmt.Sprintf("family %s hashsize %d maxelem %d", s.Family, s.HashSize, s.MaxElem)
	case s.Type == "bitmap:port":
		return "range " + s.Range
	}
	return ""
}

func (k *Kernel) listSet(sb *strings.Builder, s *Set) {
	fmt.Fprintf(sb, "Name: %s\nType: %s\nRevision: 4\nHeader: %s\nSize in memory: %d\nReferences: %d\nMembers:\n",
		s.Name, s.Type, k.header(s), 120+48*len(s.Elems), k.setRefCount(s.Name))
	for _, m := range s.Members() {
		sb.WriteString(m + "\n")
	}
}

// SetNames returns the set names sorted.
func (k *Kernel) SetNames() []string {
	out := make([]string, 0, len(k.Sets))
	for n := range k.Sets {
		out = append(out, n)
	}
	sort.Strings(out)
	return out
}

// SaveSets renders `ipset save`.
func (k *Kernel) SaveSets() string {
	var sb strings.Builder
	for _, n := range k.SetNames() {
		k.saveSet(&sb, k.Sets[n])
	}
	return sb.String()
}

func (k *Kernel) saveSet(sb *strings.Builder, s *Set) {
	fmt.Fprintf(sb, "create %s %s %s\n", s.Name, s.Type, k.header(s))
	for _, m := range s.Members() {
		fmt.Fprintf(sb, "add %s %s\n", s.Name, m)
	}
}

func ipsetFail(ev *Event, rej Reject, subject, msg string) {
	ev.Exit, ev.Reject, ev.Subject = 1, rej, subject
	ev.Out = "ipset v6.29: " + msg + "\n"
}

// parseElem parses a member of a modelled set type.
func parseElem(s *Set, text string) (ip uint32, bits int, ok bool) {
	ip, bits, ok = ParsePrefix(text)
	if !ok {
		return 0, 0, false
	}
	if s.Type == "hash:net" && bits == 0 {
		return 0, 0, false // a zero prefix cannot be stored in hash:net
	}
	return ip, bits, true
}

func (k *Kernel) execIPSet(args []string, ev *Event) {
	exist := false
	namesOnly := false
	var a []string
	for _, x := range args {
		switch x {
		case "-exist", "-!", "--exist":
			exist = true
		case "-n", "-name", "--name":
			namesOnly = true
		case "-o", "-output", "plain", "-q", "-quiet", "-s", "-sorted":
		default:
			a = append(a, x)
		}
	}
	if len(a) == 0 {
		ev.Exit, ev.Reject, ev.Out = 2, RejSyntax, "ipset v6.29: No command specified.\n"
		return
	}
	mut := func() { ev.Mutator = true }
	switch a[0] {
	case "--version", "version", "-v", "-V", "-version":
		ev.Out = "ipset v6.29, protocol version: 6\n"
	case "create", "n", "-N", "--create":
		mut()
		if len(a) < 3 {
			ev.Exit, ev.Reject, ev.Out = 2, RejSyntax, "ipset v6.29: Missing mandatory argument to command create\n"
			return
		}
		s := &Set{Name: a[1], Type: a[2], Family: "inet", HashSize: 1024, MaxElem: 65536, Range: "", Elems: map[string]*Elem{}}
		if !knownSetTypes[s.Type] {
			ev.Exit, ev.Reject = 2, RejSyntax
			ev.Out = fmt.Sprintf("ipset v6.29: Syntax error: unknown settype %s\n", s.Type)
			return
		}
		if len(s.Name) > 31 {
			ev.Exit, ev.Reject = 2, RejSyntax
			ev.Out = "ipset v6.29: Syntax error: setname '" + s.Name + "' is longer than 31 characters\n"
			return
		}
		for i := 3; i < len(a); i++ {
			switch a[i] {
			case "family", "hashsize", "maxelem", "range", "timeout", "netmask":
				if i+1 >= len(a) {
					ev.Exit, ev.Reject, ev.Out = 2, RejSyntax, "ipset v6.29: Missing argument to option "+a[i]+"\n"
					return
				}
				v := a[i+1]
				switch a[i] {
				case "family":
					s.Family = v
				case "hashsize":
					fmt.Sscanf(v, "%d", &s.HashSize)
				case "maxelem":
					fmt.Sscanf(v, "%d", &s.MaxElem)
				case "range":
					s.Range = v
				}
				i++
			case "counters", "comment", "forceadd", "skbinfo":
			default:
				ev.Exit, ev.Reject, ev.Out = 2, RejSyntax, "ipset v6.29: Unknown argument: `"+a[i]+"'\n"
				return
			}
		}
		if old := k.Sets[s.Name]; old != nil {
			same := old.Type == s.Type && old.Family == s.Family && old.HashSize == s.HashSize && old.MaxElem == s.MaxElem && old.Range == s.Range
			if exist && same {
				return
			}
			ipsetFail(ev, RejSetExists, s.Name, "Set cannot be created: set with the same name already exists")
			return
		}
		k.Sets[s.Name] = s
		ev.Changed = true
	case "add", "del", "test", "-A", "-D", "-T":
		op := strings.TrimLeft(a[0], "-")
		switch op {
		case "A":
			op = "add"
		case "D":
			op = "del"
		case "T":
			op = "test"
		}
		if op != "test" {
			mut()
		}
		if len(a) < 3 {
			ev.Exit, ev.Reject, ev.Out = 2, RejSyntax, "ipset v6.29: Missing mandatory argument to command "+op+"\n"
			return
		}
		s := k.Sets[a[1]]
		if s == nil {
			ipsetFail(ev, RejSetMissing, a[1], "The set with the given name does not exist")
			return
		}
		nomatch := false
		for _, o := range a[3:] {
			switch o {
			case "nomatch":
				nomatch = true
			default:
				// timeout/packets/bytes/comment values are accepted and ignored
			}
		}
		if nomatch && s.Type != "hash:net" && !strings.HasPrefix(s.Type, "hash:net") && s.Type != "hash:ip,port,net" {
			ev.Exit, ev.Reject, ev.Out = 2, RejSyntax, "ipset v6.29: Unknown argument: `nomatch'\n"
			return
		}
		key := a[2]
		e := &Elem{Raw: a[2], NoMatch: nomatch}
		if s.modelled() {
			ip, bits, ok := parseElem(s, a[2])
			if !ok {
				if _, b, ok2 := ParsePrefix(a[2]); ok2 && b == 0 {
					ipsetFail(ev, RejBadElem, s.Name, "The value of the CIDR parameter of the IP address is invalid")
					return
				}
				ipsetFail(ev, RejBadElem, s.Name, fmt.Sprintf("Syntax error: cannot parse %s: resolving to IPv4 address failed", a[2]))
				return
			}
			if s.Type == "hash:ip" && bits != 32 {
				// a CIDR given to hash:ip is expanded into its addresses
				if bits < 16 {
					ev.Exit, ev.Reject, ev.Out = 1, RejSyntax, "ipset v6.29: Hash is full, cannot add more elements\n"
					return
				}
				n := uint32(1) << (32 - uint(bits))
				switch op {
				case "add":
					for i := uint32(0); i < n; i++ {
						s.Elems[U32ToIP(ip+i)] = &Elem{IP: ip + i, Bits: 32}
					}
					ev.Changed = true
				case "del":
					for i := uint32(0); i < n; i++ {
						delete(s.Elems, U32ToIP(ip+i))
					}
					ev.Changed = true
				}
				return
			}
			key = memberKey(ip, bits)
			e = &Elem{IP: ip, Bits: bits, NoMatch: nomatch}
		}
		old := s.Elems[key]
		switch op {
		case "add":
			if old != nil && !exist {
				ipsetFail(ev, RejElemExists, s.Name, "Element cannot be added to the set: it's already added")
				return
			}
			if old == nil && len(s.Elems) >= s.MaxElem {
				ipsetFail(ev, RejSyntax, s.Name, "Hash is full, cannot add more elements")
				return
			}
			ev.Changed = old == nil || old.NoMatch != e.NoMatch
			s.Elems[key] = e
		case "del":
			if old == nil {
				if exist {
					return
				}
				ipsetFail(ev, RejElemMissing, s.Name, "Element cannot be deleted from the set: it's not added")
				return
			}
			delete(s.Elems, key)
			ev.Changed = true
		case "test":
			in := old != nil
			if s.modelled() {
				in = s.Test(e.IP) && e.Bits == 32 || (e.Bits != 32 && old != nil && !old.NoMatch)
			}
			if in {
				ev.Out = fmt.Sprintf("%s is in set %s.\n", a[2], s.Name)
			} else {
				ev.Exit = 1
				ev.Out = fmt.Sprintf("%s is NOT in set %s.\n", a[2], s.Name)
			}
		}
	case "destroy", "x", "-X", "--destroy":
		mut()
		names := a[1:]
		if len(names) == 0 {
			names = k.SetNames()
			for _, n := range names {
				if k.setRefCount(n) > 0 {
					ipsetFail(ev, RejSetInUse, n, "Set cannot be destroyed: it is in use by a kernel component")
					return
				}
			}
		}
		for _, n := range names {
			if k.Sets[n] == nil {
				ipsetFail(ev, RejSetMissing, n, "The set with the given name does not exist")
				return
			}
			if k.setRefCount(n) > 0 {
				ipsetFail(ev, RejSetInUse, n, "Set cannot be destroyed: it is in use by a kernel component")
				return
			}
			delete(k.Sets, n)
			ev.Changed = true
		}
	case "flush", "-F", "--flush":
		mut()
		names := a[1:]
		if len(names) == 0 {
			names = k.SetNames()
		}
		for _, n := range names {
			if k.Sets[n] == nil {
				ipsetFail(ev, RejSetMissing, n, "The set with the given name does not exist")
				return
			}
			if len(k.Sets[n].Elems) > 0 {
				ev.Changed = true
			}
			k.Sets[n].Elems = map[string]*Elem{}
		}
	case "list", "-L", "--list", "save", "-S", "--save":
		save := a[0] == "save" || a[0] == "-S" || a[0] == "--save"
		names := a[1:]
		if len(names) == 0 {
			names = k.SetNames()
		}
		var sb strings.Builder
		for i, n := range names {
			s := k.Sets[n]
			if s == nil {
				ipsetFail(ev, RejSetMissing, n, "The set with the given name does not exist")
				return
			}
			switch {
			case namesOnly:
				sb.WriteString(n + "\n")
			case save:
				k.saveSet(&sb, s)
			default:
				if i > 0 {
					sb.WriteString("\n")
				}
				k.listSet(&sb, s)
			}
		}
		ev.Out = sb.String()
	default:
		ev.Exit, ev.Reject, ev.Out = 2, RejSyntax, "ipset v6.29: Unknown command: `"+a[0]+"'\n"
	}
}
