// Package core is the deterministic scheduler of the galaxy simulator.
//
// A task is a real goroutine that runs real galaxy code. Exactly one task runs at a time; a task runs until
// its next scheduling point, where it parks and hands control to the scheduler goroutine, which decides
// (through the choice stream) who runs next. The hand-off is invisible to the race detector (see
// handoff_race.go) and every piece of data that crosses between a task and the scheduler is copied by
// //go:norace code, so a -race build sees only galaxy's own synchronisation.
package core

import (
	"fmt"
	"os"
	"runtime"
	"runtime/debug"
	"sort"
	"strconv"
	"strings"
	"sync/atomic"
	"time"
	"unsafe"
)

// Kind is what a parked task is waiting for.
type Kind int32

const (
	KYield    Kind = iota // runnable
	KLock                 // waiting for a simsync lock
	KSleep                // waiting for simulated time
	KChanWait             // polling select: runnable once somebody else made progress
	KCall                 // environment call pending (a scheduling point)
	KCallNow              // environment call serviced at once, without a scheduling decision
	KSpawn                // parent announces a child task
	KDone                 // task ended
)

func (k Kind) String() string {
	return [...]string{"yield", "lock", "sleep", "chanwait", "call", "callnow", "spawn", "done"}[k]
}

// LockWord is the scheduler-visible state of a simsync lock. It lives inside the lock itself and is only
// touched by //go:norace code (task side) and by the scheduler.
type LockWord struct {
	Seq     int32 // stable id, assigned at first acquisition (deterministic order)
	Writer  int32 // task id + 1 of the holder of the write lock, 0 if none
	Readers int32
}

// Task is one simulated thread of control.
type Task struct {
	ID   int
	Name string
	Proc int // process incarnation the task belongs to (0 = outside galaxy)
	sim  *Sim

	resume chan struct{}

	// slot: written by the task before parking, read by the scheduler (norace on both sides)
	kind      Kind
	lock      *LockWord
	lockWrite bool
	wake      int64
	periodic  bool
	req       []byte
	child     *Task
	panicMsg  string
	held      int32 // number of simsync locks currently held
	heldNames [8]int32

	// written by the scheduler, read by the task (norace)
	resp []byte
	dead bool

	// scheduler-private
	parked    bool
	done      bool
	waitMark  uint64
	lastKind  Kind
	fruitless bool
	started   bool
	Tag       string      // free for the world
	Data      interface{} // free for the world (scheduler goroutine only)
	Data0     []byte      // pending request bytes (scheduler-owned copy)
	Born      int         // scheduler step at which the task was registered
	children  int
}

// Req is an environment request. It is encoded to bytes on the task side.
type Req struct {
	Op string
	A  []string
	B  []byte
}

// Resp is an environment response.
type Resp struct {
	Code int // 0 = ok
	Msg  string
	A    []string
	B    []byte
}

// Response codes shared by all environments.
const (
	CodeOK   = 0
	CodeDead = -1 // the calling process has been killed
)

// World is implemented by each simulated world. All methods run on the scheduler goroutine.
type World interface {
	// Handle applies an environment call.
	Handle(t *Task, r *Req) Resp
	// Actions returns the world-level actions that are enabled now.
	Actions() []Action
	// Idle is called when no task and no action is enabled. It returns false to end the run.
	Idle() bool
	// AfterStep is called after every scheduling step (step invariants).
	AfterStep()
}

// Action is something the world can do instead of running a task.
type Action struct {
	Name string
	Do   func()
}

// Violation is an oracle failure.
type Violation struct {
	Oracle  string `json:"oracle"`
	Message string `json:"message"`
	Step    int    `json:"step"`
}

func (v *Violation) Error() string {
	return fmt.Sprintf("%s: %s (step %d)", v.Oracle, v.Message, v.Step)
}

// Sim is one simulated run.
type Sim struct {
	C          *Choices
	W          World
	tasks      []*Task
	schedCh    chan *Task
	nextID     int
	lockSeq    int32
	Steps      int
	MaxSteps   int
	progress   uint64
	hash       uint64
	Trace      []string
	TraceOn    bool
	Viol       *Violation
	Stats      map[string]int
	SigParts   []string // schedule signature parts (contested decisions, faults)
	Contested  int
	initToks   []*byte
	lastRun    *Task
	stopped    bool
	Hang       bool
	OutOfSteps bool
	// Infra is set when something happened that is neither a pass nor a verdict (harness trouble).
	Infra      string
	OnPanic    func(t *Task, msg string)
	OnLockLeak func(t *Task, held int)
	// Hide, when set, lets the world stall tasks: a hidden task is not offered to the scheduler.
	Hide func(t *Task) bool
}

var (
	cur       *Task // the running task (nil while the scheduler runs)
	clock     int64 // simulated nanoseconds since the epoch below
	heartbeat uint64
	curSim    *Sim
)

// Epoch is the simulated wall-clock origin.
var Epoch = time.Date(2026, 1, 1, 0, 0, 0, 0, time.UTC)

// NewSim creates a run.
// OnNewSim registers a function that runs whenever a new simulation starts (per-run caches of helper packages).
func OnNewSim(f func()) { newSimHooks = append(newSimHooks, f) }

var newSimHooks []func()

func NewSim(c *Choices) *Sim {
	s := &Sim{C: c, schedCh: make(chan *Task), MaxSteps: 20000, Stats: map[string]int{}}
	setClock(0)
	curSim = s
	for _, f := range newSimHooks {
		f()
	}
	return s
}

//go:norace
func setClock(v int64) { clock = v }

//go:norace
func getCur() *Task { return cur }

//go:norace
func setCur(t *Task) { cur = t }

// NowNanos returns the simulated clock; every reading advances it by one microsecond so that two readings
// never tie (as with a real nanosecond clock).
//
//go:norace
func NowNanos() int64 {
	clock += 1000
	return clock
}

// ClockNanos reads the clock without advancing it.
//
//go:norace
func ClockNanos() int64 { return clock }

// Now is the simulated wall clock.
func Now() time.Time { return Epoch.Add(time.Duration(NowNanos())) }

// ---------------------------------------------------------------------------------------------------------
// task side

//go:norace
func isDead(t *Task) bool { return t.dead }

//go:norace
func submit(t *Task, k Kind, req []byte) {
	t.kind = k
	t.req = req
}

//go:norace
func submitLock(t *Task, l *LockWord, write bool) {
	t.kind = KLock
	t.lock = l
	t.lockWrite = write
}

//go:norace
func submitSleep(t *Task, wake int64, periodic bool) {
	t.kind = KSleep
	t.wake = wake
	t.periodic = periodic
}

//go:norace
func submitSpawn(t *Task, c *Task) {
	t.kind = KSpawn
	t.child = c
}

//go:norace
func fetchResp(t *Task) []byte {
	src := t.resp
	t.resp = nil
	dst := make([]byte, len(src))
	for i := range src {
		dst[i] = src[i]
	}
	return dst
}

func park(t *Task) {
	handoffPark(t.sim.schedCh, t)
	if isDead(t) {
		runtime.Goexit()
	}
}

// InTask reports whether the caller runs inside a simulated task.
func InTask() bool { return getCur() != nil }

// Dead reports whether the calling task belongs to a killed process.
func Dead() bool {
	t := getCur()
	return t != nil && isDead(t)
}

func mustCur() *Task {
	t := getCur()
	if t == nil {
		panic("verifsim: simulator primitive used outside a simulated task")
	}
	return t
}

// Yield is a plain scheduling point.
func Yield() {
	t := mustCur()
	if isDead(t) {
		return
	}
	submit(t, KYield, nil)
	park(t)
}

// Call performs an environment call; it is a scheduling point.
func Call(r Req) Resp { return call(r, KCall) }

// CallNow performs an environment call that is serviced immediately (no scheduling decision).
func CallNow(r Req) Resp { return call(r, KCallNow) }

func call(r Req, k Kind) Resp {
	t := mustCur()
	if isDead(t) {
		return Resp{Code: CodeDead, Msg: "connection refused (process killed)"}
	}
	submit(t, k, EncodeReq(&r))
	park(t)
	return DecodeResp(fetchResp(t))
}

// Sleep parks the task until the simulated clock has advanced by d.
func Sleep(d time.Duration, periodic bool) {
	t := mustCur()
	if isDead(t) {
		return
	}
	if d < 0 {
		d = 0
	}
	submitSleep(t, ClockNanos()+int64(d), periodic)
	park(t)
}

// ChanWait parks a task that polls channels; it becomes runnable once another task has made progress.
func ChanWait() {
	t := mustCur()
	if isDead(t) {
		runtime.Goexit()
	}
	submit(t, KChanWait, nil)
	park(t)
}

// Acquire parks until the lock can be taken; on return the scheduler has granted it.
func Acquire(l *LockWord, write bool) bool {
	t := mustCur()
	if isDead(t) {
		return false
	}
	submitLock(t, l, write)
	park(t)
	noteHeld(t, l, 1)
	return true
}

//go:norace
func noteHeld(t *Task, l *LockWord, d int32) {
	t.held += d
}

// Release updates the lock word; it is not a scheduling point. It reports whether the real lock must be
// released too (false only for dead tasks that do not hold it).
//
//go:norace
func Release(l *LockWord, write bool) bool {
	t := cur
	if t == nil {
		panic("verifsim: unlock outside a simulated task")
	}
	if t.dead {
		if write {
			if l.Writer == int32(t.ID)+1 {
				l.Writer = 0
				return true
			}
			return false
		}
		if l.Readers > 0 {
			l.Readers--
			return true
		}
		return false
	}
	if write {
		if l.Writer == 0 {
			panic("verifsim: unlock of unlocked simsync mutex")
		}
		l.Writer = 0
	} else {
		if l.Readers <= 0 {
			panic("verifsim: RUnlock of unlocked simsync RWMutex")
		}
		l.Readers--
	}
	t.held--
	return true
}

// Go spawns a child task.
func Go(fn func()) {
	t := mustCur()
	if isDead(t) {
		return
	}
	c := newTask(t.sim, t.Proc)
	t.sim.startTask(c, fn)
	submitSpawn(t, c)
	park(t)
}

//go:norace
func setPanic(t *Task, msg string) { t.panicMsg = msg }

func (s *Sim) startTask(t *Task, fn func()) {
	go func() {
		handoffWait(t)
		if isDead(t) {
			finish(t)
			return
		}
		defer func() {
			if r := recover(); r != nil {
				setPanic(t, fmt.Sprintf("%v\n%s", r, trimStack(debug.Stack())))
			}
			finish(t)
		}()
		raceAcquireInit(t)
		fn()
	}()
}

func finish(t *Task) {
	submit(t, KDone, nil)
	handoffDone(t.sim.schedCh, t)
}

func trimStack(b []byte) string {
	lines := strings.Split(string(b), "\n")
	var out []string
	for _, l := range lines {
		if strings.Contains(l, "runtime/debug.Stack") || strings.Contains(l, "runtime/debug/stack.go") {
			continue
		}
		out = append(out, l)
		if len(out) > 40 {
			break
		}
	}
	return strings.Join(out, "\n")
}

// ---------------------------------------------------------------------------------------------------------
// scheduler side

//go:norace
func takeSlot(t *Task) (k Kind, req []byte, child *Task, pmsg string) {
	k = t.kind
	if t.req != nil {
		req = make([]byte, len(t.req))
		for i := range t.req {
			req[i] = t.req[i]
		}
		t.req = nil
	}
	child = t.child
	t.child = nil
	if t.panicMsg != "" {
		b := make([]byte, len(t.panicMsg))
		for i := 0; i < len(t.panicMsg); i++ {
			b[i] = t.panicMsg[i]
		}
		pmsg = string(b)
	}
	return
}

//go:norace
func putResp(t *Task, b []byte) { t.resp = b }

//go:norace
func markDead(t *Task) { t.dead = true }

//go:norace
func lockFree(t *Task) bool {
	l := t.lock
	if t.lockWrite {
		return l.Writer == 0 && l.Readers == 0
	}
	return l.Writer == 0
}

//go:norace
func (s *Sim) grant(t *Task) int32 {
	l := t.lock
	if l.Seq == 0 {
		s.lockSeq++
		l.Seq = s.lockSeq
	}
	if t.lockWrite {
		l.Writer = int32(t.ID) + 1
	} else {
		l.Readers++
	}
	return l.Seq
}

//go:norace
func slotWake(t *Task) (int64, bool) { return t.wake, t.periodic }

//go:norace
func heldCount(t *Task) int32 { return t.held }

// newTask allocates a task. The struct is later written by the scheduler (register) and read by the task
// itself; all of that happens in norace code so that the harness adds no race report of its own.
//
//go:norace
func newTask(s *Sim, proc int) *Task {
	t := new(Task)
	t.sim = s
	t.resume = make(chan struct{})
	t.Proc = proc
	return t
}

// Spawn creates a task from the scheduler goroutine (world operations).
func (s *Sim) Spawn(name string, proc int, fn func()) *Task {
	t := newTask(s, proc)
	s.register(t, name)
	s.startTask(t, fn)
	return t
}

//go:norace
func (s *Sim) register(t *Task, name string) {
	t.ID = s.nextID
	s.nextID++
	t.Born = s.Steps
	t.Name = name
	t.parked = true
	t.kind = KYield
	t.lastKind = KYield
	s.tasks = append(s.tasks, t)
}

// Sleeping reports whether the task is parked on the simulated clock (scheduler goroutine only).
func (t *Task) Sleeping() bool {
	if t.done || !t.parked || t.lastKind != KSleep {
		return false
	}
	w, _ := slotWake(t)
	return w > ClockNanos() // a sleeper whose time has come is runnable, not sleeping
}

// AtSleep reports whether the task is parked in a Sleep call, whether or not its time has come (scheduler goroutine only).
func (t *Task) AtSleep() bool { return !t.done && t.parked && t.lastKind == KSleep }

// Tasks returns the live tasks.
func (s *Sim) Tasks() []*Task {
	var out []*Task
	for _, t := range s.tasks {
		if !t.done {
			out = append(out, t)
		}
	}
	return out
}

func (s *Sim) enabled(t *Task) bool {
	if t.done || !t.parked {
		return false
	}
	if s.Hide != nil && s.Hide(t) {
		return false // stalled by the world (slow node, GC pause, slow API call)
	}
	switch t.lastKind {
	case KYield, KCall:
		return true
	case KLock:
		return lockFree(t)
	case KSleep:
		w, _ := slotWake(t)
		return ClockNanos() >= w
	case KChanWait:
		return s.progress > t.waitMark
	}
	return false
}

// Enabled returns the tasks that can run now, in id order.
func (s *Sim) Enabled() []*Task {
	var out []*Task
	for _, t := range s.tasks {
		if s.enabled(t) {
			out = append(out, t)
		}
	}
	return out
}

// NextTimer returns the earliest wake-up time among sleeping tasks. If includePeriodic is false, sleeps of
// periodic loops (wait.Until) are ignored.
func (s *Sim) NextTimer(includePeriodic bool) (int64, bool) {
	var best int64
	found := false
	for _, t := range s.tasks {
		if t.done || !t.parked || t.lastKind != KSleep {
			continue
		}
		w, p := slotWake(t)
		if p && !includePeriodic {
			continue
		}
		if w <= ClockNanos() {
			continue
		}
		if !found || w < best {
			best, found = w, true
		}
	}
	return best, found
}

// AdvanceTo moves the simulated clock forward.
func (s *Sim) AdvanceTo(ts int64) {
	if ts > ClockNanos() {
		setClock(ts)
	}
}

// Quiet reports whether every live task is idle: a polling-select waiter with nothing to do, or a sleeper.
func (s *Sim) Quiet(includePeriodicSleepers bool) bool {
	for _, t := range s.tasks {
		if t.done {
			continue
		}
		if s.enabled(t) {
			return false
		}
		if t.lastKind == KSleep {
			_, p := slotWake(t)
			if !p || !includePeriodicSleepers {
				if !p {
					return false
				}
			}
		}
	}
	return true
}

// Blocked returns tasks that are parked on a lock that is not free (for deadlock reports).
func (s *Sim) Blocked() []*Task {
	var out []*Task
	for _, t := range s.tasks {
		if !t.done && t.parked && t.lastKind == KLock && !lockFree(t) {
			out = append(out, t)
		}
	}
	return out
}

func (s *Sim) mix(vals ...uint64) {
	for _, v := range vals {
		s.hash ^= v
		s.hash *= 1099511628211
	}
}

func strHash(str string) uint64 {
	var h uint64 = 14695981039346656037
	for i := 0; i < len(str); i++ {
		h ^= uint64(str[i])
		h *= 1099511628211
	}
	return h
}

// Hash is a digest of everything that happened (for determinism tests).
func (s *Sim) Hash() uint64 { return s.hash }

// Logf appends to the trace (only when tracing is on). Never draws, never reads a real clock.
func (s *Sim) Logf(format string, a ...interface{}) {
	if s.TraceOn {
		s.Trace = append(s.Trace, fmt.Sprintf("%5d t=%s ", s.Steps, time.Duration(ClockNanos()))+fmt.Sprintf(format, a...))
	}
}

// Note mixes a string into the determinism hash and the trace.
func (s *Sim) Note(format string, a ...interface{}) {
	if s.TraceOn {
		msg := fmt.Sprintf(format, a...)
		s.mix(strHash(msg))
		s.Trace = append(s.Trace, fmt.Sprintf("%5d t=%s ", s.Steps, time.Duration(ClockNanos()))+msg)
	} else {
		s.mix(strHash(format))
	}
}

// Fail records the first violation.
func (s *Sim) Fail(oracle, format string, a ...interface{}) {
	if s.Viol == nil {
		s.Viol = &Violation{Oracle: oracle, Message: fmt.Sprintf(format, a...), Step: s.Steps}
		s.Logf("VIOLATION %s: %s", oracle, s.Viol.Message)
	}
}

// Stat counts an event.
func (s *Sim) Stat(name string) { s.Stats[name]++ }

// Sig appends a part to the schedule signature.
func (s *Sim) Sig(part string) { s.SigParts = append(s.SigParts, part) }

// RunTask performs t's pending operation and lets it run until it parks again.
func (s *Sim) RunTask(t *Task) {
	if !s.enabled(t) {
		panic("verifsim: RunTask on a task that is not enabled")
	}
	s.Steps++
	atomic.AddUint64(&heartbeat, 1)
	wasChanWait := t.lastKind == KChanWait
	switch t.lastKind {
	case KLock:
		seq := s.grant(t)
		s.mix(uint64(t.ID), 1, uint64(seq))
		if s.TraceOn {
			s.Logf("run  %-28s lock#%d %v", t.Name, seq, t.lockWrite)
		}
	case KCall:
		// response was prepared when the call was applied below
	default:
		s.mix(uint64(t.ID), uint64(t.lastKind))
		if s.TraceOn && t.lastKind != KChanWait {
			s.Logf("run  %-28s %s", t.Name, t.lastKind)
		}
	}
	if t.lastKind == KCall {
		s.applyCall(t)
		if t.done {
			// the call killed its own process (crash injected while it was being applied)
			s.progress++
			s.lastRun = nil
			if s.W != nil {
				s.W.AfterStep()
			}
			return
		}
	}
	s.resumeAndWait(t)
	// fruitless polling does not count as progress
	if wasChanWait && t.lastKind == KChanWait && !t.done {
		// no progress
	} else {
		s.progress++
	}
	if t.lastKind == KChanWait {
		t.waitMark = s.progress
	}
	s.lastRun = t
	if s.W != nil {
		s.W.AfterStep()
	}
}

func (s *Sim) applyCall(t *Task) {
	req := DecodeReq(t.pendingReq())
	s.mix(uint64(t.ID), 2, strHash(req.Op))
	resp := s.handle(t, req)
	s.mix(uint64(int64(resp.Code)), uint64(len(resp.B)))
	if s.TraceOn {
		s.Logf("call %-28s %s %v -> %d %s", t.Name, req.Op, req.A, resp.Code, resp.Msg)
	}
	putResp(t, EncodeResp(&resp))
}

func (t *Task) pendingReq() []byte { return t.Data0 }

// handle serves the simulator's own operations and passes everything else to the world.
func (s *Sim) handle(t *Task, r *Req) Resp {
	switch r.Op {
	case "sim.choose":
		n, _ := strconv.Atoi(r.A[0])
		return Resp{Msg: strconv.Itoa(s.C.Choose(n))}
	case "sim.log":
		if s.TraceOn && len(r.A) > 0 {
			s.Logf("log  %-28s %s", t.Name, r.A[0])
		}
		return Resp{}
	case "sim.note":
		if len(r.A) > 0 {
			s.mix(strHash(r.A[0]))
			if s.TraceOn {
				s.Logf("note %-28s %s", t.Name, r.A[0])
			}
		}
		return Resp{}
	}
	return s.W.Handle(t, r)
}

// resumeAndWait resumes t and processes parks until a task is parked at a real scheduling point.
func (s *Sim) resumeAndWait(t *Task) {
	for {
		t.parked = false
		setCur(t)
		p := handoffResume(s, t)
		setCur(nil)
		if p == nil {
			s.Hang = true
			s.stopped = true
			return
		}
		if p != t {
			panic(fmt.Sprintf("verifsim: task %s parked while %s was running", p.Name, t.Name))
		}
		k, req, child, pmsg := takeSlot(t)
		t.parked = true
		t.lastKind = k
		switch k {
		case KDone:
			t.done = true
			if pmsg != "" {
				s.onPanic(t, pmsg)
			}
			if h := heldCount(t); h != 0 && !isDead(t) && pmsg == "" {
				s.onLockLeak(t, h)
			}
			if s.TraceOn {
				s.Logf("done %-28s", t.Name)
			}
			return
		case KSpawn:
			s.register(child, fmt.Sprintf("%s/go%d", t.Name, child.seqUnder(t)))
			t.lastKind = KYield
			return
		case KCallNow:
			r := DecodeReq(req)
			s.mix(uint64(t.ID), 3, strHash(r.Op))
			resp := s.handle(t, r)
			if t.done {
				return // killed (and reaped) by its own call
			}
			putResp(t, EncodeResp(&resp))
			continue
		case KCall:
			t.Data0 = req
			return
		default:
			return
		}
	}
}

func (c *Task) seqUnder(p *Task) int {
	p.children++
	return p.children
}

// PanicHandler and LockLeakHandler are set by worlds that treat them as verdicts (C18); by default they are
// infrastructure failures.
func (s *Sim) onPanic(t *Task, msg string) {
	s.Stat("task.panic")
	if s.OnPanic != nil {
		s.OnPanic(t, msg)
		return
	}
	s.Infra = fmt.Sprintf("task %s panicked: %s", t.Name, msg)
	s.stopped = true
}

func (s *Sim) onLockLeak(t *Task, h int32) {
	if s.OnLockLeak != nil {
		s.OnLockLeak(t, int(h))
		return
	}
	s.Infra = fmt.Sprintf("task %s ended holding %d simsync lock(s)", t.Name, h)
	s.stopped = true
}

// Kill marks every task of the process dead and reaps it.
func (s *Sim) Kill(proc int) int {
	n := 0
	for _, t := range s.tasks {
		if t.done || t.Proc != proc {
			continue
		}
		markDead(t)
		n++
	}
	for _, t := range s.tasks {
		if t.done || t.Proc != proc {
			continue
		}
		s.reap(t)
	}
	return n
}

// KillAll ends the run: every task is reaped.
func (s *Sim) KillAll() {
	for _, t := range s.tasks {
		if !t.done {
			markDead(t)
		}
	}
	for _, t := range s.tasks {
		if !t.done {
			s.reap(t)
		}
	}
}

func (s *Sim) reap(t *Task) {
	if s.Hang {
		return // a task is stuck in real code; goroutines cannot be reaped
	}
	for !t.done {
		t.parked = false
		setCur(t)
		p := handoffResume(s, t)
		setCur(nil)
		if p == nil {
			s.Hang = true
			return
		}
		k, _, child, _ := takeSlot(p)
		if k == KSpawn && child != nil {
			// a dying task cannot spawn (Go returns early), defensive
			markDead(child)
		}
		if k == KDone {
			p.done = true
		}
		p.parked = true
	}
}

// Loop is the default scheduling loop.
func (s *Sim) Loop() {
	for !s.stopped && s.Viol == nil {
		if s.Steps >= s.MaxSteps {
			s.OutOfSteps = true
			break
		}
		en := s.Enabled()
		acts := s.W.Actions()
		n := len(en) + len(acts)
		if n == 0 {
			if !s.W.Idle() {
				break
			}
			continue
		}
		i := 0
		if n > 1 {
			// 0 = keep running the task that ran last, if it is still enabled (fewest context switches)
			order := make([]int, 0, n)
			for j, t := range en {
				if t == s.lastRun {
					order = append(order, j)
				}
			}
			for j := 0; j < n; j++ {
				if j < len(en) && en[j] == s.lastRun {
					continue
				}
				order = append(order, j)
			}
			i = order[s.C.Choose(n)]
			if len(en) > 1 {
				s.Contested++
			}
		}
		if i < len(en) {
			if len(en) > 1 {
				s.SigParts = append(s.SigParts, sigOf(en[i]))
			}
			s.RunTask(en[i])
		} else {
			a := acts[i-len(en)]
			s.Steps++
			atomic.AddUint64(&heartbeat, 1)
			s.mix(4, strHash(a.Name))
			if s.TraceOn {
				s.Logf("act  %s", a.Name)
			}
			a.Do()
			s.progress++
			s.W.AfterStep()
		}
	}
}

func sigOf(t *Task) string {
	tag := t.Tag
	if tag == "" {
		tag = "t"
	}
	return tag + ":" + t.lastKind.String()
}

// Stop ends the loop.
func (s *Sim) Stop() { s.stopped = true }

// Stopped reports whether the loop has been stopped.
func (s *Sim) Stopped() bool { return s.stopped }

// Resume clears the stop flag (used between phases).
func (s *Sim) Resume() { s.stopped = false }

// SortedStatKeys is a helper for evidence output.
func SortedStatKeys(m map[string]int) []string {
	ks := make([]string, 0, len(m))
	for k := range m {
		ks = append(ks, k)
	}
	sort.Strings(ks)
	return ks
}

// ---------------------------------------------------------------------------------------------------------
// watchdog

var watchdogOnce int32

// StartWatchdog starts a goroutine that declares a hang when no scheduling step completes for limit.
func StartWatchdog(limit time.Duration, onHang func()) {
	if !atomic.CompareAndSwapInt32(&watchdogOnce, 0, 1) {
		return
	}
	go func() {
		last := atomic.LoadUint64(&heartbeat)
		lastChange := time.Now()
		for {
			time.Sleep(250 * time.Millisecond)
			h := atomic.LoadUint64(&heartbeat)
			if h != last || atomic.LoadInt32(&watchdogArmed) == 0 {
				last = h
				lastChange = time.Now()
				continue
			}
			if time.Since(lastChange) > limit {
				onHang()
				os.Exit(3)
			}
		}
	}()
}

var watchdogArmed int32

// ArmWatchdog enables/disables hang detection (disabled while no run is in progress).
func ArmWatchdog(on bool) {
	if on {
		atomic.StoreInt32(&watchdogArmed, 1)
	} else {
		atomic.StoreInt32(&watchdogArmed, 0)
	}
	atomic.AddUint64(&heartbeat, 1)
}

var _ = unsafe.Pointer(nil)
