//go:build race

package core

import (
	"runtime"
	"unsafe"
)

// RaceEnabled reports whether the binary was built with -race.
const RaceEnabled = true

// The hand-off channel operations are wrapped in RaceDisable/RaceEnable, which make the detector ignore the
// *synchronisation* events of the current goroutine (memory accesses stay checked). The scheduler therefore
// creates no happens-before edge between tasks.

func handoffPark(ch chan *Task, t *Task) {
	runtime.RaceDisable()
	ch <- t
	<-t.resume
	runtime.RaceEnable()
}

func handoffWait(t *Task) {
	runtime.RaceDisable()
	<-t.resume
	runtime.RaceEnable()
}

func handoffDone(ch chan *Task, t *Task) {
	runtime.RaceDisable()
	ch <- t
	runtime.RaceEnable()
}

func handoffResume(s *Sim, t *Task) *Task {
	runtime.RaceDisable()
	t.resume <- struct{}{}
	p := <-s.schedCh
	runtime.RaceEnable()
	return p
}

// raceAcquireInit orders a task after the completion of its process's initialisation (in the real program
// the goroutines that serve requests are started by main after construction).
func raceAcquireInit(t *Task) {
	if tok := initToken(t); tok != nil {
		runtime.RaceAcquire(unsafe.Pointer(tok))
	}
}

// InitDone is called by the initialisation task of a process when construction is complete.
func InitDone() {
	t := mustCur()
	if tok := initToken(t); tok != nil {
		runtime.RaceRelease(unsafe.Pointer(tok))
	}
}
