//go:build !race

package core

// RaceEnabled reports whether the binary was built with -race.
const RaceEnabled = false

func handoffPark(ch chan *Task, t *Task) {
	ch <- t
	<-t.resume
}

func handoffWait(t *Task) { <-t.resume }

func handoffDone(ch chan *Task, t *Task) { ch <- t }

func handoffResume(s *Sim, t *Task) *Task {
	t.resume <- struct{}{}
	return <-s.schedCh
}

func raceAcquireInit(t *Task) {}

// InitDone is called by the initialisation task of a process when construction is complete.
func InitDone() {}
