package core

// Choices is the single source of nondeterminism of a run: a splitmix64 stream whose every draw is recorded,
// or a recorded list that is played back (0 when exhausted; 0 is always the simplest choice).
type Choices struct {
	Seed      uint64
	state     uint64
	Replaying bool
	replay    []uint32
	pos       int
	Rec       []uint32
	Overrun   int // draws made after the replay list was exhausted
}

// NewChoices returns a generating stream.
func NewChoices(seed uint64) *Choices {
	return &Choices{Seed: seed, state: seed}
}

// ReplayChoices returns a stream that plays back rec.
func ReplayChoices(seed uint64, rec []uint32) *Choices {
	return &Choices{Seed: seed, state: seed, Replaying: true, replay: rec}
}

func (c *Choices) next() uint64 {
	c.state += 0x9e3779b97f4a7c15
	z := c.state
	z = (z ^ (z >> 30)) * 0xbf58476d1ce4e5b9
	z = (z ^ (z >> 27)) * 0x94d049bb133111eb
	return z ^ (z >> 31)
}

// Choose returns a value in [0,n). n <= 1 draws nothing.
func (c *Choices) Choose(n int) int {
	if n <= 1 {
		return 0
	}
	var v int
	if c.Replaying {
		if c.pos < len(c.replay) {
			v = int(c.replay[c.pos] % uint32(n))
			c.pos++
		} else {
			c.Overrun++
		}
	} else {
		v = int(c.next() % uint64(n))
	}
	c.Rec = append(c.Rec, uint32(v))
	return v
}

// Prob returns true with probability num/den; false is the simple (zero) outcome.
func (c *Choices) Prob(num, den int) bool {
	if num <= 0 {
		return false
	}
	if num >= den {
		return true
	}
	return c.Choose(den) >= den-num
}

// Range returns a value in [lo,hi].
func (c *Choices) Range(lo, hi int) int {
	if hi <= lo {
		return lo
	}
	return lo + c.Choose(hi-lo+1)
}

// Mix derives a seed from several values (splitmix finaliser).
func Mix(vals ...uint64) uint64 {
	var h uint64 = 0x243f6a8885a308d3
	for _, v := range vals {
		h ^= v
		h += 0x9e3779b97f4a7c15
		h = (h ^ (h >> 30)) * 0xbf58476d1ce4e5b9
		h = (h ^ (h >> 27)) * 0x94d049bb133111eb
		h ^= h >> 31
	}
	return h
}

// Rest returns the replay values that have not been consumed yet.
func (c *Choices) Rest() []uint32 {
	if !c.Replaying || c.pos >= len(c.replay) {
		return nil
	}
	return c.replay[c.pos:]
}
