package core

// Per-process init tokens (race builds only use them; allocated by the scheduler before the process's first
// task starts, read-only afterwards).

//go:norace
func initToken(t *Task) *byte {
	toks := t.sim.initToks
	if t.Proc < len(toks) {
		return toks[t.Proc]
	}
	return nil
}

// NewProc allocates a process incarnation id.
func (s *Sim) NewProc() int {
	if len(s.initToks) == 0 {
		s.initToks = append(s.initToks, nil) // proc 0 = outside galaxy
	}
	// copy-on-write so that tasks reading the old slice header never see a concurrent append
	n := make([]*byte, len(s.initToks)+1)
	copy(n, s.initToks)
	n[len(s.initToks)] = new(byte)
	s.initToks = n
	return len(n) - 1
}
