package core

import "encoding/binary"

func putStr(b []byte, s string) []byte {
	b = binary.AppendUvarint(b, uint64(len(s)))
	return append(b, s...)
}

func putStrs(b []byte, a []string) []byte {
	b = binary.AppendUvarint(b, uint64(len(a)))
	for _, s := range a {
		b = putStr(b, s)
	}
	return b
}

type rd struct {
	b []byte
	p int
}

func (r *rd) uv() uint64 {
	v, n := binary.Uvarint(r.b[r.p:])
	if n <= 0 {
		panic("verifsim: bad encoding")
	}
	r.p += n
	return v
}

func (r *rd) str() string {
	n := int(r.uv())
	s := string(r.b[r.p : r.p+n])
	r.p += n
	return s
}

func (r *rd) strs() []string {
	n := int(r.uv())
	if n == 0 {
		return nil
	}
	a := make([]string, n)
	for i := range a {
		a[i] = r.str()
	}
	return a
}

func (r *rd) bytes() []byte {
	n := int(r.uv())
	if n == 0 {
		return nil
	}
	out := make([]byte, n)
	copy(out, r.b[r.p:r.p+n])
	r.p += n
	return out
}

// EncodeReq serialises a request.
func EncodeReq(r *Req) []byte {
	b := make([]byte, 0, 32+len(r.B))
	b = putStr(b, r.Op)
	b = putStrs(b, r.A)
	b = binary.AppendUvarint(b, uint64(len(r.B)))
	return append(b, r.B...)
}

// DecodeReq parses a request.
func DecodeReq(b []byte) *Req {
	r := rd{b: b}
	return &Req{Op: r.str(), A: r.strs(), B: r.bytes()}
}

// EncodeResp serialises a response.
func EncodeResp(r *Resp) []byte {
	b := make([]byte, 0, 32+len(r.B))
	b = binary.AppendVarint(b, int64(r.Code))
	b = putStr(b, r.Msg)
	b = putStrs(b, r.A)
	b = binary.AppendUvarint(b, uint64(len(r.B)))
	return append(b, r.B...)
}

// DecodeResp parses a response.
func DecodeResp(b []byte) Resp {
	r := rd{b: b}
	code, n := binary.Varint(r.b)
	r.p += n
	return Resp{Code: int(code), Msg: r.str(), A: r.strs(), B: r.bytes()}
}
