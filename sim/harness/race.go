package harness

// Race-report handling for -race builds of a world (property C19). The race runtime is told, through
// GORACE=log_path=<prefix>, to append its reports to <prefix>.<pid>; after every simulated run the worker
// reads what was appended and attributes it to that run (one seed = one schedule = the same report again).

import (
	"fmt"
	"os"
	"regexp"
	"sort"
	"strings"
)

type raceLog struct {
	path string
	off  int64
}

func newRaceLog() *raceLog {
	for _, f := range strings.Fields(os.Getenv("GORACE")) {
		if strings.HasPrefix(f, "log_path=") {
			return &raceLog{path: fmt.Sprintf("%s.%d", strings.TrimPrefix(f, "log_path="), os.Getpid())}
		}
	}
	return nil
}

// RaceReport is one parsed report.
type RaceReport struct {
	Key      string // signature: the innermost galaxy frames of the two accesses, sorted
	Text     string
	InGalaxy bool
}

var frameRe = regexp.MustCompile(`^\s+(\S+)\(\)$`)

// parseRaceReports splits the detector's output into reports and builds their signatures.
func parseRaceReports(txt string) []RaceReport {
	var out []RaceReport
	for _, blk := range strings.Split(txt, "==================") {
		if !strings.Contains(blk, "WARNING: DATA RACE") {
			continue
		}
		var stacks [][]string
		var cur []string
		inAccess := false
		for _, l := range strings.Split(blk, "\n") {
			t := strings.TrimSpace(l)
			switch {
			case strings.HasPrefix(t, "Write at"), strings.HasPrefix(t, "Read at"), strings.HasPrefix(t, "Previous write at"), strings.HasPrefix(t, "Previous read at"),
				strings.HasPrefix(t, "Atomic"), strings.HasPrefix(t, "Previous atomic"):
				if inAccess {
					stacks = append(stacks, cur)
				}
				cur, inAccess = nil, true
			case strings.HasPrefix(t, "Goroutine "):
				if inAccess {
					stacks = append(stacks, cur)
				}
				cur, inAccess = nil, false
			case inAccess:
				if m := frameRe.FindStringSubmatch(l); m != nil {
					cur = append(cur, m[1])
				}
			}
		}
		if inAccess {
			stacks = append(stacks, cur)
		}
		var tops []string
		galaxy := false
		for _, st := range stacks {
			top := ""
			for _, f := range st {
				if strings.HasPrefix(f, "tkestack.io/galaxy/pkg/") || strings.HasPrefix(f, "tkestack.io/galaxy/cni/") {
					top = strings.TrimPrefix(f, "tkestack.io/galaxy/")
					galaxy = true
					break
				}
			}
			if top == "" && len(st) > 0 {
				top = st[0]
			}
			tops = append(tops, top)
		}
		sort.Strings(tops)
		out = append(out, RaceReport{Key: strings.Join(tops, " <-> "), Text: strings.TrimSpace(blk), InGalaxy: galaxy})
	}
	return out
}

// newReports returns the reports appended since the last call.
func (r *raceLog) newReports() []RaceReport {
	if r == nil {
		return nil
	}
	st, err := os.Stat(r.path)
	if err != nil || st.Size() <= r.off {
		return nil
	}
	f, err := os.Open(r.path)
	if err != nil {
		return nil
	}
	defer f.Close()
	buf := make([]byte, st.Size()-r.off)
	if _, err := f.ReadAt(buf, r.off); err != nil {
		return nil
	}
	r.off = st.Size()
	return parseRaceReports(string(buf))
}
