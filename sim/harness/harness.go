// Package harness is the worker side of a check: it runs many seeded simulations of one world for one
// property, shrinks and replays violations, and reports what it covered as JSON for the driver (vcheck).
package harness

import (
	"crypto/sha256"
	"encoding/hex"
	"encoding/json"
	"flag"
	"fmt"
	"os"
	"path/filepath"
	"runtime"
	"sort"
	"strings"
	"time"

	"tkestack.io/galaxy/verifsim/core"
)

// RunResult is what one simulated run reports.
type RunResult struct {
	Viol         *core.Violation
	Key          string // finding signature of the violation (stable across seeds), "" if none
	Infra        string // harness trouble: neither pass nor verdict
	Hang         bool
	Stats        map[string]int
	Sig          string // schedule/fault signature (distinctness measure)
	Nontrivial   bool
	Steps        int
	SimNanos     int64
	Hash         uint64
	Trace        []string
	Summary      string   // one-line description of the case (for evidence samples)
	States       []string // abstract states seen at quiescent points
	Inconclusive int
	SubRuns      int      // >0 when one call explored several runs (fault enumeration)
	ExtraSigs    []string // signatures of the non-trivial sub-runs
}

// RunFunc runs one simulation.
type RunFunc func(prop, tier string, c *core.Choices, trace bool) *RunResult

// Replay is the replay file format.
type Replay struct {
	Property  string          `json:"property"`
	World     string          `json:"world"`
	Tier      string          `json:"tier"`
	Seed      uint64          `json:"seed"`
	Choices   []uint32        `json:"choices"`
	Violation *core.Violation `json:"violation"`
	Key       string          `json:"finding_key,omitempty"`
	Hang      bool            `json:"hang,omitempty"`
	Shrunk    bool            `json:"minimised"`
	OrigLen   int             `json:"original_choices"`
	Trace     []string        `json:"trace"`
}

// KnownFinding is an entry of known_findings.json.
type KnownFinding struct {
	Property string `json:"property"`
	Oracle   string `json:"oracle"`
	Key      string `json:"key"`
	Status   string `json:"status"` // "known" or "fixed"
	What     string `json:"what"`
	Commit   string `json:"commit,omitempty"`
}

// WorkerReport is written by a worker for the driver.
type WorkerReport struct {
	Property     string            `json:"property"`
	World        string            `json:"world"`
	Worker       int               `json:"worker"`
	Runs         int               `json:"runs"`
	Nontrivial   int               `json:"nontrivial"`
	Sigs         []string          `json:"sigs"` // hashes of distinct nontrivial signatures
	Stats        map[string]int    `json:"stats"`
	Steps        int64             `json:"steps"`
	SimNanos     int64             `json:"sim_nanos"`
	WallS        float64           `json:"wall_s"`
	Violations   []string          `json:"violations"` // replay file paths
	Known        map[string]int    `json:"known"`      // finding key -> count
	KnownReplays map[string]string `json:"known_replays"`
	Infra        []string          `json:"infra"`
	Samples      []string          `json:"samples"`
	States       []string          `json:"states"`
	Inconclusive int               `json:"inconclusive"`
	FirstSeed    uint64            `json:"first_seed"`
}

func strHash(s string) uint64 {
	h := sha256.Sum256([]byte(s))
	var v uint64
	for i := 0; i < 8; i++ {
		v = v<<8 | uint64(h[i])
	}
	return v
}

func shortHash(s string) string {
	h := sha256.Sum256([]byte(s))
	return hex.EncodeToString(h[:8])
}

// Main is the entry point of a world binary.
func Main(world string, run RunFunc) {
	prop := flag.String("prop", "", "property id")
	tier := flag.String("tier", "quick", "quick|thorough")
	seed := flag.Uint64("seed", 1, "base seed (VERIF_SEED)")
	worker := flag.Int("worker", 0, "worker index")
	runs := flag.Int("runs", 0, "max runs (0 = until budget)")
	budget := flag.Float64("budget", 30, "wall-clock budget in seconds")
	out := flag.String("out", "", "worker report path")
	replayDir := flag.String("replaydir", "", "where replay files go")
	replay := flag.String("replay", "", "replay this file")
	known := flag.String("known", "", "known_findings.json")
	one := flag.Int64("one", -1, "run exactly the i-th derived seed with a trace (debug)")
	hashOnly := flag.Bool("hashes", false, "print seed and determinism hash of every run (selftest)")
	flag.Parse()

	core.StartWatchdog(20*time.Second, func() { dumpHang(world, *prop, *tier, *replayDir) })

	if *replay != "" {
		os.Exit(doReplay(*replay, run))
	}
	var kf []KnownFinding
	if *known != "" {
		if b, err := os.ReadFile(*known); err == nil {
			if err := json.Unmarshal(b, &kf); err != nil {
				fmt.Fprintf(os.Stderr, "bad known findings file: %v\n", err)
				os.Exit(2)
			}
		}
	}
	isKnown := func(oracle, key string) bool {
		for _, k := range kf {
			if k.Property == *prop && k.Status == "known" && k.Oracle == oracle && k.Key == key {
				return true
			}
		}
		return false
	}
	rl := newRaceLog()
	rep := &WorkerReport{Property: *prop, World: world, Worker: *worker, Stats: map[string]int{}, Known: map[string]int{}, KnownReplays: map[string]string{}}
	sigs := map[string]bool{}
	states := map[string]bool{}
	start := time.Now()
	deadline := start.Add(time.Duration(*budget * float64(time.Second)))
	for i := 0; ; i++ {
		if *runs > 0 && i >= *runs {
			break
		}
		if *runs == 0 && time.Now().After(deadline) {
			break
		}
		if *one >= 0 {
			i = int(*one)
		}
		s := core.Mix(*seed, strHash(*prop), uint64(*worker), uint64(i))
		if i == 0 {
			rep.FirstSeed = s
		}
		curRun.seed, curRun.choices = s, nil
		c := core.NewChoices(s)
		curRun.c = c
		core.ArmWatchdog(true)
		res := run(*prop, *tier, c, *one >= 0)
		core.ArmWatchdog(false)
		raceSeen := applyRaceReports(rl, res)
		if res.SubRuns > 0 {
			rep.Runs += res.SubRuns
		} else {
			rep.Runs++
		}
		for _, es := range res.ExtraSigs {
			rep.Nontrivial++
			sigs[shortHash(es)] = true
		}
		rep.Steps += int64(res.Steps)
		rep.SimNanos += res.SimNanos
		rep.Inconclusive += res.Inconclusive
		for k, v := range res.Stats {
			rep.Stats[k] += v
		}
		for _, st := range res.States {
			states[st] = true
		}
		if *hashOnly {
			fmt.Printf("%d %016x %d\n", s, res.Hash, res.Steps)
		}
		if res.Nontrivial {
			rep.Nontrivial++
			sigs[shortHash(res.Sig)] = true
		}
		if len(rep.Samples) < 3 && res.Summary != "" && res.Nontrivial {
			rep.Samples = append(rep.Samples, fmt.Sprintf("seed=%d %s", s, res.Summary))
		}
		if *one >= 0 {
			for _, l := range res.Trace {
				fmt.Println(l)
			}
			fmt.Printf("seed=%d steps=%d viol=%v infra=%q summary=%s\n", s, res.Steps, res.Viol, res.Infra, res.Summary)
			break
		}
		if res.Infra != "" {
			rep.Infra = append(rep.Infra, fmt.Sprintf("seed=%d: %s", s, res.Infra))
			if len(rep.Infra) > 3 {
				break
			}
			continue
		}
		if res.Viol != nil {
			knownF := isKnown(res.Viol.Oracle, res.Key)
			if knownF && rep.Known[res.Key] > 0 {
				rep.Known[res.Key]++
				continue
			}
			if raceSeen {
				// the detector reports each racy pair once per process: no in-process shrinking; the recorded
				// choices are the replay file, confirmed by the driver in a fresh process
				rp := saveReplay(world, *prop, *tier, s, c.Rec, res, *replayDir)
				if knownF {
					rep.Known[res.Key]++
					rep.KnownReplays[res.Key] = rp
				} else if rp != "" {
					rep.Violations = append(rep.Violations, rp)
					if len(rep.Violations) >= 3 {
						break
					}
				}
				continue
			}
			// a new violation deserves a well minimised trace; a known finding only needs a replayable one
			shrinkUntil := time.Now().Add(40 * time.Second)
			if knownF {
				shrinkUntil = time.Now().Add(4 * time.Second)
			}
			rp := shrinkAndSave(world, *prop, *tier, s, c.Rec, res, run, *replayDir, shrinkUntil)
			if rp == "" {
				rep.Infra = append(rep.Infra, fmt.Sprintf("seed=%d: violation %s did not reproduce from its recorded choices (nondeterminism)", s, res.Viol.Oracle))
				continue
			}
			if knownF {
				rep.Known[res.Key]++
				rep.KnownReplays[res.Key] = rp
				continue
			}
			rep.Violations = append(rep.Violations, rp)
			if len(rep.Violations) >= 2 {
				break
			}
		}
	}
	for s := range sigs {
		rep.Sigs = append(rep.Sigs, s)
	}
	sort.Strings(rep.Sigs)
	for s := range states {
		rep.States = append(rep.States, s)
	}
	sort.Strings(rep.States)
	rep.WallS = time.Since(start).Seconds()
	if *out != "" {
		b, _ := json.Marshal(rep)
		if err := os.WriteFile(*out, b, 0o644); err != nil {
			fmt.Fprintln(os.Stderr, err)
			os.Exit(2)
		}
	}
	if *one >= 0 {
		return
	}
	if len(rep.Infra) > 0 {
		os.Exit(2)
	}
	if len(rep.Violations) > 0 {
		os.Exit(1)
	}
}

var curRun struct {
	seed    uint64
	choices []uint32
	c       *core.Choices
}

// dumpHang is called by the watchdog: the run in progress never reached a scheduling point again.
func dumpHang(world, prop, tier, dir string) {
	if dir == "" || curRun.c == nil {
		fmt.Fprintln(os.Stderr, "HANG (no replay dir)")
		return
	}
	rec := append([]uint32(nil), curRun.c.Rec...)
	site, stack := hangSite()
	r := &Replay{Property: prop, World: world, Tier: tier, Seed: curRun.seed, Choices: rec, Hang: true, Key: "hang@" + site,
		Violation: &core.Violation{Oracle: prop + ".hang", Message: "a task neither reached a scheduling point nor ended within the wall-clock watchdog; it is executing " + site},
		OrigLen:   len(rec), Trace: strings.Split(stack, "\n")}
	_ = os.MkdirAll(dir, 0o755)
	p := filepath.Join(dir, fmt.Sprintf("%s-hang-%d.json", prop, curRun.seed))
	b, _ := json.MarshalIndent(r, "", " ")
	_ = os.WriteFile(p, b, 0o644)
	fmt.Printf("HANG property=%s key=hang@%s replay=%s\n", prop, site, p)
}

// hangSite finds the goroutine that is busy inside galaxy code and returns its innermost galaxy function.
func hangSite() (string, string) {
	buf := make([]byte, 1<<20)
	n := runtime.Stack(buf, true)
	for _, g := range strings.Split(string(buf[:n]), "\n\n") {
		lines := strings.Split(g, "\n")
		if len(lines) == 0 || !(strings.Contains(lines[0], "[running]") || strings.Contains(lines[0], "[runnable]")) {
			continue
		}
		for _, l := range lines[1:] {
			if strings.HasPrefix(l, "tkestack.io/galaxy/pkg/") || strings.HasPrefix(l, "tkestack.io/galaxy/cni/") {
				f := l
				if i := strings.LastIndex(f, "("); i > 0 {
					f = f[:i]
				}
				return strings.TrimPrefix(f, "tkestack.io/galaxy/"), g
			}
		}
	}
	return "unknown", ""
}

// applyRaceReports turns race reports produced during the run into the run's verdict.
func applyRaceReports(rl *raceLog, res *RunResult) bool {
	reps := rl.newReports()
	if len(reps) == 0 {
		return false
	}
	for _, r := range reps {
		if !r.InGalaxy {
			if res.Infra == "" {
				res.Infra = "data race inside the harness (no galaxy frame): " + firstLines(r.Text, 30)
			}
			continue
		}
		if res.Viol == nil {
			res.Viol = &core.Violation{Oracle: "C19.data-race", Message: firstLines(r.Text, 60), Step: res.Steps}
			res.Key = r.Key
		}
	}
	return res.Viol != nil && res.Viol.Oracle == "C19.data-race"
}

func firstLines(s string, n int) string {
	ls := strings.Split(s, "\n")
	if len(ls) > n {
		ls = ls[:n]
	}
	return strings.Join(ls, "\n")
}

// saveReplay writes an unminimised replay file.
func saveReplay(world, prop, tier string, seed uint64, rec []uint32, res *RunResult, dir string) string {
	r := &Replay{Property: prop, World: world, Tier: tier, Seed: seed, Choices: append([]uint32(nil), rec...), Violation: res.Viol, Key: res.Key,
		OrigLen: len(rec), Trace: res.Trace}
	_ = os.MkdirAll(dir, 0o755)
	p := filepath.Join(dir, fmt.Sprintf("%s-%s-%d.json", prop, sanitize(res.Viol.Oracle+"-"+res.Key), seed))
	b, _ := json.MarshalIndent(r, "", " ")
	if err := os.WriteFile(p, b, 0o644); err != nil {
		return ""
	}
	return p
}

func sameFailure(a *RunResult, oracle, key string) bool {
	return a.Infra == "" && a.Viol != nil && a.Viol.Oracle == oracle && a.Key == key
}

// shrinkAndSave minimises the choice list (delete chunks, zero, halve), re-runs the result once more with a
// trace and writes the replay file. Returns "" if even the unshrunk list does not reproduce.
func shrinkAndSave(world, prop, tier string, seed uint64, rec []uint32, first *RunResult, run RunFunc, dir string, deadline time.Time) string {
	oracle, key := first.Viol.Oracle, first.Key
	try := func(cand []uint32) *RunResult {
		core.ArmWatchdog(true)
		defer core.ArmWatchdog(false)
		return run(prop, tier, core.ReplayChoices(seed, cand), false)
	}
	cur := append([]uint32(nil), rec...)
	if r := try(cur); !sameFailure(r, oracle, key) {
		return ""
	}
	orig := len(cur)
	improved := true
	for improved && time.Now().Before(deadline) {
		improved = false
		// drop the tail (replay returns 0 for missing draws)
		for n := len(cur) / 2; n >= 1; n /= 2 {
			for len(cur) >= n {
				cand := cur[:len(cur)-n]
				if r := try(cand); sameFailure(r, oracle, key) {
					cur = append([]uint32(nil), cand...)
					improved = true
				} else {
					break
				}
				if time.Now().After(deadline) {
					break
				}
			}
		}
		// delete chunks
		for n := len(cur) / 2; n >= 1; n /= 2 {
			for i := 0; i+n <= len(cur); {
				cand := append(append([]uint32(nil), cur[:i]...), cur[i+n:]...)
				if r := try(cand); sameFailure(r, oracle, key) {
					cur = cand
					improved = true
				} else {
					i += n
				}
				if time.Now().After(deadline) {
					break
				}
			}
		}
		// zero, then halve values
		for i := 0; i < len(cur) && time.Now().Before(deadline); i++ {
			if cur[i] == 0 {
				continue
			}
			cand := append([]uint32(nil), cur...)
			cand[i] = 0
			if r := try(cand); sameFailure(r, oracle, key) {
				cur = cand
				improved = true
				continue
			}
			for v := cur[i] / 2; v > 0; v /= 2 {
				cand[i] = v
				if r := try(cand); sameFailure(r, oracle, key) {
					cur = append([]uint32(nil), cand...)
					improved = true
					break
				}
			}
		}
	}
	// strip trailing zeros (equivalent by construction)
	for len(cur) > 0 && cur[len(cur)-1] == 0 {
		cur = cur[:len(cur)-1]
	}
	core.ArmWatchdog(true)
	final := run(prop, tier, core.ReplayChoices(seed, cur), true)
	core.ArmWatchdog(false)
	if !sameFailure(final, oracle, key) {
		// fall back to the unshrunk trace
		cur = append([]uint32(nil), rec...)
		final = run(prop, tier, core.ReplayChoices(seed, cur), true)
		if !sameFailure(final, oracle, key) {
			return ""
		}
	}
	r := &Replay{Property: prop, World: world, Tier: tier, Seed: seed, Choices: cur, Violation: final.Viol, Key: key,
		Shrunk: len(cur) < orig, OrigLen: orig, Trace: final.Trace}
	_ = os.MkdirAll(dir, 0o755)
	p := filepath.Join(dir, fmt.Sprintf("%s-%s-%d.json", prop, sanitize(oracle+"-"+key), seed))
	b, _ := json.MarshalIndent(r, "", " ")
	if err := os.WriteFile(p, b, 0o644); err != nil {
		fmt.Fprintln(os.Stderr, err)
		return ""
	}
	return p
}

func sanitize(s string) string {
	var sb strings.Builder
	for _, c := range s {
		if (c >= 'a' && c <= 'z') || (c >= 'A' && c <= 'Z') || (c >= '0' && c <= '9') || c == '-' {
			sb.WriteRune(c)
		} else {
			sb.WriteByte('_')
		}
	}
	out := sb.String()
	if len(out) > 60 {
		out = out[:60]
	}
	return out
}

// doReplay re-executes a replay file; exit 1 if the recorded violation reproduces, 0 if the run is clean,
// 2 otherwise.
func doReplay(path string, run RunFunc) int {
	b, err := os.ReadFile(path)
	if err != nil {
		fmt.Fprintln(os.Stderr, err)
		return 2
	}
	var r Replay
	if err := json.Unmarshal(b, &r); err != nil {
		fmt.Fprintln(os.Stderr, err)
		return 2
	}
	curRun.seed = r.Seed
	c := core.ReplayChoices(r.Seed, r.Choices)
	curRun.c = c
	core.ArmWatchdog(true)
	rl := newRaceLog()
	res := run(r.Property, r.Tier, c, true)
	core.ArmWatchdog(false)
	applyRaceReports(rl, res)
	for _, l := range res.Trace {
		fmt.Println(l)
	}
	if res.Infra != "" {
		fmt.Printf("REPLAY infra trouble: %s\n", res.Infra)
		return 2
	}
	if res.Viol == nil {
		fmt.Println("REPLAY clean: no violation")
		return 0
	}
	fmt.Printf("REPLAY violation oracle=%s key=%s step=%d: %s\n", res.Viol.Oracle, res.Key, res.Viol.Step, res.Viol.Message)
	if r.Violation != nil && (res.Viol.Oracle != r.Violation.Oracle || res.Key != r.Key) {
		fmt.Printf("REPLAY differs from the recorded violation (oracle=%s key=%s)\n", r.Violation.Oracle, r.Key)
	}
	return 1
}
