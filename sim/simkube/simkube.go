// Package simkube is the simulated API server (+etcd) and the lagging informer views. It is owned by the
// scheduler goroutine; tasks reach it only through core.Call with JSON payloads, exactly as a real client
// reaches a real API server, so nothing is shared between a task and the server.
package simkube

import (
	"encoding/json"
	"fmt"
	"sort"
	"strconv"
	"strings"

	"tkestack.io/galaxy/verifsim/core"
)

// HTTP-like response codes.
const (
	CodeNotFound      = 404
	CodeConflict      = 409 // Msg "AlreadyExists" or "Conflict"
	CodeInternal      = 500
	CodeServerTimeout = 504
	CodeBadRequest    = 400
	CodeRefused       = 503 // connection refused / server unavailable
)

// Obj is one stored object.
type Obj struct {
	Kind   string
	NS     string
	Name   string
	UID    string
	RV     uint64
	JSON   []byte
	Labels map[string]string
}

// Key returns ns/name.
func (o *Obj) Key() string { return o.NS + "/" + o.Name }

// EventType of a watch event.
type EventType int

const (
	Added EventType = iota
	Modified
	Deleted
)

func (e EventType) String() string { return [...]string{"ADDED", "MODIFIED", "DELETED"}[e] }

// Event is a pending watch event for one informer view.
type Event struct {
	Type     EventType
	Kind     string
	Key      string
	Old, New *Obj
	Step     int
	Seq      uint64
	// Tombstone: the delete was observed only through a relist (DeletedFinalStateUnknown)
	Tombstone bool
}

// Mutation is what an oracle sees when the store changes.
type Mutation struct {
	Verb     string // create, update, delete, bind
	Kind     string
	Old, New *Obj
	By       *core.Task
}

// Kube is the API server state plus the informer views.
type Kube struct {
	S        *core.Sim
	objs     map[string]map[string]*Obj
	rv       uint64
	uidSeq   int
	evSeq    uint64
	views    map[string]map[string]*Obj
	queues   map[string][]*Event
	Watched  map[string]bool // kinds that have an informer view
	OnMutate func(m *Mutation)
	Calls    int // number of API calls applied or failed (for fault enumeration)
}

// New creates an empty API server.
func New(s *core.Sim) *Kube {
	return &Kube{S: s, objs: map[string]map[string]*Obj{}, views: map[string]map[string]*Obj{},
		queues: map[string][]*Event{}, Watched: map[string]bool{}}
}

// Watch declares an informer view for kind (starts in sync with the truth).
func (k *Kube) Watch(kinds ...string) {
	for _, kind := range kinds {
		k.Watched[kind] = true
		v := map[string]*Obj{}
		for key, o := range k.objs[kind] {
			v[key] = o
		}
		k.views[kind] = v
		k.queues[kind] = nil
	}
}

// ResetViews re-lists every view from the truth and drops pending events (a restarted process builds fresh
// informers).
func (k *Kube) ResetViews() {
	for kind := range k.Watched {
		k.Watch(kind)
	}
}

func setMeta(js []byte, f func(meta map[string]interface{})) ([]byte, error) {
	var m map[string]interface{}
	if err := json.Unmarshal(js, &m); err != nil {
		return nil, err
	}
	meta, _ := m["metadata"].(map[string]interface{})
	if meta == nil {
		meta = map[string]interface{}{}
		m["metadata"] = meta
	}
	f(meta)
	return json.Marshal(m)
}

type metaOnly struct {
	Metadata struct {
		Name            string            `json:"name"`
		Namespace       string            `json:"namespace"`
		UID             string            `json:"uid"`
		ResourceVersion string            `json:"resourceVersion"`
		Labels          map[string]string `json:"labels"`
	} `json:"metadata"`
}

// Get returns the stored object or nil.
func (k *Kube) Get(kind, ns, name string) *Obj {
	return k.objs[kind][ns+"/"+name]
}

// List returns the objects of a kind (optionally one namespace), sorted by key.
func (k *Kube) List(kind, ns string) []*Obj {
	var out []*Obj
	for _, o := range k.objs[kind] {
		if ns == "" || o.NS == ns {
			out = append(out, o)
		}
	}
	sort.Slice(out, func(i, j int) bool { return out[i].Key() < out[j].Key() })
	return out
}

// ViewGet returns the object as the informer view sees it.
func (k *Kube) ViewGet(kind, ns, name string) *Obj {
	if !k.Watched[kind] {
		return k.Get(kind, ns, name)
	}
	return k.views[kind][ns+"/"+name]
}

// ViewList lists the informer view.
func (k *Kube) ViewList(kind, ns string) []*Obj {
	if !k.Watched[kind] {
		return k.List(kind, ns)
	}
	var out []*Obj
	for _, o := range k.views[kind] {
		if ns == "" || o.NS == ns {
			out = append(out, o)
		}
	}
	sort.Slice(out, func(i, j int) bool { return out[i].Key() < out[j].Key() })
	return out
}

func (k *Kube) emit(t EventType, kind string, old, nw *Obj) {
	if !k.Watched[kind] {
		return
	}
	k.evSeq++
	key := ""
	if nw != nil {
		key = nw.Key()
	} else {
		key = old.Key()
	}
	k.queues[kind] = append(k.queues[kind], &Event{Type: t, Kind: kind, Key: key, Old: old, New: nw, Step: k.S.Steps, Seq: k.evSeq})
}

func (k *Kube) mutate(m *Mutation) {
	if k.OnMutate != nil {
		k.OnMutate(m)
	}
}

// Create stores a new object. js must carry metadata.name (and namespace for namespaced kinds).
func (k *Kube) Create(by *core.Task, kind string, js []byte) (*Obj, int, string) {
	var mo metaOnly
	if err := json.Unmarshal(js, &mo); err != nil {
		return nil, CodeBadRequest, err.Error()
	}
	if mo.Metadata.Name == "" {
		return nil, CodeBadRequest, "name is required"
	}
	key := mo.Metadata.Namespace + "/" + mo.Metadata.Name
	if k.objs[kind] == nil {
		k.objs[kind] = map[string]*Obj{}
	}
	if _, ok := k.objs[kind][key]; ok {
		return nil, CodeConflict, "AlreadyExists"
	}
	k.rv++
	uid := mo.Metadata.UID
	if uid == "" {
		k.uidSeq++
		uid = fmt.Sprintf("uid-%d", k.uidSeq)
	}
	rv := k.rv
	out, err := setMeta(js, func(meta map[string]interface{}) {
		meta["uid"] = uid
		meta["resourceVersion"] = strconv.FormatUint(rv, 10)
	})
	if err != nil {
		return nil, CodeBadRequest, err.Error()
	}
	o := &Obj{Kind: kind, NS: mo.Metadata.Namespace, Name: mo.Metadata.Name, UID: uid, RV: rv, JSON: out, Labels: mo.Metadata.Labels}
	k.objs[kind][key] = o
	k.emit(Added, kind, nil, o)
	k.mutate(&Mutation{Verb: "create", Kind: kind, New: o, By: by})
	return o, 0, ""
}

// Update replaces an object; a non-empty resourceVersion must match.
func (k *Kube) Update(by *core.Task, kind string, js []byte) (*Obj, int, string) {
	var mo metaOnly
	if err := json.Unmarshal(js, &mo); err != nil {
		return nil, CodeBadRequest, err.Error()
	}
	key := mo.Metadata.Namespace + "/" + mo.Metadata.Name
	old, ok := k.objs[kind][key]
	if !ok {
		return nil, CodeNotFound, "NotFound"
	}
	if mo.Metadata.ResourceVersion != "" && mo.Metadata.ResourceVersion != strconv.FormatUint(old.RV, 10) {
		return nil, CodeConflict, "Conflict"
	}
	if mo.Metadata.UID != "" && mo.Metadata.UID != old.UID {
		return nil, CodeConflict, "Conflict"
	}
	k.rv++
	rv := k.rv
	out, err := setMeta(js, func(meta map[string]interface{}) {
		meta["uid"] = old.UID
		meta["resourceVersion"] = strconv.FormatUint(rv, 10)
	})
	if err != nil {
		return nil, CodeBadRequest, err.Error()
	}
	o := &Obj{Kind: kind, NS: old.NS, Name: old.Name, UID: old.UID, RV: rv, JSON: out, Labels: mo.Metadata.Labels}
	k.objs[kind][key] = o
	k.emit(Modified, kind, old, o)
	k.mutate(&Mutation{Verb: "update", Kind: kind, Old: old, New: o, By: by})
	return o, 0, ""
}

// Delete removes an object.
func (k *Kube) Delete(by *core.Task, kind, ns, name string) (int, string) {
	key := ns + "/" + name
	old, ok := k.objs[kind][key]
	if !ok {
		return CodeNotFound, "NotFound"
	}
	k.rv++
	delete(k.objs[kind], key)
	k.emit(Deleted, kind, old, nil)
	k.mutate(&Mutation{Verb: "delete", Kind: kind, Old: old, By: by})
	return 0, ""
}

// Patch applies f to the JSON of an existing object (used by the world's controllers, not by galaxy).
func (k *Kube) Patch(by *core.Task, kind, ns, name string, f func(m map[string]interface{})) (*Obj, int, string) {
	old := k.Get(kind, ns, name)
	if old == nil {
		return nil, CodeNotFound, "NotFound"
	}
	var m map[string]interface{}
	if err := json.Unmarshal(old.JSON, &m); err != nil {
		return nil, CodeInternal, err.Error()
	}
	f(m)
	meta := m["metadata"].(map[string]interface{})
	delete(meta, "resourceVersion")
	js, _ := json.Marshal(m)
	return k.Update(by, kind, js)
}

// PendingKinds returns the kinds that have undelivered events, sorted.
func (k *Kube) PendingKinds() []string {
	var out []string
	for kind, q := range k.queues {
		if len(q) > 0 {
			out = append(out, kind)
		}
	}
	sort.Strings(out)
	return out
}

// Pending returns the number of undelivered events of a kind.
func (k *Kube) Pending(kind string) int { return len(k.queues[kind]) }

// Peek returns the head of a kind's queue.
func (k *Kube) Peek(kind string) *Event {
	if q := k.queues[kind]; len(q) > 0 {
		return q[0]
	}
	return nil
}

// Deliver pops the head event of a kind and applies it to the view.
func (k *Kube) Deliver(kind string) *Event {
	q := k.queues[kind]
	if len(q) == 0 {
		return nil
	}
	ev := q[0]
	k.queues[kind] = q[1:]
	switch ev.Type {
	case Added, Modified:
		// the informer reports the previous *view* object as old
		ev.Old = k.views[kind][ev.Key]
		k.views[kind][ev.Key] = ev.New
		if ev.Old == nil {
			ev.Type = Added
		} else {
			ev.Type = Modified
		}
	case Deleted:
		ev.Old = k.views[kind][ev.Key]
		delete(k.views[kind], ev.Key)
	}
	return ev
}

// Relist models a dropped watch: pending events of the kind are discarded and the view is replaced by the
// truth. It returns the synthetic events a reflector would emit: updates/adds for changed objects and
// tombstone deletes for objects that vanished.
func (k *Kube) Relist(kind string) []*Event {
	k.queues[kind] = nil
	var evs []*Event
	view := k.views[kind]
	var keys []string
	for key := range view {
		keys = append(keys, key)
	}
	for key := range k.objs[kind] {
		if _, ok := view[key]; !ok {
			keys = append(keys, key)
		}
	}
	sort.Strings(keys)
	for _, key := range keys {
		old := view[key]
		nw := k.objs[kind][key]
		switch {
		case nw == nil:
			delete(view, key)
			evs = append(evs, &Event{Type: Deleted, Kind: kind, Key: key, Old: old, Tombstone: true, Step: k.S.Steps})
		case old == nil:
			view[key] = nw
			evs = append(evs, &Event{Type: Added, Kind: kind, Key: key, New: nw, Step: k.S.Steps})
		case old.RV != nw.RV:
			view[key] = nw
			evs = append(evs, &Event{Type: Modified, Kind: kind, Key: key, Old: old, New: nw, Step: k.S.Steps})
		}
	}
	return evs
}

// RelistQueue models a dropped watch followed by a relist: pending events of the kind are replaced by the
// synthetic events a reflector computes from the difference between its cache and the fresh list (deletes
// become tombstones). The view itself changes only when the events are delivered.
func (k *Kube) RelistQueue(kind string) int {
	view := k.views[kind]
	var keys []string
	for key := range view {
		keys = append(keys, key)
	}
	for key := range k.objs[kind] {
		if _, ok := view[key]; !ok {
			keys = append(keys, key)
		}
	}
	sort.Strings(keys)
	var evs []*Event
	for _, key := range keys {
		old := view[key]
		nw := k.objs[kind][key]
		k.evSeq++
		switch {
		case nw == nil:
			evs = append(evs, &Event{Type: Deleted, Kind: kind, Key: key, Old: old, Tombstone: true, Step: k.S.Steps, Seq: k.evSeq})
		case old == nil:
			evs = append(evs, &Event{Type: Added, Kind: kind, Key: key, New: nw, Step: k.S.Steps, Seq: k.evSeq})
		case old.RV != nw.RV:
			evs = append(evs, &Event{Type: Modified, Kind: kind, Key: key, Old: old, New: nw, Step: k.S.Steps, Seq: k.evSeq})
		}
	}
	k.queues[kind] = evs
	return len(evs)
}

// ---- request handling ------------------------------------------------------------------------------------

// IsAPI reports whether op is an API-server call (as opposed to a lister/view read).
func IsAPI(op string) bool { return strings.HasPrefix(op, "api.") }

// IsMutating reports whether the API call changes the store.
func IsMutating(op string) bool {
	switch op {
	case "api.create", "api.update", "api.delete", "api.bind":
		return true
	}
	return false
}

// Handle serves api.* and view.* requests. A: kind, ns, name.
func (k *Kube) Handle(t *core.Task, r *core.Req) core.Resp {
	arg := func(i int) string {
		if i < len(r.A) {
			return r.A[i]
		}
		return ""
	}
	switch r.Op {
	case "api.get":
		o := k.Get(arg(0), arg(1), arg(2))
		if o == nil {
			return core.Resp{Code: CodeNotFound, Msg: "NotFound"}
		}
		return core.Resp{B: o.JSON}
	case "api.list":
		return core.Resp{B: listJSON(k.List(arg(0), arg(1)))}
	case "api.create":
		o, code, msg := k.Create(t, arg(0), r.B)
		if code != 0 {
			return core.Resp{Code: code, Msg: msg}
		}
		return core.Resp{B: o.JSON}
	case "api.update":
		o, code, msg := k.Update(t, arg(0), r.B)
		if code != 0 {
			return core.Resp{Code: code, Msg: msg}
		}
		return core.Resp{B: o.JSON}
	case "api.delete":
		code, msg := k.Delete(t, arg(0), arg(1), arg(2))
		return core.Resp{Code: code, Msg: msg}
	case "api.bind":
		return k.bind(t, arg(1), arg(2), r.B)
	case "view.get":
		o := k.ViewGet(arg(0), arg(1), arg(2))
		if o == nil {
			return core.Resp{Code: CodeNotFound, Msg: "NotFound"}
		}
		return core.Resp{B: o.JSON}
	case "view.list":
		return core.Resp{B: listJSON(k.ViewList(arg(0), arg(1)))}
	}
	return core.Resp{Code: CodeBadRequest, Msg: "simkube: unknown op " + r.Op}
}

func listJSON(objs []*Obj) []byte {
	var sb strings.Builder
	sb.WriteByte('[')
	for i, o := range objs {
		if i > 0 {
			sb.WriteByte(',')
		}
		sb.Write(o.JSON)
	}
	sb.WriteByte(']')
	return []byte(sb.String())
}

type bindingJSON struct {
	Metadata struct {
		UID         string            `json:"uid"`
		Annotations map[string]string `json:"annotations"`
	} `json:"metadata"`
	Target struct {
		Kind string `json:"kind"`
		Name string `json:"name"`
	} `json:"target"`
}

// bind implements pods/binding create with the apiserver's semantics: NotFound when the pod is gone, Conflict
// on UID precondition mismatch or when the pod is already assigned; annotations are merged into the pod.
func (k *Kube) bind(t *core.Task, ns, name string, body []byte) core.Resp {
	var b bindingJSON
	if err := json.Unmarshal(body, &b); err != nil {
		return core.Resp{Code: CodeBadRequest, Msg: err.Error()}
	}
	old := k.Get("pods", ns, name)
	if old == nil {
		return core.Resp{Code: CodeNotFound, Msg: "NotFound"}
	}
	if b.Metadata.UID != "" && b.Metadata.UID != old.UID {
		return core.Resp{Code: CodeConflict, Msg: "Conflict"}
	}
	var m map[string]interface{}
	if err := json.Unmarshal(old.JSON, &m); err != nil {
		return core.Resp{Code: CodeInternal, Msg: err.Error()}
	}
	spec, _ := m["spec"].(map[string]interface{})
	if spec == nil {
		spec = map[string]interface{}{}
		m["spec"] = spec
	}
	if nn, _ := spec["nodeName"].(string); nn != "" {
		return core.Resp{Code: CodeConflict, Msg: "Conflict"}
	}
	if meta, _ := m["metadata"].(map[string]interface{}); meta != nil {
		if _, deleting := meta["deletionTimestamp"]; deleting {
			return core.Resp{Code: CodeConflict, Msg: "Conflict"}
		}
	}
	spec["nodeName"] = b.Target.Name
	meta := m["metadata"].(map[string]interface{})
	ann, _ := meta["annotations"].(map[string]interface{})
	if ann == nil {
		ann = map[string]interface{}{}
		meta["annotations"] = ann
	}
	for kk, v := range b.Metadata.Annotations {
		ann[kk] = v
	}
	delete(meta, "resourceVersion")
	js, _ := json.Marshal(m)
	// apply as an update, but report the verb "bind" to oracles
	saved := k.OnMutate
	k.OnMutate = nil
	o, code, msg := k.Update(t, "pods", js)
	k.OnMutate = saved
	if code != 0 {
		return core.Resp{Code: code, Msg: msg}
	}
	k.mutate(&Mutation{Verb: "bind", Kind: "pods", Old: old, New: o, By: t})
	return core.Resp{}
}
