// Package simwait is a drop-in for k8s.io/apimachinery/pkg/util/wait on the simulated clock. Only the
// functions galaxy uses are provided; anything else is a compile error in the simulated build (which the
// check reports as infrastructure trouble, never as a verdict).
package simwait

import (
	"time"

	"k8s.io/apimachinery/pkg/util/wait"
	"tkestack.io/galaxy/verifsim/core"
)

type (
	ConditionFunc = wait.ConditionFunc
	Backoff       = wait.Backoff
	Group         = wait.Group
)

var (
	ErrWaitTimeout     = wait.ErrWaitTimeout
	NeverStop          = wait.NeverStop
	ForeverTestTimeout = wait.ForeverTestTimeout
)

func stopped(stopCh <-chan struct{}) bool {
	if core.Dead() {
		return true
	}
	select {
	case <-stopCh:
		return true
	default:
		return false
	}
}

// Until loops until the stop channel is closed, running f every period.
func Until(f func(), period time.Duration, stopCh <-chan struct{}) {
	for {
		if stopped(stopCh) {
			return
		}
		f()
		if stopped(stopCh) {
			return
		}
		core.Sleep(period, true)
	}
}

// Forever calls f every period forever.
func Forever(f func(), period time.Duration) { Until(f, period, NeverStop) }

func poll(interval, timeout time.Duration, immediate bool, condition ConditionFunc, stopCh <-chan struct{}) error {
	start := core.ClockNanos()
	if immediate {
		done, err := condition()
		if err != nil {
			return err
		}
		if done {
			return nil
		}
	}
	for {
		if stopCh != nil && stopped(stopCh) {
			return ErrWaitTimeout
		}
		if core.Dead() {
			return ErrWaitTimeout
		}
		core.Sleep(interval, false)
		if timeout > 0 && core.ClockNanos()-start > int64(timeout) {
			// like the real poller: one tick may still be delivered before the timeout channel is noticed;
			// the simulator checks the condition one last time only if the deadline was not passed
			return ErrWaitTimeout
		}
		done, err := condition()
		if err != nil {
			return err
		}
		if done {
			return nil
		}
	}
}

// Poll tries a condition func until it returns true, an error, or the timeout is reached. It waits one
// interval before the first check.
func Poll(interval, timeout time.Duration, condition ConditionFunc) error {
	return poll(interval, timeout, false, condition, nil)
}

// PollImmediate is Poll with an immediate first check.
func PollImmediate(interval, timeout time.Duration, condition ConditionFunc) error {
	return poll(interval, timeout, true, condition, nil)
}

// PollInfinite polls forever.
func PollInfinite(interval time.Duration, condition ConditionFunc) error {
	return poll(interval, 0, false, condition, nil)
}

// PollImmediateInfinite polls forever with an immediate first check.
func PollImmediateInfinite(interval time.Duration, condition ConditionFunc) error {
	return poll(interval, 0, true, condition, nil)
}

// PollUntil polls until the stop channel is closed.
func PollUntil(interval time.Duration, condition ConditionFunc, stopCh <-chan struct{}) error {
	return poll(interval, 0, false, condition, stopCh)
}

// PollImmediateUntil polls until the stop channel is closed, with an immediate first check.
func PollImmediateUntil(interval time.Duration, condition ConditionFunc, stopCh <-chan struct{}) error {
	return poll(interval, 0, true, condition, stopCh)
}
