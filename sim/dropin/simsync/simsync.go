// Package simsync is a drop-in for "sync" inside the simulator: every lock acquisition is a scheduling
// point decided by the seeded scheduler. The real lock is still taken after the grant, so the Go memory
// model (and the race detector's view of the program's own synchronisation) is unchanged.
package simsync

import (
	"sync"

	"tkestack.io/galaxy/verifsim/core"
)

// Pass-through identifiers.
type (
	Locker = sync.Locker
	Map    = sync.Map
	Pool   = sync.Pool
	Cond   = sync.Cond
)

// NewCond is sync.NewCond (not simulated; galaxy does not use it).
var NewCond = sync.NewCond

// Mutex replaces sync.Mutex.
type Mutex struct {
	w  core.LockWord
	mu sync.Mutex
}

// Lock acquires the mutex.
func (m *Mutex) Lock() {
	if !core.InTask() {
		m.mu.Lock()
		return
	}
	if core.Acquire(&m.w, true) {
		m.mu.Lock()
	}
}

// Unlock releases the mutex.
func (m *Mutex) Unlock() {
	if !core.InTask() {
		m.mu.Unlock()
		return
	}
	if core.Release(&m.w, true) {
		m.mu.Unlock()
	}
}

// TryLock is not used by galaxy; provided for completeness (never blocks, never a scheduling point).
func (m *Mutex) TryLock() bool { panic("verifsim: Mutex.TryLock is not simulated") }

// RWMutex replaces sync.RWMutex.
type RWMutex struct {
	w  core.LockWord
	mu sync.RWMutex
}

// Lock takes the write lock.
func (m *RWMutex) Lock() {
	if !core.InTask() {
		m.mu.Lock()
		return
	}
	if core.Acquire(&m.w, true) {
		m.mu.Lock()
	}
}

// Unlock releases the write lock.
func (m *RWMutex) Unlock() {
	if !core.InTask() {
		m.mu.Unlock()
		return
	}
	if core.Release(&m.w, true) {
		m.mu.Unlock()
	}
}

// RLock takes a read lock.
func (m *RWMutex) RLock() {
	if !core.InTask() {
		m.mu.RLock()
		return
	}
	if core.Acquire(&m.w, false) {
		m.mu.RLock()
	}
}

// RUnlock releases a read lock.
func (m *RWMutex) RUnlock() {
	if !core.InTask() {
		m.mu.RUnlock()
		return
	}
	if core.Release(&m.w, false) {
		m.mu.RUnlock()
	}
}

// RLocker mirrors sync.RWMutex.RLocker.
func (m *RWMutex) RLocker() Locker { return (*rlocker)(m) }

type rlocker RWMutex

func (r *rlocker) Lock()   { (*RWMutex)(r).RLock() }
func (r *rlocker) Unlock() { (*RWMutex)(r).RUnlock() }

// WaitGroup replaces sync.WaitGroup: Wait polls cooperatively until the counter is zero and then performs the
// real Wait (which no longer blocks) for its happens-before edge.
type WaitGroup struct {
	wg sync.WaitGroup
	mu sync.Mutex
	n  int
}

// Add adds delta to the counter.
func (w *WaitGroup) Add(delta int) {
	w.mu.Lock()
	w.n += delta
	w.mu.Unlock()
	w.wg.Add(delta)
}

// Done decrements the counter.
func (w *WaitGroup) Done() { w.Add(-1) }

// Wait blocks until the counter is zero.
func (w *WaitGroup) Wait() {
	if !core.InTask() {
		w.wg.Wait()
		return
	}
	for {
		if core.Dead() {
			return
		}
		w.mu.Lock()
		n := w.n
		w.mu.Unlock()
		if n <= 0 {
			break
		}
		core.ChanWait()
	}
	w.wg.Wait()
}

// Once replaces sync.Once; a second caller waits (cooperatively) for the first one to finish.
type Once struct {
	m    Mutex
	done bool
}

// Do calls f if and only if Do is being called for the first time.
func (o *Once) Do(f func()) {
	o.m.Lock()
	defer o.m.Unlock()
	if !o.done {
		defer func() { o.done = true }()
		f()
	}
}
