// Package simioutil is a drop-in for "io/ioutil" in the galaxy packages whose files live in the simulated file
// system (see simos). ReadFile / WriteFile / ReadDir go to the simulated environment; ReadAll and friends are the
// real ones.
package simioutil

import (
	"io"
	"io/ioutil"
	"os"

	"tkestack.io/galaxy/verifsim/core"
	"tkestack.io/galaxy/verifsim/dropin/simos"
)

var (
	ReadAll = ioutil.ReadAll
	NopCloser = ioutil.NopCloser
	Discard = ioutil.Discard
)

// ReadFile reads a whole file.
func ReadFile(filename string) ([]byte, error) {
	if !core.InTask() {
		return ioutil.ReadFile(filename)
	}
	return simos.ReadFile(filename)
}

// WriteFile writes data to a file, creating or truncating it: open(O_WRONLY|O_CREATE|O_TRUNC), write, close —
// two scheduling points, so a crash or a fault can land between truncation and write, and a short write
// returns io.ErrShortWrite with a prefix on disk, as the real function does.
func WriteFile(filename string, data []byte, perm os.FileMode) error {
	if !core.InTask() {
		return ioutil.WriteFile(filename, data, perm)
	}
	if err := simos.Create(filename, perm); err != nil {
		return err
	}
	n, err := simos.Write(filename, data)
	if err == nil && n < len(data) {
		err = io.ErrShortWrite
	}
	return err
}

// ReadDir lists a directory sorted by file name.
func ReadDir(dirname string) ([]os.FileInfo, error) {
	if !core.InTask() {
		return ioutil.ReadDir(dirname)
	}
	return simos.ReadDirInfos(dirname)
}
