// Package simnetlink is a drop-in for github.com/vishvananda/netlink in pkg/gc: the host's network devices are
// a table of the simulated node (scheduler side: Links), listed and deleted through environment calls. Only what
// pkg/gc uses is provided.
package simnetlink

import (
	"fmt"
	"sort"
	"strings"
	"syscall"

	"github.com/vishvananda/netlink"
	"tkestack.io/galaxy/verifsim/core"
)

type (
	Link      = netlink.Link
	LinkAttrs = netlink.LinkAttrs
)

// LinkList returns the links of the simulated node, sorted by name (the kernel lists them by index; the order of
// creation is not something pkg/gc depends on).
func LinkList() ([]Link, error) {
	if !core.InTask() {
		return nil, nil
	}
	r := core.Call(core.Req{Op: "nl.linklist"})
	if r.Code != 0 {
		return nil, syscall.Errno(r.Code)
	}
	var out []Link
	for i := 0; i+2 <= len(r.A); i += 2 {
		out = append(out, &netlink.GenericLink{LinkAttrs: netlink.LinkAttrs{Name: r.A[i], Index: 10 + i/2}, LinkType: r.A[i+1]})
	}
	return out, nil
}

// LinkDel deletes a link of the simulated node.
func LinkDel(link Link) error {
	if !core.InTask() {
		return nil
	}
	r := core.Call(core.Req{Op: "nl.linkdel", A: []string{link.Attrs().Name}})
	if r.Code != 0 {
		if r.Code == core.CodeDead {
			return syscall.EINTR
		}
		return syscall.Errno(r.Code)
	}
	return nil
}

// ---- scheduler side -------------------------------------------------------------------------------------------

// Links is the node's table of network devices: name -> type ("veth", "bridge", ...). Owned by the world.
type Links struct {
	dev map[string]string
	// FaultHook, if set, is asked before a deletion by a task; a non-zero errno fails it.
	FaultHook func(t *core.Task, name string) int
	// ListFault, if set, is asked before a listing by a task; a non-zero errno fails it.
	ListFault func(t *core.Task) int
	// OnDelete observes a deletion by a task before it is applied.
	OnDelete func(t *core.Task, name, typ string)
}

// NewLinks returns an empty table.
func NewLinks() *Links { return &Links{dev: map[string]string{}} }

// Add creates a device.
func (l *Links) Add(name, typ string) { l.dev[name] = typ }

// Remove deletes a device (environment side, e.g. the plugin's DEL).
func (l *Links) Remove(name string) { delete(l.dev, name) }

// Names returns the device names, sorted.
func (l *Links) Names() []string {
	out := make([]string, 0, len(l.dev))
	for n := range l.dev {
		out = append(out, n)
	}
	sort.Strings(out)
	return out
}

// Type returns the type of a device ("" = no such device).
func (l *Links) Type(name string) string { return l.dev[name] }

// IsLinkOp reports whether op belongs to this package.
func IsLinkOp(op string) bool { return strings.HasPrefix(op, "nl.") }

// Handle serves nl.linklist and nl.linkdel.
func (l *Links) Handle(t *core.Task, r *core.Req) core.Resp {
	switch r.Op {
	case "nl.linklist":
		if l.ListFault != nil {
			if e := l.ListFault(t); e != 0 {
				return core.Resp{Code: e}
			}
		}
		var out []string
		for _, n := range l.Names() {
			out = append(out, n, l.dev[n])
		}
		return core.Resp{A: out}
	case "nl.linkdel":
		name := r.A[0]
		typ, ok := l.dev[name]
		if !ok {
			return core.Resp{Code: int(syscall.ENODEV)}
		}
		if l.FaultHook != nil {
			if e := l.FaultHook(t, name); e != 0 {
				return core.Resp{Code: e}
			}
		}
		if l.OnDelete != nil {
			l.OnDelete(t, name, typ)
		}
		delete(l.dev, name)
		return core.Resp{}
	}
	return core.Resp{Code: int(syscall.EINVAL), Msg: fmt.Sprintf("simnetlink: unknown op %s", r.Op)}
}
