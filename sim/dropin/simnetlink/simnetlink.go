// Package simnetlink is a drop-in for github.com/vishvananda/netlink in pkg/gc: the simulated node has no
// host veth devices, so the veth collector sees an empty link list. Only what pkg/gc uses is provided.
package simnetlink

import "github.com/vishvananda/netlink"

type (
	Link      = netlink.Link
	LinkAttrs = netlink.LinkAttrs
)

// LinkList returns the (empty) list of links of the simulated node.
func LinkList() ([]Link, error) { return nil, nil }

// LinkDel deletes a link; there is none.
func LinkDel(link Link) error { return nil }
