// Package simlog is a drop-in for k8s.io/klog (v1 surface, plus the two v2 structured calls galaxy uses).
// klog serialises every call behind one global mutex, which would order any two tasks that log and hide
// data races from the detector; this logger has no shared state. Arguments are still formatted (so the reads
// a real log call performs still happen) when the verbosity admits the message.
package simlog

import (
	"flag"
	"fmt"

	"tkestack.io/galaxy/verifsim/core"
)

// Level mirrors klog.Level.
type Level int32

// Verbose mirrors klog.Verbose (a bool in klog v1).
type Verbose bool

// Verbosity is the simulated -v flag; set once before a run starts.
var Verbosity Level = 3

// Sink, when non-nil, receives every formatted line (only set in trace mode; called on the task goroutine,
// it must hand the line to the scheduler through an environment call).
var Sink func(line string)

// FatalError is the panic value of Fatal/Fatalf (the real klog exits the process).
type FatalError struct{ Msg string }

func (f FatalError) Error() string { return "klog.Fatal: " + f.Msg }

func out(sev string, s string) {
	if Sink != nil && core.InTask() && !core.Dead() {
		Sink(sev + " " + s)
	}
}

func V(l Level) Verbose { return Verbose(l <= Verbosity) }

func (v Verbose) Info(args ...interface{}) {
	if v {
		out("I", fmt.Sprint(args...))
	}
}
func (v Verbose) Infoln(args ...interface{}) {
	if v {
		out("I", fmt.Sprintln(args...))
	}
}
func (v Verbose) Infof(format string, args ...interface{}) {
	if v {
		out("I", fmt.Sprintf(format, args...))
	}
}
func (v Verbose) Enabled() bool { return bool(v) }

func Info(args ...interface{})                    { out("I", fmt.Sprint(args...)) }
func Infoln(args ...interface{})                  { out("I", fmt.Sprintln(args...)) }
func Infof(format string, args ...interface{})    { out("I", fmt.Sprintf(format, args...)) }
func Warning(args ...interface{})                 { out("W", fmt.Sprint(args...)) }
func Warningln(args ...interface{})               { out("W", fmt.Sprintln(args...)) }
func Warningf(format string, args ...interface{}) { out("W", fmt.Sprintf(format, args...)) }
func Error(args ...interface{})                   { out("E", fmt.Sprint(args...)) }
func Errorln(args ...interface{})                 { out("E", fmt.Sprintln(args...)) }
func Errorf(format string, args ...interface{})   { out("E", fmt.Sprintf(format, args...)) }

func Fatal(args ...interface{}) {
	s := fmt.Sprint(args...)
	out("F", s)
	panic(FatalError{s})
}
func Fatalf(format string, args ...interface{}) {
	s := fmt.Sprintf(format, args...)
	out("F", s)
	panic(FatalError{s})
}
func Exit(args ...interface{})                 { Fatal(args...) }
func Exitf(format string, args ...interface{}) { Fatalf(format, args...) }

func InfoS(msg string, kv ...interface{})             { out("I", fmt.Sprint(append([]interface{}{msg}, kv...)...)) }
func ErrorS(err error, msg string, kv ...interface{}) { out("E", fmt.Sprint(append([]interface{}{err, msg}, kv...)...)) }

func Flush()                       {}
func InitFlags(fs *flag.FlagSet)   {}
