// Package simtime is a drop-in for "time" inside the simulator: Now/Since/Sleep use the simulated clock.
package simtime

import (
	"time"

	"tkestack.io/galaxy/verifsim/core"
)

type (
	Duration   = time.Duration
	Time       = time.Time
	Month      = time.Month
	Weekday    = time.Weekday
	Location   = time.Location
	ParseError = time.ParseError
)

const (
	Nanosecond  = time.Nanosecond
	Microsecond = time.Microsecond
	Millisecond = time.Millisecond
	Second      = time.Second
	Minute      = time.Minute
	Hour        = time.Hour

	ANSIC       = time.ANSIC
	UnixDate    = time.UnixDate
	RubyDate    = time.RubyDate
	RFC822      = time.RFC822
	RFC822Z     = time.RFC822Z
	RFC850      = time.RFC850
	RFC1123     = time.RFC1123
	RFC1123Z    = time.RFC1123Z
	RFC3339     = time.RFC3339
	RFC3339Nano = time.RFC3339Nano
	Kitchen     = time.Kitchen
	Stamp       = time.Stamp
	StampMilli  = time.StampMilli
	StampMicro  = time.StampMicro
	StampNano   = time.StampNano

	January  = time.January
	February = time.February
	March    = time.March
	April    = time.April
	May      = time.May
	June     = time.June
	July     = time.July
	August   = time.August
	September = time.September
	October  = time.October
	November = time.November
	December = time.December
)

var (
	UTC           = time.UTC
	Local         = time.UTC // the simulator has no local zone
	Unix          = time.Unix
	UnixMilli     = time.UnixMilli
	UnixMicro     = time.UnixMicro
	Date          = time.Date
	Parse         = time.Parse
	ParseDuration = time.ParseDuration
	ParseInLocation = time.ParseInLocation
	FixedZone     = time.FixedZone
	LoadLocation  = time.LoadLocation
)

// Now returns the simulated wall clock (strictly increasing).
func Now() Time {
	if !core.InTask() {
		return core.Epoch.Add(Duration(core.ClockNanos()))
	}
	return core.Now()
}

// Since returns the simulated time elapsed since t.
func Since(t Time) Duration { return Now().Sub(t) }

// Until returns the duration until t.
func Until(t Time) Duration { return t.Sub(Now()) }

// Sleep parks the task on the simulated clock.
func Sleep(d Duration) {
	if !core.InTask() {
		return
	}
	core.Sleep(d, false)
}
