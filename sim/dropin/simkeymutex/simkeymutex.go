// Package simkeymutex is a drop-in for k8s.io/utils/keymutex: the same fnv-32a hashed key mutex (so bucket
// collisions between unrelated keys are preserved) over simsync.Mutex, with lazily allocated buckets.
package simkeymutex

import (
	"hash/fnv"
	"runtime"

	"tkestack.io/galaxy/verifsim/dropin/simsync"
)

// KeyMutex is a thread-safe interface for acquiring locks on arbitrary strings.
type KeyMutex interface {
	LockKey(id string)
	UnlockKey(id string) error
}

type bucket struct {
	idx uint32
	m   *simsync.Mutex
}

type hashedKeyMutex struct {
	n       uint32
	buckets []bucket
}

// NewHashed returns a new instance of KeyMutex which hashes arbitrary keys to a fixed set of locks.
func NewHashed(n int) KeyMutex {
	if n <= 0 {
		n = runtime.NumCPU()
	}
	return &hashedKeyMutex{n: uint32(n)}
}

// get finds or creates the bucket. Only one task runs at a time; the table is touched by norace code only so
// that the harness adds no happens-before edge and no false race of its own.
//
//go:norace
func (km *hashedKeyMutex) get(idx uint32) *simsync.Mutex {
	for i := 0; i < len(km.buckets); i++ {
		if km.buckets[i].idx == idx {
			return km.buckets[i].m
		}
	}
	nb := make([]bucket, len(km.buckets)+1)
	for i := 0; i < len(km.buckets); i++ {
		nb[i] = km.buckets[i]
	}
	m := &simsync.Mutex{}
	nb[len(km.buckets)] = bucket{idx: idx, m: m}
	km.buckets = nb
	return m
}

func (km *hashedKeyMutex) hash(id string) uint32 {
	h := fnv.New32a()
	h.Write([]byte(id))
	return h.Sum32() % km.n
}

func (km *hashedKeyMutex) LockKey(id string) { km.get(km.hash(id)).Lock() }

func (km *hashedKeyMutex) UnlockKey(id string) error {
	km.get(km.hash(id)).Unlock()
	return nil
}
