// Package simhook holds the helpers that the source rewriter inserts into galaxy code.
package simhook

import (
	"fmt"
	"sort"
	"strconv"
	"time"

	"tkestack.io/galaxy/verifsim/core"
)

// Go replaces a go statement: the child is a simulator task.
func Go(fn func()) {
	if !core.InTask() {
		go fn()
		return
	}
	core.Go(fn)
}

// ChanWait is the default branch inserted into blocking selects.
func ChanWait() {
	if !core.InTask() {
		return
	}
	core.ChanWait()
}

// rotation asks the scheduler's choice stream for the index of the first element of an iteration.
func rotation(n int) int {
	if n <= 1 || !core.InTask() || core.Dead() {
		return 0
	}
	r := core.CallNow(core.Req{Op: "sim.choose", A: []string{strconv.Itoa(n)}})
	if r.Code != 0 {
		return 0
	}
	v, _ := strconv.Atoi(r.Msg)
	return v % n
}

// Entry is one map entry.
type Entry[K comparable, V any] struct {
	K K
	V V
}

func sortKeys[K comparable](ks []K) {
	switch s := any(ks).(type) {
	case []string:
		sort.Strings(s)
	case []int:
		sort.Ints(s)
	default:
		sort.Slice(ks, func(i, j int) bool {
			a, b := any(ks[i]), any(ks[j])
			switch x := a.(type) {
			case int32:
				return x < b.(int32)
			case int64:
				return x < b.(int64)
			case uint32:
				return x < b.(uint32)
			case uint64:
				return x < b.(uint64)
			case uint16:
				return x < b.(uint16)
			case uint8:
				return x < b.(uint8)
			case uint:
				return x < b.(uint)
			}
			return fmt.Sprintf("%v", a) < fmt.Sprintf("%v", b)
		})
	}
}

// Keys returns the keys of m in a deterministic order chosen by the scheduler's choice stream: sorted, then
// rotated so that any key can come first (Go randomises the starting point of a map iteration).
func Keys[M ~map[K]V, K comparable, V any](m M) []K {
	ks := make([]K, 0, len(m))
	for k := range m {
		ks = append(ks, k)
	}
	sortKeys(ks)
	if r := rotation(len(ks)); r > 0 {
		out := make([]K, 0, len(ks))
		out = append(out, ks[r:]...)
		out = append(out, ks[:r]...)
		return out
	}
	return ks
}

// Entries is Keys for range expressions that must be evaluated only once.
func Entries[M ~map[K]V, K comparable, V any](m M) []Entry[K, V] {
	ks := Keys(m)
	out := make([]Entry[K, V], len(ks))
	for i, k := range ks {
		out[i] = Entry[K, V]{k, m[k]}
	}
	return out
}

// Rotate reorders an already sorted slice the way Keys does (used for UnsortedList and friends).
func Rotate[T any](s []T) []T {
	if r := rotation(len(s)); r > 0 {
		out := make([]T, 0, len(s))
		out = append(out, s[r:]...)
		out = append(out, s[:r]...)
		return out
	}
	return s
}

// WaitForCacheSync replaces client-go's cache.WaitForCacheSync (which polls on the real clock): it polls the given
// HasSynced functions on the simulated clock until all report true or stopCh is closed.
func WaitForCacheSync(stopCh <-chan struct{}, cacheSyncs ...func() bool) bool {
	for {
		select {
		case <-stopCh:
			return false
		default:
		}
		all := true
		for _, f := range cacheSyncs {
			if !f() {
				all = false
				break
			}
		}
		if all {
			return true
		}
		if !core.InTask() {
			time.Sleep(100 * time.Millisecond)
			continue
		}
		core.Sleep(100*time.Millisecond, false)
	}
}
