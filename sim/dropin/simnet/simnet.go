// Package simnet is a drop-in for "net" in pkg/network/portmapping: listening sockets are entries of the
// simulated node's port table (scheduler side: Table), which also holds ports bound by foreign processes and
// hands out ephemeral ports for port 0 from the choice stream. Only what portmapping uses is provided.
package simnet

import (
	"fmt"
	"net"
	"sort"
	"strconv"
	"strings"
	"syscall"

	"tkestack.io/galaxy/verifsim/core"
)

type (
	TCPAddr  = net.TCPAddr
	UDPAddr  = net.UDPAddr
	Addr     = net.Addr
	Listener = net.Listener
	Conn     = net.Conn
	IP       = net.IP
	OpError  = net.OpError
)

var (
	ResolveUDPAddr = net.ResolveUDPAddr
	ResolveTCPAddr = net.ResolveTCPAddr
	ParseIP        = net.ParseIP
)

func listen(proto string, port int) (int, string, error) {
	r := core.Call(core.Req{Op: "net.listen", A: []string{proto, strconv.Itoa(port)}})
	if r.Code != 0 {
		errno := syscall.Errno(r.Code)
		if r.Code == core.CodeDead {
			errno = syscall.EBADF
		}
		return 0, "", &net.OpError{Op: "listen", Net: proto, Addr: &net.TCPAddr{Port: port}, Err: &osSyscallError{"bind", errno}}
	}
	p, _ := strconv.Atoi(r.Msg)
	id := ""
	if len(r.A) > 0 {
		id = r.A[0]
	}
	return p, id, nil
}

type osSyscallError struct {
	call string
	err  syscall.Errno
}

func (e *osSyscallError) Error() string { return e.call + ": " + e.err.Error() }
func (e *osSyscallError) Unwrap() error { return e.err }

func closeSock(id string) error {
	r := core.Call(core.Req{Op: "net.close", A: []string{id}})
	if r.Code != 0 && r.Code != core.CodeDead {
		return fmt.Errorf("close %s: use of closed network connection", id)
	}
	return nil
}

// tcpListener is a bound, listening TCP socket of the simulated node.
type tcpListener struct {
	id   string
	addr *net.TCPAddr
}

func (l *tcpListener) Accept() (net.Conn, error) { return nil, fmt.Errorf("simnet: accept is not simulated") }
func (l *tcpListener) Close() error              { return closeSock(l.id) }
func (l *tcpListener) Addr() net.Addr            { return l.addr }

func portOf(address string) (int, error) {
	i := strings.LastIndex(address, ":")
	if i < 0 {
		return 0, fmt.Errorf("listen: address %s: missing port in address", address)
	}
	return strconv.Atoi(address[i+1:])
}

// Listen announces on a local TCP port ("tcp", ":<port>"); port 0 asks for an ephemeral one.
func Listen(network, address string) (net.Listener, error) {
	if network != "tcp" && network != "tcp4" {
		return nil, fmt.Errorf("simnet: network %q is not simulated", network)
	}
	port, err := portOf(address)
	if err != nil {
		return nil, err
	}
	p, id, err := listen("tcp", port)
	if err != nil {
		return nil, err
	}
	return &tcpListener{id: id, addr: &net.TCPAddr{IP: net.IPv4zero, Port: p}}, nil
}

// UDPConn is a bound UDP socket of the simulated node.
type UDPConn struct {
	id   string
	addr *net.UDPAddr
}

func (c *UDPConn) Close() error        { return closeSock(c.id) }
func (c *UDPConn) LocalAddr() net.Addr { return c.addr }

// ListenUDP binds a local UDP port.
func ListenUDP(network string, laddr *net.UDPAddr) (*UDPConn, error) {
	port := 0
	if laddr != nil {
		port = laddr.Port
	}
	p, id, err := listen("udp", port)
	if err != nil {
		return nil, err
	}
	return &UDPConn{id: id, addr: &net.UDPAddr{IP: net.IPv4zero, Port: p}}, nil
}

// ---- scheduler side -------------------------------------------------------------------------------------------

// Socket is one bound port.
type Socket struct {
	ID     string
	Proto  string
	Port   int
	Proc   int    // owning process incarnation (0 = foreign process)
	Opener string // label of the request that opened it (set by the world)
	Step   int
}

// Table is the node's table of bound ports. Owned by the world.
type Table struct {
	S       *core.Sim
	socks   map[string]*Socket // id -> socket
	byPort  map[string]*Socket // proto/port -> socket
	seq     int
	EphLo   int // ephemeral range (ip_local_port_range)
	EphHi   int
	// CurOpener is set by the world before it passes a request to Handle.
	CurOpener string
	OnOpen    func(s *Socket)
	OnClose   func(s *Socket, t *core.Task)
}

// NewTable returns an empty port table with the given ephemeral range.
func NewTable(s *core.Sim, lo, hi int) *Table {
	return &Table{S: s, socks: map[string]*Socket{}, byPort: map[string]*Socket{}, EphLo: lo, EphHi: hi}
}

func key(proto string, port int) string { return proto + "/" + strconv.Itoa(port) }

// Bound returns the socket bound to proto/port, or nil.
func (tb *Table) Bound(proto string, port int) *Socket { return tb.byPort[key(proto, port)] }

// BindForeign binds a port for a process outside galaxy; false if it is taken.
func (tb *Table) BindForeign(proto string, port int) bool {
	if tb.byPort[key(proto, port)] != nil {
		return false
	}
	tb.seq++
	s := &Socket{ID: "f" + strconv.Itoa(tb.seq), Proto: proto, Port: port, Opener: "foreign"}
	tb.socks[s.ID] = s
	tb.byPort[key(proto, port)] = s
	return true
}

// ReleaseForeign closes a foreign socket.
func (tb *Table) ReleaseForeign(proto string, port int) {
	if s := tb.byPort[key(proto, port)]; s != nil && s.Proc == 0 {
		delete(tb.socks, s.ID)
		delete(tb.byPort, key(proto, port))
	}
}

// DropProc closes every socket of a process (it died).
func (tb *Table) DropProc(proc int) int {
	n := 0
	for _, s := range tb.Sockets() {
		if s.Proc == proc {
			delete(tb.socks, s.ID)
			delete(tb.byPort, key(s.Proto, s.Port))
			n++
		}
	}
	return n
}

// Sockets lists the bound sockets sorted by protocol and port.
func (tb *Table) Sockets() []*Socket {
	out := make([]*Socket, 0, len(tb.socks))
	for _, s := range tb.socks {
		out = append(out, s)
	}
	sort.Slice(out, func(i, j int) bool {
		if out[i].Proto != out[j].Proto {
			return out[i].Proto < out[j].Proto
		}
		return out[i].Port < out[j].Port
	})
	return out
}

// IsNetOp reports whether op belongs to this package.
func IsNetOp(op string) bool { return strings.HasPrefix(op, "net.") }

// Handle serves net.listen and net.close.
func (tb *Table) Handle(t *core.Task, r *core.Req) core.Resp {
	switch r.Op {
	case "net.listen":
		proto := r.A[0]
		port, _ := strconv.Atoi(r.A[1])
		if port < 0 || port > 65535 {
			return core.Resp{Code: int(syscall.EINVAL)}
		}
		if port == 0 {
			// kernel-style ephemeral allocation: any free port of the range; which one is the choice stream's
			var free []int
			for p := tb.EphLo; p <= tb.EphHi; p++ {
				if tb.byPort[key(proto, p)] == nil {
					free = append(free, p)
				}
			}
			if len(free) == 0 {
				return core.Resp{Code: int(syscall.EADDRINUSE)}
			}
			port = free[tb.S.C.Choose(len(free))]
		} else if tb.byPort[key(proto, port)] != nil {
			return core.Resp{Code: int(syscall.EADDRINUSE)}
		}
		tb.seq++
		s := &Socket{ID: "s" + strconv.Itoa(tb.seq), Proto: proto, Port: port, Proc: t.Proc, Opener: tb.CurOpener, Step: tb.S.Steps}
		tb.socks[s.ID] = s
		tb.byPort[key(proto, port)] = s
		if tb.OnOpen != nil {
			tb.OnOpen(s)
		}
		return core.Resp{Msg: strconv.Itoa(port), A: []string{s.ID}}
	case "net.close":
		s := tb.socks[r.A[0]]
		if s == nil {
			return core.Resp{Code: int(syscall.EBADF)}
		}
		delete(tb.socks, s.ID)
		delete(tb.byPort, key(s.Proto, s.Port))
		if tb.OnClose != nil {
			tb.OnClose(s, t)
		}
		return core.Resp{}
	}
	return core.Resp{Code: int(syscall.EINVAL), Msg: "simnet: unknown op " + r.Op}
}
