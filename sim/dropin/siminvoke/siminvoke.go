// Package siminvoke is a drop-in for github.com/containernetworking/cni/pkg/invoke in pkg/api/cniutil: plugin
// binaries are not executed; the simulated environment is the plugin runtime. Every invocation is handed to
// the world as one environment call carrying what a real plugin process would have seen: CNI_COMMAND,
// CNI_CONTAINERID, CNI_NETNS, CNI_IFNAME, CNI_ARGS, CNI_PATH, the path of the binary, and the stdin
// configuration. The world records it and answers with the plugin's stdout or a failure, scripted per
// (container, network, attempt). The reply is decoded exactly as the real ExecPluginWithResult does.
package siminvoke

import (
	"context"
	"fmt"
	"strconv"

	"github.com/containernetworking/cni/pkg/invoke"
	"github.com/containernetworking/cni/pkg/types"
	"github.com/containernetworking/cni/pkg/version"
	"tkestack.io/galaxy/verifsim/core"
)

type (
	Args         = invoke.Args
	CNIArgs      = invoke.CNIArgs
	DefaultExec  = invoke.DefaultExec
	RawExec      = invoke.RawExec
	Exec         = invoke.Exec
	DelegateArgs = invoke.DelegateArgs
)

// FindInPath asks the simulated node which of the paths holds the plugin binary.
func FindInPath(plugin string, paths []string) (string, error) {
	if plugin == "" {
		return "", fmt.Errorf("no plugin name provided")
	}
	if len(paths) == 0 {
		return "", fmt.Errorf("no paths provided")
	}
	r := core.Call(core.Req{Op: "cni.find", A: append([]string{plugin}, paths...)})
	if r.Code != 0 {
		return "", fmt.Errorf("failed to find plugin %q in path %s", plugin, paths)
	}
	return r.Msg, nil
}

func exec(pluginPath string, netconf []byte, args CNIArgs) ([]byte, error) {
	a, ok := args.(*invoke.Args)
	if !ok {
		return nil, fmt.Errorf("siminvoke: unsupported CNIArgs implementation %T", args)
	}
	pluginArgs := a.PluginArgsStr
	if pluginArgs == "" {
		for i, kv := range a.PluginArgs {
			if i > 0 {
				pluginArgs += ";"
			}
			pluginArgs += kv[0] + "=" + kv[1]
		}
	}
	r := core.Call(core.Req{Op: "cni.exec", A: []string{a.Command, a.ContainerID, a.NetNS, a.IfName, pluginArgs, a.Path, pluginPath}, B: netconf})
	if r.Code != 0 {
		// a failing plugin prints a types.Error on stdout; RawExec returns it as the error
		code, _ := strconv.Atoi(r.Msg)
		msg := "simulated plugin failure"
		if len(r.A) > 0 {
			msg = r.A[0]
		}
		return nil, &types.Error{Code: uint(code), Msg: msg}
	}
	return r.B, nil
}

// ExecPluginWithResult runs the plugin and decodes its result in the version of the configuration.
func ExecPluginWithResult(ctx context.Context, pluginPath string, netconf []byte, args CNIArgs, _ Exec) (types.Result, error) {
	stdoutBytes, err := exec(pluginPath, netconf, args)
	if err != nil {
		return nil, err
	}
	versionDecoder := &version.ConfigDecoder{}
	confVersion, err := versionDecoder.Decode(netconf)
	if err != nil {
		return nil, err
	}
	return version.NewResult(confVersion, stdoutBytes)
}

// ExecPluginWithoutResult runs the plugin and discards its output.
func ExecPluginWithoutResult(ctx context.Context, pluginPath string, netconf []byte, args CNIArgs, _ Exec) error {
	_, err := exec(pluginPath, netconf, args)
	return err
}
