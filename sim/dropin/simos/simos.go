// Package simos is a drop-in for "os" in the galaxy packages that touch per-container state files
// (pkg/api/cniutil, pkg/api/k8s, pkg/gc, pkg/galaxy, pkg/api/docker). File-system calls, Getenv and Hostname
// are served by the simulated environment (see fs.go for the scheduler-side state); everything else that
// galaxy uses is passed through to the real package.
//
// Task side only in this file: every function is a core.Call (a scheduling point), the reply is converted to
// the *os.PathError a real kernel would have produced, so os.IsNotExist / os.IsExist keep working.
package simos

import (
	"os"
	"strconv"
	"syscall"

	"tkestack.io/galaxy/verifsim/core"
)

type (
	FileMode  = os.FileMode
	FileInfo  = os.FileInfo
	PathError = os.PathError
	File      = os.File
)

var (
	Stderr     = os.Stderr
	Stdout     = os.Stdout
	IsNotExist = os.IsNotExist
	IsExist    = os.IsExist
	ErrNotExist = os.ErrNotExist
	ErrExist    = os.ErrExist
)

const (
	ModeDir  = os.ModeDir
	ModePerm = os.ModePerm
)

// Error codes of the simulated file system are errno values.
const (
	ENOENT    = int(syscall.ENOENT)
	EIO       = int(syscall.EIO)
	EEXIST    = int(syscall.EEXIST)
	ENOTDIR   = int(syscall.ENOTDIR)
	EISDIR    = int(syscall.EISDIR)
	ENOSPC    = int(syscall.ENOSPC)
	ENOTEMPTY = int(syscall.ENOTEMPTY)
	EACCES    = int(syscall.EACCES)
)

// ToErr converts a reply of the simulated file system into the error the os package returns.
func ToErr(op, path string, r core.Resp) error {
	if r.Code == 0 {
		return nil
	}
	if r.Code == core.CodeDead {
		return &os.PathError{Op: op, Path: path, Err: syscall.EIO}
	}
	return &os.PathError{Op: op, Path: path, Err: syscall.Errno(r.Code)}
}

// MkdirAll creates a directory and its parents.
func MkdirAll(path string, perm FileMode) error {
	if !core.InTask() {
		return os.MkdirAll(path, perm)
	}
	return ToErr("mkdir", path, core.Call(core.Req{Op: "fs.mkdirall", A: []string{path, strconv.Itoa(int(perm))}}))
}

// Remove removes a file or an empty directory.
func Remove(path string) error {
	if !core.InTask() {
		return os.Remove(path)
	}
	return ToErr("remove", path, core.Call(core.Req{Op: "fs.remove", A: []string{path}}))
}

// Chmod changes the mode of a file.
func Chmod(path string, mode FileMode) error {
	if !core.InTask() {
		return os.Chmod(path, mode)
	}
	return ToErr("chmod", path, core.Call(core.Req{Op: "fs.chmod", A: []string{path, strconv.Itoa(int(mode))}}))
}

// Stat returns the FileInfo of a path.
func Stat(path string) (FileInfo, error) {
	if !core.InTask() {
		return os.Stat(path)
	}
	r := core.Call(core.Req{Op: "fs.stat", A: []string{path}})
	if err := ToErr("stat", path, r); err != nil {
		return nil, err
	}
	return DecodeInfo(r.A), nil
}

// Getenv reads the simulated process environment (CONTAINERD_HOST, MY_NODE_NAME, ...).
func Getenv(key string) string {
	if !core.InTask() {
		return os.Getenv(key)
	}
	r := core.Call(core.Req{Op: "os.getenv", A: []string{key}})
	if r.Code != 0 {
		return ""
	}
	return r.Msg
}

// Hostname is the simulated node's host name.
func Hostname() (string, error) {
	if !core.InTask() {
		return os.Hostname()
	}
	r := core.Call(core.Req{Op: "os.hostname"})
	if r.Code != 0 {
		return "", &os.SyscallError{Syscall: "uname", Err: syscall.EIO}
	}
	return r.Msg, nil
}

// Create opens (creating or truncating) a file of the simulated file system for writing. It is the first
// half of ioutil.WriteFile: a process killed between Create and Write leaves an empty file behind, exactly
// as with open(O_TRUNC) followed by write on a real kernel.
func Create(path string, perm FileMode) error {
	return ToErr("open", path, core.Call(core.Req{Op: "fs.create", A: []string{path, strconv.Itoa(int(perm))}}))
}

// Write appends data to a file opened with Create and returns the number of bytes the kernel took.
func Write(path string, data []byte) (int, error) {
	r := core.Call(core.Req{Op: "fs.write", A: []string{path}, B: data})
	n, _ := strconv.Atoi(r.Msg)
	if r.Code != 0 {
		return n, ToErr("write", path, r)
	}
	return n, nil
}

// ReadFile returns the content of a file.
func ReadFile(path string) ([]byte, error) {
	if !core.InTask() {
		return os.ReadFile(path)
	}
	r := core.Call(core.Req{Op: "fs.readfile", A: []string{path}})
	if err := ToErr("open", path, r); err != nil {
		return nil, err
	}
	return r.B, nil
}

// ReadDirInfos lists a directory, sorted by name (as ioutil.ReadDir does).
func ReadDirInfos(path string) ([]FileInfo, error) {
	r := core.Call(core.Req{Op: "fs.readdir", A: []string{path}})
	if err := ToErr("open", path, r); err != nil {
		return nil, err
	}
	var out []FileInfo
	for i := 0; i+3 <= len(r.A); i += 3 {
		out = append(out, DecodeInfo(r.A[i:i+3]))
	}
	return out, nil
}
