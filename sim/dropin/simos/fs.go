package simos

// Scheduler side: the in-memory file system. An FS value is owned by the world (scheduler goroutine) and is
// never touched by a task; tasks reach it through the fs.* operations of simos.go / simioutil.
//
// Crash semantics: the file system is the node's, not the process's. Killing the simulated daemon keeps every
// byte that a completed write call put there (page cache survives a process), and loses exactly what had not
// been written yet: WriteFile is Create (truncate) + Write, both scheduling points, so a crash between them
// leaves an empty file and a short write leaves a prefix.

import (
	"os"
	"sort"
	"strconv"
	"strings"
	"time"

	"tkestack.io/galaxy/verifsim/core"
)

type node struct {
	dir  bool
	data []byte
	mode os.FileMode
}

// Fault is what the world's fault hook answers for one operation.
type Fault struct {
	Errno int // != 0: fail with this errno, nothing applied
	Short int // fs.write only: >= 0 means only this many bytes are taken (and io.ErrShortWrite results); -1 = no short write
}

// FS is an in-memory file system.
type FS struct {
	nodes map[string]*node
	// FaultHook, if set, is asked before every operation of a task.
	FaultHook func(t *core.Task, op, path string, size int) Fault
	// OnMutate, if set, observes every applied mutation (op is "create", "write", "remove", "mkdir").
	OnMutate func(t *core.Task, op, path string)
	Env      map[string]string
	Host     string
}

// NewFS returns a file system that holds only "/".
func NewFS() *FS {
	return &FS{nodes: map[string]*node{"/": {dir: true, mode: 0o755}}, Env: map[string]string{}, Host: "node1"}
}

func clean(p string) string {
	if p == "" {
		return "/"
	}
	parts := strings.Split(p, "/")
	var out []string
	for _, s := range parts {
		switch s {
		case "", ".":
		case "..":
			if len(out) > 0 {
				out = out[:len(out)-1]
			}
		default:
			out = append(out, s)
		}
	}
	return "/" + strings.Join(out, "/")
}

func parent(p string) string {
	i := strings.LastIndex(p, "/")
	if i <= 0 {
		return "/"
	}
	return p[:i]
}

func base(p string) string { return p[strings.LastIndex(p, "/")+1:] }

// ---- direct access for the world (no faults, no scheduling) -------------------------------------------------

// Mkdir creates a directory and its parents.
func (f *FS) Mkdir(p string) {
	p = clean(p)
	if p == "/" {
		return
	}
	f.Mkdir(parent(p))
	if f.nodes[p] == nil {
		f.nodes[p] = &node{dir: true, mode: 0o755}
	}
}

// Put writes a file, creating parent directories.
func (f *FS) Put(p string, data []byte) {
	p = clean(p)
	f.Mkdir(parent(p))
	f.nodes[p] = &node{data: append([]byte(nil), data...), mode: 0o600}
}

// Get returns a file's content.
func (f *FS) Get(p string) ([]byte, bool) {
	n := f.nodes[clean(p)]
	if n == nil || n.dir {
		return nil, false
	}
	return n.data, true
}

// Exists reports whether a path exists.
func (f *FS) Exists(p string) bool { return f.nodes[clean(p)] != nil }

// IsDir reports whether a path is a directory.
func (f *FS) IsDir(p string) bool { n := f.nodes[clean(p)]; return n != nil && n.dir }

// Delete removes a path (and, for a directory, everything below it).
func (f *FS) Delete(p string) {
	p = clean(p)
	for _, k := range f.Paths() {
		if k == p || strings.HasPrefix(k, p+"/") {
			delete(f.nodes, k)
		}
	}
}

// Paths returns every path, sorted.
func (f *FS) Paths() []string {
	out := make([]string, 0, len(f.nodes))
	for k := range f.nodes {
		out = append(out, k)
	}
	sort.Strings(out)
	return out
}

// List returns the names directly below dir, sorted.
func (f *FS) List(dir string) []string {
	dir = clean(dir)
	var out []string
	for _, k := range f.Paths() {
		if k != "/" && parent(k) == dir {
			out = append(out, base(k))
		}
	}
	return out
}

// Dump is a deterministic digest of the whole tree (for state signatures and traces).
func (f *FS) Dump() string {
	var sb strings.Builder
	for _, k := range f.Paths() {
		n := f.nodes[k]
		if n.dir {
			sb.WriteString(k + "/\n")
		} else {
			sb.WriteString(k + " " + strconv.Itoa(len(n.data)) + "\n")
		}
	}
	return sb.String()
}

// ---- request handling ------------------------------------------------------------------------------------------

// IsFSOp reports whether op belongs to this package.
func IsFSOp(op string) bool { return strings.HasPrefix(op, "fs.") || strings.HasPrefix(op, "os.") }

func (f *FS) mutated(t *core.Task, op, p string) {
	if f.OnMutate != nil {
		f.OnMutate(t, op, p)
	}
}

func infoStrings(name string, n *node) []string {
	d := "f"
	if n.dir {
		d = "d"
	}
	return []string{name, d, strconv.Itoa(len(n.data))}
}

// Handle serves fs.* and os.* requests.
func (f *FS) Handle(t *core.Task, r *core.Req) core.Resp {
	arg := func(i int) string {
		if i < len(r.A) {
			return r.A[i]
		}
		return ""
	}
	switch r.Op {
	case "os.getenv":
		return core.Resp{Msg: f.Env[arg(0)]}
	case "os.hostname":
		return core.Resp{Msg: f.Host}
	}
	p := clean(arg(0))
	var fault Fault
	fault.Short = -1
	if f.FaultHook != nil {
		fault = f.FaultHook(t, r.Op, p, len(r.B))
	}
	if fault.Errno != 0 {
		return core.Resp{Code: fault.Errno, Msg: "0"}
	}
	n := f.nodes[p]
	switch r.Op {
	case "fs.mkdirall":
		// every existing component must be a directory
		for q := p; ; q = parent(q) {
			if x := f.nodes[q]; x != nil && !x.dir {
				return core.Resp{Code: ENOTDIR}
			}
			if q == "/" {
				break
			}
		}
		if n == nil {
			f.Mkdir(p)
			f.mutated(t, "mkdir", p)
		}
		return core.Resp{}
	case "fs.remove":
		if n == nil {
			return core.Resp{Code: ENOENT}
		}
		if n.dir && len(f.List(p)) > 0 {
			return core.Resp{Code: ENOTEMPTY}
		}
		if p == "/" {
			return core.Resp{Code: EACCES}
		}
		delete(f.nodes, p)
		f.mutated(t, "remove", p)
		return core.Resp{}
	case "fs.chmod":
		if n == nil {
			return core.Resp{Code: ENOENT}
		}
		m, _ := strconv.Atoi(arg(1))
		n.mode = os.FileMode(m)
		return core.Resp{}
	case "fs.stat":
		if n == nil {
			return core.Resp{Code: ENOENT}
		}
		return core.Resp{A: infoStrings(base(p), n)}
	case "fs.readfile":
		if n == nil {
			return core.Resp{Code: ENOENT}
		}
		if n.dir {
			return core.Resp{Code: EISDIR}
		}
		return core.Resp{B: n.data}
	case "fs.readdir":
		if n == nil {
			return core.Resp{Code: ENOENT}
		}
		if !n.dir {
			return core.Resp{Code: ENOTDIR}
		}
		var out []string
		for _, name := range f.List(p) {
			out = append(out, infoStrings(name, f.nodes[clean(p+"/"+name)])...)
		}
		return core.Resp{A: out}
	case "fs.create":
		if n != nil && n.dir {
			return core.Resp{Code: EISDIR}
		}
		if pn := f.nodes[parent(p)]; pn == nil {
			return core.Resp{Code: ENOENT}
		} else if !pn.dir {
			return core.Resp{Code: ENOTDIR}
		}
		m, _ := strconv.Atoi(arg(1))
		if n == nil {
			f.nodes[p] = &node{mode: os.FileMode(m)}
		} else {
			n.data = nil
		}
		f.mutated(t, "create", p)
		return core.Resp{}
	case "fs.write":
		if n == nil {
			return core.Resp{Code: ENOENT, Msg: "0"}
		}
		if n.dir {
			return core.Resp{Code: EISDIR, Msg: "0"}
		}
		data := r.B
		if fault.Short >= 0 && fault.Short < len(data) {
			data = data[:fault.Short]
		}
		n.data = append(n.data, data...)
		f.mutated(t, "write", p)
		return core.Resp{Msg: strconv.Itoa(len(data))}
	}
	return core.Resp{Code: EIO, Msg: "simos: unknown op " + r.Op}
}

// ---- FileInfo ------------------------------------------------------------------------------------------------------

type fileInfo struct {
	name string
	dir  bool
	size int64
}

func (i fileInfo) Name() string { return i.name }
func (i fileInfo) Size() int64  { return i.size }
func (i fileInfo) Mode() os.FileMode {
	if i.dir {
		return os.ModeDir | 0o755
	}
	return 0o600
}
func (i fileInfo) ModTime() time.Time { return core.Epoch }
func (i fileInfo) IsDir() bool        { return i.dir }
func (i fileInfo) Sys() interface{}   { return nil }

// DecodeInfo turns the wire form (name, "d"/"f", size) into a FileInfo.
func DecodeInfo(a []string) FileInfo {
	if len(a) < 3 {
		return fileInfo{}
	}
	sz, _ := strconv.Atoi(a[2])
	return fileInfo{name: a[0], dir: a[1] == "d", size: int64(sz)}
}
