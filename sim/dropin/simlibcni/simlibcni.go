// Package simlibcni is a drop-in for github.com/containernetworking/cni/libcni in pkg/api/cniutil: the three
// functions that read the network configuration directory read the simulated file system; their bodies are the
// upstream ones (cni v0.8.0 libcni/conf.go) with os/ioutil replaced. Everything else is the real package.
package simlibcni

import (
	"fmt"
	"path/filepath"

	"github.com/containernetworking/cni/libcni"
	"tkestack.io/galaxy/verifsim/dropin/simioutil"
	"tkestack.io/galaxy/verifsim/dropin/simos"
)

type (
	NetworkConfig     = libcni.NetworkConfig
	NetworkConfigList = libcni.NetworkConfigList
	RuntimeConf       = libcni.RuntimeConf
	CNIConfig         = libcni.CNIConfig
)

var (
	ConfFromBytes     = libcni.ConfFromBytes
	ConfListFromBytes = libcni.ConfListFromBytes
)

func ConfFromFile(filename string) (*NetworkConfig, error) {
	bytes, err := simioutil.ReadFile(filename)
	if err != nil {
		return nil, fmt.Errorf("error reading %s: %s", filename, err)
	}
	return ConfFromBytes(bytes)
}

func ConfListFromFile(filename string) (*NetworkConfigList, error) {
	bytes, err := simioutil.ReadFile(filename)
	if err != nil {
		return nil, fmt.Errorf("error reading %s: %s", filename, err)
	}
	return ConfListFromBytes(bytes)
}

func ConfFiles(dir string, extensions []string) ([]string, error) {
	files, err := simioutil.ReadDir(dir)
	switch {
	case err == nil: // break
	case simos.IsNotExist(err):
		return nil, nil
	default:
		return nil, err
	}

	confFiles := []string{}
	for _, f := range files {
		if f.IsDir() {
			continue
		}
		fileExt := filepath.Ext(f.Name())
		for _, ext := range extensions {
			if fileExt == ext {
				confFiles = append(confFiles, filepath.Join(dir, f.Name()))
			}
		}
	}
	return confFiles, nil
}
