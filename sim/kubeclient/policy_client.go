package kubeclient

// Client surface used by pkg/policy that kubeclient.go does not have: pods listed through the API server WITH a
// field selector. PolicyManager.syncPods, in the branch taken while the pod informer has not been started, lists
// `spec.nodeName=<this node>` across all namespaces; the plain Clientset ignores ListOptions, which is fine for
// its users but would hand galaxy the pods of every node here. FieldSelectingClientset wraps it and applies
// the field selector the way the API server does for pods (metadata.name, metadata.namespace, spec.nodeName,
// status.phase, status.podIP) plus the label selector.

import (
	"context"

	corev1 "k8s.io/api/core/v1"
	metav1 "k8s.io/apimachinery/pkg/apis/meta/v1"
	"k8s.io/apimachinery/pkg/fields"
	"k8s.io/apimachinery/pkg/labels"
	typedcorev1 "k8s.io/client-go/kubernetes/typed/core/v1"
)

// FieldSelectingClientset is Clientset whose pod List honours field and label selectors.
type FieldSelectingClientset struct {
	*Clientset
}

// NewFieldSelectingClientset returns the wrapped simulated clientset.
func NewFieldSelectingClientset() *FieldSelectingClientset {
	return &FieldSelectingClientset{Clientset: NewClientset()}
}

func (c *FieldSelectingClientset) CoreV1() typedcorev1.CoreV1Interface {
	return &selCoreV1{CoreV1Interface: c.Clientset.CoreV1()}
}

type selCoreV1 struct {
	typedcorev1.CoreV1Interface
}

func (c *selCoreV1) Pods(ns string) typedcorev1.PodInterface {
	return &selPods{PodInterface: c.CoreV1Interface.Pods(ns)}
}

type selPods struct {
	typedcorev1.PodInterface
}

func (p *selPods) List(ctx context.Context, opts metav1.ListOptions) (*corev1.PodList, error) {
	all, err := p.PodInterface.List(ctx, opts)
	if err != nil {
		return nil, err
	}
	fs, err := fields.ParseSelector(opts.FieldSelector)
	if err != nil {
		return nil, err
	}
	ls, err := labels.Parse(opts.LabelSelector)
	if err != nil {
		return nil, err
	}
	out := &corev1.PodList{}
	for i := range all.Items {
		pod := &all.Items[i]
		f := fields.Set{"metadata.name": pod.Name, "metadata.namespace": pod.Namespace, "spec.nodeName": pod.Spec.NodeName,
			"status.phase": string(pod.Status.Phase), "status.podIP": pod.Status.PodIP}
		if fs.Matches(f) && ls.Matches(labels.Set(pod.Labels)) {
			out.Items = append(out.Items, *pod)
		}
	}
	return out, nil
}
