package kubeclient

// Lister surface used by pkg/policy that kubeclient.go does not have: the namespaced NetworkPolicy lister
// (syncNetworkPolices calls policyLister.NetworkPolicies(v1.NamespaceAll).List(...)).

import (
	networkingv1 "k8s.io/api/networking/v1"
	"k8s.io/apimachinery/pkg/labels"
	netlister "k8s.io/client-go/listers/networking/v1"
)

// NetworkPolicies returns the lister of one namespace ("" = all namespaces) over the informer view.
func (l NetworkPolicyLister) NetworkPolicies(ns string) netlister.NetworkPolicyNamespaceLister {
	return npNS{ns: ns}
}

type npNS struct {
	netlister.NetworkPolicyNamespaceLister
	ns string
}

func (l npNS) List(sel labels.Selector) ([]*networkingv1.NetworkPolicy, error) {
	var items []networkingv1.NetworkPolicy
	if err := viewList("networkpolicies", l.ns, &items); err != nil {
		return nil, err
	}
	var out []*networkingv1.NetworkPolicy
	for i := range items {
		if sel == nil || sel.Matches(labels.Set(items[i].Labels)) {
			out = append(out, &items[i])
		}
	}
	return out, nil
}

func (l npNS) Get(name string) (*networkingv1.NetworkPolicy, error) {
	out := &networkingv1.NetworkPolicy{}
	if err := viewGet("networkpolicies", l.ns, name, out); err != nil {
		return nil, err
	}
	return out, nil
}
