package kubeclient

import (
	"sync"
	"sync/atomic"

	apierrors "k8s.io/apimachinery/pkg/api/errors"
	"k8s.io/apimachinery/pkg/apis/meta/v1/unstructured"
	"k8s.io/apimachinery/pkg/labels"
	"k8s.io/apimachinery/pkg/runtime"
	"k8s.io/apimachinery/pkg/runtime/schema"
	utiljson "k8s.io/apimachinery/pkg/util/json"
	"k8s.io/client-go/informers"
	"k8s.io/client-go/tools/cache"
	"tkestack.io/galaxy/verifsim/core"
	"tkestack.io/galaxy/verifsim/simkube"
)

// DynFactory stands in for dynamicinformer.DynamicSharedInformerFactory so that the REAL pkg/ipam/crd cache (lazy start of
// one informer per custom resource, wait for its first sync under the cache's lock) runs over the simulated API server.
// An informer's cache is empty until its Run has listed the resource once (one API call = one scheduling point, which
// the world may stall); afterwards its lister reads the "cr:<resource>" informer view of simkube.
type DynFactory struct {
	// a real mutex, as in client-go's factory (ForResource takes the factory lock): one task runs at a time, so it never
	// blocks, but the race detector must see the same ordering between callers that the real factory provides
	mu   sync.Mutex
	infs map[schema.GroupVersionResource]*dynInformer
}

func NewDynFactory() *DynFactory {
	return &DynFactory{infs: map[schema.GroupVersionResource]*dynInformer{}}
}

func (f *DynFactory) Start(stopCh <-chan struct{}) {}
func (f *DynFactory) WaitForCacheSync(stopCh <-chan struct{}) map[schema.GroupVersionResource]bool {
	return map[schema.GroupVersionResource]bool{}
}

func (f *DynFactory) ForResource(gvr schema.GroupVersionResource) informers.GenericInformer {
	// called by crdCache.getLister before it takes its lock, possibly by several tasks: the simulator runs one task at
	// a time and there is no scheduling point in here
	f.mu.Lock()
	defer f.mu.Unlock()
	if i, ok := f.infs[gvr]; ok {
		return i
	}
	i := &dynInformer{gvr: gvr}
	f.infs[gvr] = i
	return i
}

type dynInformer struct {
	gvr    schema.GroupVersionResource
	synced int32
}

func (i *dynInformer) Informer() cache.SharedIndexInformer { return dynShared{i: i} }
func (i *dynInformer) Lister() cache.GenericLister         { return dynLister{i: i} }

// dynShared implements the two methods crdCache uses; every other method of the interface panics (nil embedded).
type dynShared struct {
	cache.SharedIndexInformer
	i *dynInformer
}

func (s dynShared) Run(stopCh <-chan struct{}) {
	// the initial LIST of the reflector
	core.Call(core.Req{Op: "api.list", A: []string{"cr:" + s.i.gvr.Resource, ""}})
	atomic.StoreInt32(&s.i.synced, 1)
	core.CallNow(core.Req{Op: "w.crd-informer-synced", A: []string{s.i.gvr.Resource}})
}

func (s dynShared) HasSynced() bool { return atomic.LoadInt32(&s.i.synced) == 1 }

type dynLister struct {
	i  *dynInformer
	ns string
}

func (l dynLister) ByNamespace(ns string) cache.GenericNamespaceLister {
	return dynLister{i: l.i, ns: ns}
}

func (l dynLister) Get(name string) (runtime.Object, error) {
	kind := "cr:" + l.i.gvr.Resource
	if atomic.LoadInt32(&l.i.synced) == 0 {
		// the cache has not been filled yet: it knows no object
		return nil, apierrors.NewNotFound(l.i.gvr.GroupResource(), name)
	}
	r := core.Call(core.Req{Op: "view.get", A: []string{kind, l.ns, name}})
	if r.Code == simkube.CodeNotFound {
		return nil, apierrors.NewNotFound(l.i.gvr.GroupResource(), name)
	}
	if err := ToErr(r, kind, name); err != nil {
		return nil, err
	}
	u := &unstructured.Unstructured{}
	// as the real decoder does: whole numbers become int64 (NestedInt64 on .spec.replicas depends on it)
	if err := utiljson.Unmarshal(r.B, &u.Object); err != nil {
		return nil, err
	}
	return u, nil
}

func (l dynLister) List(selector labels.Selector) ([]runtime.Object, error) {
	return nil, nil // not used by pkg/ipam/crd
}
