// Package kubeclient is the task-side implementation of the typed client and lister interfaces galaxy uses,
// on top of the simulated API server. Each struct embeds the (nil) interface it implements and overrides
// exactly the verbs galaxy calls; anything else panics with a nil-interface dereference, which the check
// reports as "unimplemented API" infrastructure trouble.
package kubeclient

import (
	"context"
	"encoding/json"
	"errors"
	"fmt"
	"sync"

	appsv1 "k8s.io/api/apps/v1"
	corev1 "k8s.io/api/core/v1"
	networkingv1 "k8s.io/api/networking/v1"
	extv1 "k8s.io/apiextensions-apiserver/pkg/apis/apiextensions/v1"
	extlister "k8s.io/apiextensions-apiserver/pkg/client/listers/apiextensions/v1"
	apierrors "k8s.io/apimachinery/pkg/api/errors"
	metav1 "k8s.io/apimachinery/pkg/apis/meta/v1"
	"k8s.io/apimachinery/pkg/labels"
	"k8s.io/apimachinery/pkg/runtime/schema"
	"k8s.io/client-go/kubernetes"
	typedcorev1 "k8s.io/client-go/kubernetes/typed/core/v1"
	appslister "k8s.io/client-go/listers/apps/v1"
	corelister "k8s.io/client-go/listers/core/v1"
	netlister "k8s.io/client-go/listers/networking/v1"
	"tkestack.io/galaxy/pkg/ipam/apis/galaxy/v1alpha1"
	crdclient "tkestack.io/galaxy/pkg/ipam/client/clientset/versioned"
	typedgalaxy "tkestack.io/galaxy/pkg/ipam/client/clientset/versioned/typed/galaxy/v1alpha1"
	galaxylister "tkestack.io/galaxy/pkg/ipam/client/listers/galaxy/v1alpha1"
	"tkestack.io/galaxy/verifsim/core"
	"tkestack.io/galaxy/verifsim/simkube"
)

var groupOf = map[string]schema.GroupResource{
	"pods":            {Resource: "pods"},
	"nodes":           {Resource: "nodes"},
	"configmaps":      {Resource: "configmaps"},
	"namespaces":      {Resource: "namespaces"},
	"floatingips":     {Group: "galaxy.k8s.io", Resource: "floatingips"},
	"pools":           {Group: "galaxy.k8s.io", Resource: "pools"},
	"deployments":     {Group: "apps", Resource: "deployments"},
	"statefulsets":    {Group: "apps", Resource: "statefulsets"},
	"crds":            {Group: "apiextensions.k8s.io", Resource: "customresourcedefinitions"},
	"networkpolicies": {Group: "networking.k8s.io", Resource: "networkpolicies"},
}

// ToErr converts a simulated response into the error a real client would return.
func ToErr(r core.Resp, kind, name string) error {
	if r.Code == 0 {
		return nil
	}
	gr, ok := groupOf[kind]
	if !ok {
		gr = schema.GroupResource{Resource: kind}
	}
	switch r.Code {
	case simkube.CodeNotFound:
		return apierrors.NewNotFound(gr, name)
	case simkube.CodeConflict:
		if r.Msg == "AlreadyExists" {
			return apierrors.NewAlreadyExists(gr, name)
		}
		return apierrors.NewConflict(gr, name, errors.New("the object has been modified; please apply your changes to the latest version and try again"))
	case simkube.CodeServerTimeout:
		return apierrors.NewServerTimeout(gr, "call", 1)
	case simkube.CodeInternal:
		return apierrors.NewInternalError(errors.New(r.Msg))
	case simkube.CodeBadRequest:
		return apierrors.NewBadRequest(r.Msg)
	case simkube.CodeRefused, core.CodeDead:
		return fmt.Errorf("dial tcp 10.0.0.1:6443: connect: connection refused")
	}
	return fmt.Errorf("simkube error %d: %s", r.Code, r.Msg)
}

func mustJSON(v interface{}) []byte {
	b, err := json.Marshal(v)
	if err != nil {
		panic(err)
	}
	return b
}

// errEmptyName is what client-go's rest.Request answers, without sending anything, when a typed client is asked for
// an object with an empty name (rest.(*Request).Name); it is NOT a NotFound status error.
var errEmptyName = errors.New("resource name may not be empty")

func apiGet(kind, ns, name string, out interface{}) error {
	if name == "" {
		return errEmptyName
	}
	r := core.Call(core.Req{Op: "api.get", A: []string{kind, ns, name}})
	if err := ToErr(r, kind, name); err != nil {
		return err
	}
	return json.Unmarshal(r.B, out)
}

func apiList(kind, ns string, items interface{}) error {
	r := core.Call(core.Req{Op: "api.list", A: []string{kind, ns}})
	if err := ToErr(r, kind, ""); err != nil {
		return err
	}
	return json.Unmarshal(r.B, items)
}

func apiWrite(op, kind, ns, name string, in, out interface{}) error {
	r := core.Call(core.Req{Op: op, A: []string{kind, ns, name}, B: mustJSON(in)})
	if err := ToErr(r, kind, name); err != nil {
		return err
	}
	if out != nil {
		return json.Unmarshal(r.B, out)
	}
	return nil
}

func apiDelete(kind, ns, name string) error {
	if name == "" {
		return errEmptyName
	}
	r := core.Call(core.Req{Op: "api.delete", A: []string{kind, ns, name}})
	return ToErr(r, kind, name)
}

func viewGet(kind, ns, name string, out interface{}) error {
	r := core.Call(core.Req{Op: "view.get", A: []string{kind, ns, name}})
	if err := ToErr(r, kind, name); err != nil {
		return err
	}
	return json.Unmarshal(r.B, out)
}

// sharedObjects makes the listers behave like client-go's: every caller that reads the same version of an object gets
// the SAME pointer (the informer cache owns it; callers must not modify it). Code that writes into a lister's object is
// then visible to the race detector as a write racing with other readers, as it is in a real process. The key is the
// object's content, the map is guarded by a real mutex (as the informer's store is), and it is emptied by ResetShared
// at the start of every simulated run.
var sharedObjects = struct {
	mu sync.Mutex
	m  map[string]interface{}
}{m: map[string]interface{}{}}

func init() { core.OnNewSim(ResetShared) }

// ResetShared forgets every shared lister object (runs at the start of every simulated run).
func ResetShared() {
	sharedObjects.mu.Lock()
	sharedObjects.m = map[string]interface{}{}
	sharedObjects.mu.Unlock()
}

// viewGetShared is viewGet for listers: mk allocates the typed object once per distinct content.
func viewGetShared(kind, ns, name string, mk func() interface{}) (interface{}, error) {
	r := core.Call(core.Req{Op: "view.get", A: []string{kind, ns, name}})
	if err := ToErr(r, kind, name); err != nil {
		return nil, err
	}
	key := kind + "\x00" + string(r.B)
	sharedObjects.mu.Lock()
	defer sharedObjects.mu.Unlock()
	if o, ok := sharedObjects.m[key]; ok {
		return o, nil
	}
	o := mk()
	if err := json.Unmarshal(r.B, o); err != nil {
		return nil, err
	}
	sharedObjects.m[key] = o
	return o, nil
}

func viewList(kind, ns string, items interface{}) error {
	r := core.Call(core.Req{Op: "view.list", A: []string{kind, ns}})
	if err := ToErr(r, kind, ""); err != nil {
		return err
	}
	return json.Unmarshal(r.B, items)
}

// ---- kubernetes.Interface ----------------------------------------------------------------------------------

// Clientset implements the part of kubernetes.Interface that galaxy uses.
type Clientset struct {
	kubernetes.Interface
}

// NewClientset returns the simulated core clientset.
func NewClientset() *Clientset { return &Clientset{} }

func (c *Clientset) CoreV1() typedcorev1.CoreV1Interface { return &coreV1{} }

type coreV1 struct {
	typedcorev1.CoreV1Interface
}

func (c *coreV1) Pods(ns string) typedcorev1.PodInterface             { return &pods{ns: ns} }
func (c *coreV1) Nodes() typedcorev1.NodeInterface                    { return &nodes{} }
func (c *coreV1) ConfigMaps(ns string) typedcorev1.ConfigMapInterface { return &configMaps{ns: ns} }

type pods struct {
	typedcorev1.PodInterface
	ns string
}

func (p *pods) Get(ctx context.Context, name string, _ metav1.GetOptions) (*corev1.Pod, error) {
	out := &corev1.Pod{}
	if err := apiGet("pods", p.ns, name, out); err != nil {
		return nil, err
	}
	return out, nil
}

func (p *pods) List(ctx context.Context, _ metav1.ListOptions) (*corev1.PodList, error) {
	out := &corev1.PodList{}
	if err := apiList("pods", p.ns, &out.Items); err != nil {
		return nil, err
	}
	return out, nil
}

func (p *pods) Update(ctx context.Context, pod *corev1.Pod, _ metav1.UpdateOptions) (*corev1.Pod, error) {
	out := &corev1.Pod{}
	if err := apiWrite("api.update", "pods", pod.Namespace, pod.Name, pod, out); err != nil {
		return nil, err
	}
	return out, nil
}

func (p *pods) Bind(ctx context.Context, b *corev1.Binding, _ metav1.CreateOptions) error {
	r := core.Call(core.Req{Op: "api.bind", A: []string{"pods", p.ns, b.Name}, B: mustJSON(b)})
	return ToErr(r, "pods", b.Name)
}

type nodes struct {
	typedcorev1.NodeInterface
}

func (n *nodes) Get(ctx context.Context, name string, _ metav1.GetOptions) (*corev1.Node, error) {
	out := &corev1.Node{}
	if err := apiGet("nodes", "", name, out); err != nil {
		return nil, err
	}
	return out, nil
}

type configMaps struct {
	typedcorev1.ConfigMapInterface
	ns string
}

func (c *configMaps) Get(ctx context.Context, name string, _ metav1.GetOptions) (*corev1.ConfigMap, error) {
	out := &corev1.ConfigMap{}
	if err := apiGet("configmaps", c.ns, name, out); err != nil {
		return nil, err
	}
	return out, nil
}

// ---- galaxy CRD clientset ----------------------------------------------------------------------------------

// GalaxyClientset implements the galaxy CRD clientset.
type GalaxyClientset struct {
	crdclient.Interface
}

// NewGalaxyClientset returns the simulated CRD clientset.
func NewGalaxyClientset() *GalaxyClientset { return &GalaxyClientset{} }

func (c *GalaxyClientset) GalaxyV1alpha1() typedgalaxy.GalaxyV1alpha1Interface { return &galaxyV1{} }

type galaxyV1 struct {
	typedgalaxy.GalaxyV1alpha1Interface
}

func (g *galaxyV1) FloatingIPs() typedgalaxy.FloatingIPInterface { return &fips{} }
func (g *galaxyV1) Pools(ns string) typedgalaxy.PoolInterface    { return &pools{ns: ns} }

type fips struct {
	typedgalaxy.FloatingIPInterface
}

func (f *fips) Create(ctx context.Context, o *v1alpha1.FloatingIP, _ metav1.CreateOptions) (*v1alpha1.FloatingIP, error) {
	out := &v1alpha1.FloatingIP{}
	if err := apiWrite("api.create", "floatingips", "", o.Name, o, out); err != nil {
		return nil, err
	}
	return out, nil
}

func (f *fips) Update(ctx context.Context, o *v1alpha1.FloatingIP, _ metav1.UpdateOptions) (*v1alpha1.FloatingIP, error) {
	out := &v1alpha1.FloatingIP{}
	if err := apiWrite("api.update", "floatingips", "", o.Name, o, out); err != nil {
		return nil, err
	}
	return out, nil
}

func (f *fips) Delete(ctx context.Context, name string, _ metav1.DeleteOptions) error {
	return apiDelete("floatingips", "", name)
}

func (f *fips) Get(ctx context.Context, name string, _ metav1.GetOptions) (*v1alpha1.FloatingIP, error) {
	out := &v1alpha1.FloatingIP{}
	if err := apiGet("floatingips", "", name, out); err != nil {
		return nil, err
	}
	return out, nil
}

func (f *fips) List(ctx context.Context, _ metav1.ListOptions) (*v1alpha1.FloatingIPList, error) {
	out := &v1alpha1.FloatingIPList{}
	if err := apiList("floatingips", "", &out.Items); err != nil {
		return nil, err
	}
	return out, nil
}

type pools struct {
	typedgalaxy.PoolInterface
	ns string
}

func (p *pools) Create(ctx context.Context, o *v1alpha1.Pool, _ metav1.CreateOptions) (*v1alpha1.Pool, error) {
	out := &v1alpha1.Pool{}
	cp := *o
	cp.Namespace = p.ns
	if err := apiWrite("api.create", "pools", p.ns, o.Name, &cp, out); err != nil {
		return nil, err
	}
	return out, nil
}

func (p *pools) Update(ctx context.Context, o *v1alpha1.Pool, _ metav1.UpdateOptions) (*v1alpha1.Pool, error) {
	out := &v1alpha1.Pool{}
	cp := *o
	cp.Namespace = p.ns
	if err := apiWrite("api.update", "pools", p.ns, o.Name, &cp, out); err != nil {
		return nil, err
	}
	return out, nil
}

func (p *pools) Delete(ctx context.Context, name string, _ metav1.DeleteOptions) error {
	return apiDelete("pools", p.ns, name)
}

func (p *pools) Get(ctx context.Context, name string, _ metav1.GetOptions) (*v1alpha1.Pool, error) {
	out := &v1alpha1.Pool{}
	if err := apiGet("pools", p.ns, name, out); err != nil {
		return nil, err
	}
	return out, nil
}

// ---- listers (informer views) ------------------------------------------------------------------------------

// PodLister reads the simulated pod informer view.
type PodLister struct {
	corelister.PodLister
}

func (l PodLister) List(sel labels.Selector) ([]*corev1.Pod, error) { return listPods("", sel) }
func (l PodLister) Pods(ns string) corelister.PodNamespaceLister    { return podNS{ns: ns} }

type podNS struct {
	corelister.PodNamespaceLister
	ns string
}

func (l podNS) List(sel labels.Selector) ([]*corev1.Pod, error) { return listPods(l.ns, sel) }
func (l podNS) Get(name string) (*corev1.Pod, error) {
	o, err := viewGetShared("pods", l.ns, name, func() interface{} { return &corev1.Pod{} })
	if err != nil {
		return nil, err
	}
	return o.(*corev1.Pod), nil
}

func listPods(ns string, sel labels.Selector) ([]*corev1.Pod, error) {
	var items []corev1.Pod
	if err := viewList("pods", ns, &items); err != nil {
		return nil, err
	}
	var out []*corev1.Pod
	for i := range items {
		if sel == nil || sel.Matches(labels.Set(items[i].Labels)) {
			out = append(out, &items[i])
		}
	}
	return out, nil
}

// NodeLister reads the node view.
type NodeLister struct {
	corelister.NodeLister
}

func (l NodeLister) Get(name string) (*corev1.Node, error) {
	o, err := viewGetShared("nodes", "", name, func() interface{} { return &corev1.Node{} })
	if err != nil {
		return nil, err
	}
	return o.(*corev1.Node), nil
}

func (l NodeLister) List(sel labels.Selector) ([]*corev1.Node, error) {
	var items []corev1.Node
	if err := viewList("nodes", "", &items); err != nil {
		return nil, err
	}
	var out []*corev1.Node
	for i := range items {
		if sel == nil || sel.Matches(labels.Set(items[i].Labels)) {
			out = append(out, &items[i])
		}
	}
	return out, nil
}

// NamespaceLister reads the namespace view.
type NamespaceLister struct {
	corelister.NamespaceLister
}

func (l NamespaceLister) Get(name string) (*corev1.Namespace, error) {
	out := &corev1.Namespace{}
	if err := viewGet("namespaces", "", name, out); err != nil {
		return nil, err
	}
	return out, nil
}

func (l NamespaceLister) List(sel labels.Selector) ([]*corev1.Namespace, error) {
	var items []corev1.Namespace
	if err := viewList("namespaces", "", &items); err != nil {
		return nil, err
	}
	var out []*corev1.Namespace
	for i := range items {
		if sel == nil || sel.Matches(labels.Set(items[i].Labels)) {
			out = append(out, &items[i])
		}
	}
	return out, nil
}

// StatefulSetLister reads the statefulset view.
type StatefulSetLister struct {
	appslister.StatefulSetLister
}

func (l StatefulSetLister) StatefulSets(ns string) appslister.StatefulSetNamespaceLister {
	return stsNS{ns: ns}
}

type stsNS struct {
	appslister.StatefulSetNamespaceLister
	ns string
}

func (l stsNS) Get(name string) (*appsv1.StatefulSet, error) {
	o, err := viewGetShared("statefulsets", l.ns, name, func() interface{} { return &appsv1.StatefulSet{} })
	if err != nil {
		return nil, err
	}
	return o.(*appsv1.StatefulSet), nil
}

// DeploymentLister reads the deployment view.
type DeploymentLister struct {
	appslister.DeploymentLister
}

func (l DeploymentLister) Deployments(ns string) appslister.DeploymentNamespaceLister {
	return dpNS{ns: ns}
}

type dpNS struct {
	appslister.DeploymentNamespaceLister
	ns string
}

func (l dpNS) Get(name string) (*appsv1.Deployment, error) {
	o, err := viewGetShared("deployments", l.ns, name, func() interface{} { return &appsv1.Deployment{} })
	if err != nil {
		return nil, err
	}
	return o.(*appsv1.Deployment), nil
}

// PoolLister reads the Pool view.
type PoolLister struct {
	galaxylister.PoolLister
}

func (l PoolLister) Pools(ns string) galaxylister.PoolNamespaceLister { return poolNS{ns: ns} }

type poolNS struct {
	galaxylister.PoolNamespaceLister
	ns string
}

func (l poolNS) Get(name string) (*v1alpha1.Pool, error) {
	o, err := viewGetShared("pools", l.ns, name, func() interface{} { return &v1alpha1.Pool{} })
	if err != nil {
		return nil, err
	}
	return o.(*v1alpha1.Pool), nil
}

// CRDLister reads the CustomResourceDefinition view.
type CRDLister struct {
	extlister.CustomResourceDefinitionLister
}

func (l CRDLister) Get(name string) (*extv1.CustomResourceDefinition, error) {
	o, err := viewGetShared("crds", "", name, func() interface{} { return &extv1.CustomResourceDefinition{} })
	if err != nil {
		return nil, err
	}
	return o.(*extv1.CustomResourceDefinition), nil
}

func (l CRDLister) List(sel labels.Selector) ([]*extv1.CustomResourceDefinition, error) {
	var items []extv1.CustomResourceDefinition
	if err := viewList("crds", "", &items); err != nil {
		return nil, err
	}
	var out []*extv1.CustomResourceDefinition
	for i := range items {
		out = append(out, &items[i])
	}
	return out, nil
}

// NetworkPolicyLister reads the NetworkPolicy view.
type NetworkPolicyLister struct {
	netlister.NetworkPolicyLister
}

func (l NetworkPolicyLister) List(sel labels.Selector) ([]*networkingv1.NetworkPolicy, error) {
	var items []networkingv1.NetworkPolicy
	if err := viewList("networkpolicies", "", &items); err != nil {
		return nil, err
	}
	var out []*networkingv1.NetworkPolicy
	for i := range items {
		if sel == nil || sel.Matches(labels.Set(items[i].Labels)) {
			out = append(out, &items[i])
		}
	}
	return out, nil
}

// CrdCache implements crd.CrdCache over the "cr:<resource>" kinds of the simulated server (informer view).
type CrdCache struct{}

// GetReplicas returns .spec.replicas of the custom resource.
func (CrdCache) GetReplicas(gvr schema.GroupVersionResource, namespace, name string) (int, error) {
	var obj struct {
		Spec struct {
			Replicas int `json:"replicas"`
		} `json:"spec"`
	}
	kind := "cr:" + gvr.Resource
	r := core.Call(core.Req{Op: "view.get", A: []string{kind, namespace, name}})
	if r.Code == simkube.CodeNotFound {
		return 0, apierrors.NewNotFound(gvr.GroupResource(), name)
	}
	if err := ToErr(r, kind, name); err != nil {
		return 0, err
	}
	if err := json.Unmarshal(r.B, &obj); err != nil {
		return 0, err
	}
	return obj.Spec.Replicas, nil
}
