#!/bin/bash
# mutcheck.sh <mutation dir> <property> [more properties...]
# 1. confirms the mutation in a scratch worktree: patch applies, builds, pinned tests still pass, demo fails with it
#    and passes without it; 2. applies it to /repo, runs the named checks (quick tier), restores /repo.
set -u
D=$1; shift
export GOFLAGS=-mod=mod GOPROXY=off GOSUMDB=off GOTOOLCHAIN=local
V=/verif
WT=/var/tmp/mutcheck.$$
git -C /repo worktree add -q --detach $WT HEAD || exit 2
cleanup() { git -C /repo worktree remove --force $WT 2>/dev/null; rm -rf $WT; }
trap cleanup EXIT
pkgdir=$(cut -d: -f1 $D/DEMO.txt | tr -d ' ')
cmd=$(cut -d: -f2- $D/DEMO.txt)
res="mutation $(basename $D):"
# demo without the change
cp $D/zz_mutdemo_test.go $WT/$pkgdir/ 2>/dev/null || { echo "$res no demo file"; exit 2; }
for f in $D/*_test.go; do cp $f $WT/$pkgdir/; done
(cd $WT && eval "$cmd" > $WT/.demo0.log 2>&1); d0=$?
(cd $WT && git apply $D/patch.diff) || { echo "$res patch does not apply"; exit 2; }
(cd $WT && go build ./... > $WT/.build.log 2>&1) || { echo "$res does not build"; tail -5 $WT/.build.log; exit 2; }
(cd $WT && eval "$cmd" > $WT/.demo1.log 2>&1); d1=$?
# pinned tests with the change (demo file removed)
rm -f $WT/$pkgdir/zz_mutdemo*_test.go
for f in $D/*_test.go; do rm -f $WT/$pkgdir/$(basename $f); done
(cd $WT && go test -mod=mod -json -vet=off -count=1 -timeout 25m ./pkg/... ./cni/... 2>/dev/null > $WT/.t.json)
miss=$(python3 - $WT/.t.json <<'PY'
import json,sys
passed=set()
for l in open(sys.argv[1]):
    try: e=json.loads(l)
    except Exception: continue
    if e.get('Action')=='pass' and e.get('Test'): passed.add(e['Package']+'::'+e['Test'])
base=[t for t in json.load(open('/root/.vp/BASELINE.json'))['stable_pass'] if '/e2e/' not in t]
print(len([t for t in base if t not in passed]))
PY
)
echo "$res demo without change rc=$d0 (want 0), with change rc=$d1 (want !=0), pinned tests missing with change: $miss"
[ "$d0" = 0 ] && [ "$d1" != 0 ] && [ "$miss" = 0 ] || { echo "$res NOT CONFIRMED"; [ "${FORCE:-}" = 1 ] || exit 3; }
# run the checks against the tree with the change applied (scratch worktree, so that concurrent work in /repo is
# not disturbed; identical to `git -C /repo apply` + run + `git -C /repo checkout -- .`)
for p in "$@"; do
  out=$(VERIF_REPO=$WT VERIF_EVIDENCE_DIR=/var/tmp/mutev $V/bin/vcheck $p -tier quick ${BUDGET:+-budget $BUDGET} 2>&1); rc=$?
  echo "$res check $p rc=$rc $(echo "$out" | grep -c '^VIOLATION') violation(s): $(echo "$out" | grep '^VIOLATION' | head -2 | sed 's/.*replays\///' | tr '\n' ' ')"
  [ $rc -eq 2 ] && echo "$out" | tail -3
done
