import sys,re,collections
tot=collections.Counter(); cov=collections.Counter()
seen={}
for l in open(sys.argv[1]):
    if l.startswith('mode:'): continue
    m=re.match(r'(.*):(\d+\.\d+,\d+\.\d+) (\d+) (\d+)',l)
    f,blk,n,c=m.groups(); n=int(n); c=int(c)
    key=(f,blk)
    if key in seen:
        if c>0 and not seen[key]:
            seen[key]=True; cov[f.rsplit('/',1)[0]]+=n
        continue
    seen[key]=c>0
    p=f.rsplit('/',1)[0]
    tot[p]+=n
    if c>0: cov[p]+=n
for p in sorted(tot):
    if re.search(sys.argv[2],p): print('%5.1f%% %5d/%5d %s'%(100.0*cov[p]/tot[p],cov[p],tot[p],p.replace('tkestack.io/galaxy/','')))
