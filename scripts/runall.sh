#!/bin/bash
# runall.sh [tier] — runs every claimed check once and prints a summary line per property.
cd "$(dirname "$0")/.."
TIER=${1:-quick}
for p in $(python3 -c "import json;print(' '.join(c['property_id'] for c in json.load(open('MANIFEST.json'))['checks']))"); do
  s=$(date +%s)
  out=$(bin/vcheck $p -tier $TIER 2>&1); rc=$?
  e=$(date +%s)
  echo "$p rc=$rc $((e-s))s $(echo "$out" | grep -c '^VIOLATION') violations $(echo "$out" | grep -c '^KNOWN-FINDING') known | $(echo "$out" | grep '^vcheck' | tail -1)"
  [ $rc -ne 0 ] && echo "$out" | grep -E '^VIOLATION|infrastructure' | head -5
done
