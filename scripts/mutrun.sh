#!/bin/bash
# mutrun.sh <mutation dir> <property> [more...] — applies an already confirmed change to a scratch worktree of /repo and
# runs the named checks against it (no confirmation step). BUDGET/TIER may be set.
set -u
D=$(cd "$1" && pwd); shift
export GOFLAGS=-mod=mod GOPROXY=off GOSUMDB=off GOTOOLCHAIN=local
V=/verif
WT=/var/tmp/mutrun.$$
git -C /repo worktree add -q --detach $WT HEAD || exit 2
cleanup() { git -C /repo worktree remove --force $WT 2>/dev/null; rm -rf $WT; }
trap cleanup EXIT
(cd $WT && git apply $D/patch.diff) || { echo "$(basename $D): patch does not apply"; exit 2; }
for p in "$@"; do
  out=$(VERIF_REPO=$WT VERIF_EVIDENCE_DIR=/var/tmp/mutev $V/bin/vcheck $p -tier ${TIER:-quick} ${BUDGET:+-budget $BUDGET} 2>&1); rc=$?
  echo "mutation $(basename $D): check $p rc=$rc $(echo "$out" | grep -c '^VIOLATION') violation(s): $(echo "$out" | grep '^VIOLATION' | head -3 | sed 's/.*replays\///' | tr '\n' ' ')"
  [ $rc -eq 2 ] && echo "$out" | tail -3
done
