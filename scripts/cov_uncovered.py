import sys,re,collections
root='/var/tmp/cov/src-%s/galaxy/'%sys.argv[2]  # scratch tree kept by scripts/covbuild.sh
pat=sys.argv[3]
blocks=collections.defaultdict(int)
for l in open(sys.argv[1]):
    if l.startswith('mode:'): continue
    m=re.match(r'(.*):(\d+)\.(\d+),(\d+)\.(\d+) (\d+) (\d+)',l)
    f,sl,sc,el,ec,n,c=m.groups()
    blocks[(f,int(sl),int(sc),int(el),int(ec))]+=int(c)
byfile=collections.defaultdict(list)
for (f,sl,sc,el,ec),c in blocks.items():
    if c==0 and re.search(pat,f): byfile[f].append((sl,el))
for f in sorted(byfile):
    rel=f.replace('tkestack.io/galaxy/','')
    try: src=open(root+rel).read().split('\n')
    except Exception as e: print('??',f); continue
    print('=====',rel)
    for sl,el in sorted(byfile[f]):
        print('  %d-%d: %s'%(sl,el,' | '.join(x.strip() for x in src[sl-1:min(el,sl+3)])[:230]))
