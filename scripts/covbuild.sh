#!/bin/bash
# build.sh <world> [race]  — builds the simulated world binary from /repo's current working tree.
# Prints the path of the binary on stdout. Exit 2 on any trouble (never a verdict).
set -u
WORLD="$1"; RACE="${2:-}"
VERIF="$(cd "$(dirname "$0")/.." && pwd)"
REPO="${VERIF_REPO:-/repo}"
export GOFLAGS=-mod=mod GOPROXY=off GOSUMDB=off GOTOOLCHAIN=local CGO_ENABLED=1
[ -x "$VERIF/bin/simrewrite" ] || { (cd "$VERIF/tools" && go build -o "$VERIF/bin/simrewrite" ./simrewrite) || exit 2; }
# content hash of everything that goes into the binary
H=$( { (cd "$REPO" && find . -path ./.git -prune -o \( -name '*.go' -o -name go.mod -o -name go.sum \) -type f -print0 | sort -z | xargs -0 sha256sum);
       (cd "$VERIF/sim" && find . -type f -print0 | sort -z | xargs -0 sha256sum);
       sha256sum "$VERIF/tools/simrewrite/main.go"; go version; echo "$WORLD $RACE"; } | sha256sum | cut -c1-24)
OUT="/var/tmp/cov/$WORLD"; mkdir -p /var/tmp/cov

mkdir -p "$VERIF/.cache/$H"
# keep the cache small: drop entries other than the current hash that are older than a day
find "$VERIF/.cache" -mindepth 1 -maxdepth 1 -type d ! -name "$H" -mmin +720 -exec rm -rf {} + 2>/dev/null
SCRATCH=/var/tmp/cov/src-$WORLD; rm -rf $SCRATCH; mkdir -p $SCRATCH || exit 2

G="$SCRATCH/galaxy"
mkdir -p "$G"
rsync -a --exclude .git --exclude '/e2e' --exclude '/doc' --exclude '/hack' --exclude '/artifacts' --exclude '/yaml' --exclude '/build' "$REPO/" "$G/" || exit 2
"$VERIF/bin/simrewrite" -dir "$G" -report "$VERIF/.cache/$H/rewrite-report.json" 1>&2 || { echo "build.sh: rewriter refused the tree" >&2; exit 2; }
mkdir -p "$G/verifsim"
rsync -a "$VERIF/sim/" "$G/verifsim/" || exit 2
# extra module requirements of the simulator
cat "$VERIF/sim/go.sum.extra" >> "$G/go.sum" 2>/dev/null
(cd "$G" && go mod edit -require=github.com/anishathalye/porcupine@v1.3.0) || exit 2
FLAGS=(-tags verif -cover -covermode=atomic)
[ -n "$RACE" ] && FLAGS+=(-race)
(cd "$G" && go build "${FLAGS[@]}" -o "$OUT.tmp" "./verifsim/worlds/$WORLD") 1>&2 || { echo "build.sh: go build failed" >&2; exit 2; }
mv "$OUT.tmp" "$OUT"
echo "$OUT"
