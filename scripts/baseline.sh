#!/bin/bash
# Runs the repository's pinned test suite (guard OFF) and compares the set of passing tests with the stable
# baseline in /root/.vp/BASELINE.json. Exit 0 iff every stable test passes.
export GOFLAGS=-mod=mod GOPROXY=off GOSUMDB=off GOTOOLCHAIN=local
cd /repo || exit 2
OUT=$(mktemp /var/tmp/baseline.XXXXXX.json)
trap 'rm -f "$OUT"' EXIT
go test -mod=mod -json -vet=off -count=1 -timeout 25m ./... > "$OUT" 2>/dev/null
python3 - "$OUT" <<'PY'
import json,sys
passed=set()
for l in open(sys.argv[1]):
    try: e=json.loads(l)
    except Exception: continue
    if e.get('Action')=='pass' and e.get('Test'):
        passed.add(e['Package']+'::'+e['Test'])
base=json.load(open('/root/.vp/BASELINE.json'))['stable_pass']
missing=[t for t in base if t not in passed]
print("baseline: %d stable tests, %d passing now, %d missing"%(len(base),len(passed),len(missing)))
for m in missing: print("MISSING",m)
sys.exit(1 if missing else 0)
PY
