#!/bin/bash
# selftest.sh [world] [props...] — determinism: the same derived seeds must give identical event-log hashes in
# separate processes at GOMAXPROCS 1, 4 and 16 (3 processes per setting).
cd "$(dirname "$0")/.."
WORLD=${1:-ipam}; shift
PROPS=${@:-C01 C03 C05 C06 C09 C11 C18}
BIN=$(scripts/build.sh $WORLD) || exit 2
T=$(mktemp -d /var/tmp/selftest.XXXXXX); trap 'rm -rf $T' EXIT
rc=0
for p in $PROPS; do
  i=0
  for gmp in 1 4 16 1 4 16 16 16 16; do
    i=$((i+1))
    GOMAXPROCS=$gmp $BIN -prop $p -runs ${RUNS:-60} -hashes -seed 7 -worker 3 -replaydir $T/r -out $T/o.json > $T/$p.$i.txt 2>/dev/null &
  done
  wait
  n=$(md5sum $T/$p.*.txt | awk '{print $1}' | sort -u | wc -l)
  lines=$(wc -l < $T/$p.1.txt)
  if [ "$n" != 1 ]; then echo "NONDETERMINISTIC $WORLD $p ($n distinct logs)"; rc=1; diff $T/$p.1.txt $T/$p.2.txt | head -5; else echo "deterministic $WORLD $p: 9 processes x $lines runs identical"; fi
done
exit $rc
