#!/bin/bash
# show.sh <replay.json> [n]  — print the violation and the last n trace lines without lock noise
python3 -c "
import json,sys; r=json.load(open('$1')); print(r['violation']['message'], '| choices',len(r['choices']),'orig',r['original_choices']); 
t=[l for l in r['trace'] if ' lock#' not in l and 'deliver:statefulsets' not in l and ' yield' not in l and ' sleep' not in l]
print('\n'.join(t[-${2:-50}:]))"
